#!/usr/bin/env bash
# run.sh <property-id> <quick|thorough>   — registered in MANIFEST.json
# run.sh --build                          — build the checker (setup_cmd)
# run.sh --replay <file>                  — re-run the rule instance recorded in a replay file
set -u
HERE="$(cd "$(dirname "${BASH_SOURCE[0]}")" && pwd)"
export GOFLAGS=-mod=mod GOPROXY=off GOSUMDB=off GOTOOLCHAIN=local CGO_ENABLED=0
unset GOWORK
export VERIF_ROOT="$HERE"
REPO="${VERIF_REPO:-/repo}"
BIN="$HERE/bin/tarsverif"

build() {
  mkdir -p "$HERE/bin"
  if [ ! -x "$BIN" ] || [ -n "$(find "$HERE/checker" -newer "$BIN" \( -name '*.go' -o -name go.mod -o -name go.sum -o -name '*.json' -o -name '*.txt' \) -print -quit)" ]; then
    ( cd "$HERE/checker" && go build -o "$BIN.tmp.$$" . && mv "$BIN.tmp.$$" "$BIN" ) || { echo "checker build failed"; rm -f "$BIN.tmp.$$"; return 1; }
  fi
}

case "${1:-}" in
  --build) build; exit $? ;;
  --replay) build || exit 1; exec "$BIN" replay -file "$2" -repo "$REPO" ;;
  --list) build || exit 1; exec "$BIN" list ;;
  "") echo "usage: run.sh <id> <quick|thorough>"; exit 2 ;;
esac
ID="$1"; TIER="${2:-${VERIF_TIER:-quick}}"
build || { echo "VIOLATION property=$ID replay=none(checker-build-failed)"; exit 1; }
shift; shift || true
exec "$BIN" check -prop "$ID" -tier "$TIER" -repo "$REPO" "$@"
