package main

import (
	"fmt"
	"os"
	"path/filepath"
	"sort"
	"strconv"
	"strings"
	"unicode"
)

// A small independent reader for the .tars IDL files under tars/protocol/res (it shares no code
// with the tars2go front end). Only what the rules compare is extracted.

type idlType struct {
	name     string // bool byte short int long float double string vector map or a user type
	unsigned bool
	k, v     *idlType
}

type idlMember struct {
	tag     int64
	require bool
	typ     *idlType
	name    string
	def     string
	hasDef  bool
}

type idlStruct struct {
	name    string
	members []idlMember
}

type idlArg struct {
	out  bool
	typ  *idlType
	name string
}

type idlFunc struct {
	name string
	ret  *idlType // nil for void
	args []idlArg
}

type idlInterface struct {
	name  string
	funcs []idlFunc
}

type idlEnum struct {
	name    string
	members map[string]int64
	order   []string
}

type idlConst struct {
	name, value string
	typ         *idlType
}

type idlModule struct {
	file       string
	name       string
	structs    []idlStruct
	interfaces []idlInterface
	enums      []idlEnum
	consts     []idlConst
}

type idlLexer struct {
	toks []string
	i    int
}

func idlTokenize(src string) []string {
	var toks []string
	rs := []rune(src)
	for i := 0; i < len(rs); {
		c := rs[i]
		switch {
		case unicode.IsSpace(c):
			i++
		case c == '/' && i+1 < len(rs) && rs[i+1] == '/':
			for i < len(rs) && rs[i] != '\n' {
				i++
			}
		case c == '/' && i+1 < len(rs) && rs[i+1] == '*':
			i += 2
			for i+1 < len(rs) && !(rs[i] == '*' && rs[i+1] == '/') {
				i++
			}
			i += 2
		case c == '#':
			for i < len(rs) && rs[i] != '\n' {
				i++
			}
		case c == '"':
			j := i + 1
			for j < len(rs) && rs[j] != '"' {
				j++
			}
			toks = append(toks, string(rs[i:j+1]))
			i = j + 1
		case unicode.IsLetter(c) || c == '_':
			j := i
			for j < len(rs) && (unicode.IsLetter(rs[j]) || unicode.IsDigit(rs[j]) || rs[j] == '_' || rs[j] == ':') {
				j++
			}
			toks = append(toks, string(rs[i:j]))
			i = j
		case unicode.IsDigit(c) || c == '-':
			j := i + 1
			for j < len(rs) && (unicode.IsDigit(rs[j]) || unicode.IsLetter(rs[j]) || rs[j] == '.') {
				j++
			}
			toks = append(toks, string(rs[i:j]))
			i = j
		default:
			toks = append(toks, string(c))
			i++
		}
	}
	return toks
}

func (l *idlLexer) peek() string {
	if l.i < len(l.toks) {
		return l.toks[l.i]
	}
	return ""
}
func (l *idlLexer) next() string { t := l.peek(); l.i++; return t }
func (l *idlLexer) expect(s string) error {
	if t := l.next(); t != s {
		return fmt.Errorf("expected %q, got %q (token %d)", s, t, l.i)
	}
	return nil
}

func (l *idlLexer) parseType() (*idlType, error) {
	t := l.next()
	switch t {
	case "unsigned":
		in, err := l.parseType()
		if err != nil {
			return nil, err
		}
		in.unsigned = true
		return in, nil
	case "vector":
		if err := l.expect("<"); err != nil {
			return nil, err
		}
		k, err := l.parseType()
		if err != nil {
			return nil, err
		}
		if err := l.expect(">"); err != nil {
			return nil, err
		}
		return &idlType{name: "vector", k: k}, nil
	case "map":
		if err := l.expect("<"); err != nil {
			return nil, err
		}
		k, err := l.parseType()
		if err != nil {
			return nil, err
		}
		if err := l.expect(","); err != nil {
			return nil, err
		}
		v, err := l.parseType()
		if err != nil {
			return nil, err
		}
		if err := l.expect(">"); err != nil {
			return nil, err
		}
		return &idlType{name: "map", k: k, v: v}, nil
	case "":
		return nil, fmt.Errorf("unexpected end of file in type")
	}
	return &idlType{name: t}, nil
}

func parseIDL(file, src string) (*idlModule, error) {
	l := &idlLexer{toks: idlTokenize(src)}
	m := &idlModule{file: file}
	for l.peek() != "" && l.peek() != "module" {
		l.next()
	}
	if err := l.expect("module"); err != nil {
		return nil, err
	}
	m.name = l.next()
	if err := l.expect("{"); err != nil {
		return nil, err
	}
	for {
		switch t := l.next(); t {
		case "}":
			return m, nil
		case "":
			return nil, fmt.Errorf("unexpected end of file in module")
		case ";":
		case "const":
			ty, err := l.parseType()
			if err != nil {
				return nil, err
			}
			name := l.next()
			if err := l.expect("="); err != nil {
				return nil, err
			}
			m.consts = append(m.consts, idlConst{name: name, value: l.next(), typ: ty})
		case "enum":
			e := idlEnum{name: l.next(), members: map[string]int64{}}
			if err := l.expect("{"); err != nil {
				return nil, err
			}
			var cur int64
			for l.peek() != "}" && l.peek() != "" {
				n := l.next()
				if n == "," {
					continue
				}
				if l.peek() == "=" {
					l.next()
					v, err := strconv.ParseInt(l.next(), 0, 64)
					if err != nil {
						return nil, err
					}
					cur = v
				}
				e.members[n] = cur
				e.order = append(e.order, n)
				cur++
			}
			l.next()
			m.enums = append(m.enums, e)
		case "struct":
			s := idlStruct{name: l.next()}
			if err := l.expect("{"); err != nil {
				return nil, err
			}
			for l.peek() != "}" && l.peek() != "" {
				tag, err := strconv.ParseInt(l.next(), 0, 64)
				if err != nil {
					return nil, fmt.Errorf("struct %s: %v", s.name, err)
				}
				req := l.next()
				ty, err := l.parseType()
				if err != nil {
					return nil, err
				}
				mb := idlMember{tag: tag, require: req == "require", typ: ty, name: l.next()}
				if l.peek() == "=" {
					l.next()
					mb.def, mb.hasDef = l.next(), true
				}
				if err := l.expect(";"); err != nil {
					return nil, fmt.Errorf("struct %s member %s: %v", s.name, mb.name, err)
				}
				s.members = append(s.members, mb)
			}
			l.next()
			m.structs = append(m.structs, s)
		case "key":
			for l.peek() != ";" && l.peek() != "" {
				l.next()
			}
		case "interface":
			it := idlInterface{name: l.next()}
			if err := l.expect("{"); err != nil {
				return nil, err
			}
			for l.peek() != "}" && l.peek() != "" {
				var f idlFunc
				if l.peek() == "void" {
					l.next()
				} else {
					rt, err := l.parseType()
					if err != nil {
						return nil, err
					}
					f.ret = rt
				}
				f.name = l.next()
				if err := l.expect("("); err != nil {
					return nil, fmt.Errorf("interface %s func %s: %v", it.name, f.name, err)
				}
				for l.peek() != ")" && l.peek() != "" {
					if l.peek() == "," {
						l.next()
						continue
					}
					var a idlArg
					if l.peek() == "out" {
						l.next()
						a.out = true
					}
					ty, err := l.parseType()
					if err != nil {
						return nil, err
					}
					a.typ = ty
					if l.peek() != "," && l.peek() != ")" {
						a.name = l.next()
					}
					f.args = append(f.args, a)
				}
				l.next()
				if err := l.expect(";"); err != nil {
					return nil, err
				}
				it.funcs = append(it.funcs, f)
			}
			l.next()
			m.interfaces = append(m.interfaces, it)
		default:
			return nil, fmt.Errorf("unexpected token %q in module %s", t, m.name)
		}
	}
}

func loadIDLs(repo string) ([]*idlModule, error) {
	files, _ := filepath.Glob(filepath.Join(repo, "tars/protocol/res/*.tars"))
	sort.Strings(files)
	var out []*idlModule
	for _, f := range files {
		b, err := os.ReadFile(f)
		if err != nil {
			return nil, err
		}
		m, err := parseIDL(filepath.Base(f), string(b))
		if err != nil {
			return nil, fmt.Errorf("%s: %v", filepath.Base(f), err)
		}
		out = append(out, m)
	}
	return out, nil
}

// idlShape: the wire shape the IDL type is encoded with (enums/structs resolved through isEnum).
func idlShape(t *idlType, isEnum func(string) bool) string {
	switch t.name {
	case "bool":
		return "Prim(Bool)"
	case "byte":
		if t.unsigned {
			return "Prim(Uint8)"
		}
		return "Prim(Int8)"
	case "short":
		if t.unsigned {
			return "Prim(Uint16)"
		}
		return "Prim(Int16)"
	case "int":
		if t.unsigned {
			return "Prim(Uint32)"
		}
		return "Prim(Int32)"
	case "long":
		return "Prim(Int64)"
	case "float":
		return "Prim(Float32)"
	case "double":
		return "Prim(Float64)"
	case "string":
		return "Prim(String)"
	case "vector":
		if t.k.name == "byte" && !t.k.unsigned {
			return "SimpleList"
		}
		return "List(" + idlShape(t.k, isEnum) + ")"
	case "map":
		return "Map(" + idlShape(t.k, isEnum) + "," + idlShape(t.v, isEnum) + ")"
	}
	n := t.name
	if i := strings.LastIndex(n, "::"); i >= 0 {
		n = n[i+2:]
	}
	if isEnum(n) {
		return "Prim(Int32)"
	}
	return "Struct"
}

func upperFirst(s string) string {
	if s == "" {
		return s
	}
	return strings.ToUpper(s[:1]) + s[1:]
}
