package main

import (
	"go/token"
	"go/types"
	"strings"

	"golang.org/x/tools/go/ssa"
)

const connectionT = modPath + "/tars/transport.connection"
const tarsClientT = modPath + "/tars/transport.TarsClient"

func isNetConn(t types.Type) bool { return typeID(t) == "net.Conn" }

// storesClosedTrue: in is `X.isClosed = true` on transport.connection.
func storesClosedTrue(in ssa.Instruction) bool {
	st, ok := in.(*ssa.Store)
	if !ok || !isFieldOf(st.Addr, connectionT, "isClosed") {
		return false
	}
	b, ok := constBool(st.Val)
	return ok && b
}

// marksClosed: function (transitively, static calls in package transport, depth<=2) stores isClosed=true.
func marksClosed(f *ssa.Function, depth int) bool {
	if f == nil || f.Blocks == nil || depth > 2 {
		return false
	}
	found := false
	eachInstr(f, func(in ssa.Instruction) {
		if storesClosedTrue(in) {
			found = true
		}
		if c, ok := in.(*ssa.Call); ok && !found {
			if sc := c.Call.StaticCallee(); sc != nil && sc.Pkg == f.Pkg && marksClosed(sc, depth+1) {
				found = true
			}
		}
	})
	return found
}

func connParam(f *ssa.Function) *ssa.Parameter {
	for _, p := range f.Params {
		if isNetConn(p.Type()) {
			return p
		}
	}
	return nil
}

func init() {
	register(&Rule{ID: "C11.R1", Props: []string{"C11"}, Min: 3, Needs: NeedMain,
		Doc: "closing a stale connection must not mark the client closed: in a function that takes the net.Conn to close as a parameter, every store isClosed=true is dominated by a comparison of that parameter with the current c.conn; and the goroutines bound to one connection (functions with a net.Conn parameter) only ever close through such a guarded function with their own connection, never through a function that closes whatever connection is current",
		Run: func(r *R) {
			sp := r.w.Pkg("tars/transport")
			if sp == nil {
				r.AnchorMissing("package tars/transport")
				return
			}
			guarded := map[*ssa.Function]bool{}
			for _, fn := range r.w.Funcs(sp) {
				p := connParam(fn)
				eachInstr(fn, func(in ssa.Instruction) {
					if !storesClosedTrue(in) {
						return
					}
					if p == nil {
						// closes the current connection on request of the owner (TarsClient.Close): allowed here,
						// its callers are restricted below
						r.OKLookup(fname(fn), "isClosed=true (owner close)", in.Pos(), "explicit close of the current connection")
						return
					}
					ok := false
					for _, f := range facts(in.Block()) {
						c, okc := normFact(f)
						if !okc || c.Op != token.EQL {
							continue
						}
						x, y := strip(c.X, false), strip(c.Y, false)
						isCur := func(v ssa.Value) bool {
							_, name, _, okf := loadedField(v)
							return okf && name == "conn"
						}
						if (x == ssa.Value(p) && isCur(c.Y)) || (y == ssa.Value(p) && isCur(c.X)) {
							ok = true
						}
					}
					if ok {
						guarded[fn] = true
					}
					r.Check(ok, fname(fn), "isClosed=true guarded by conn identity", in.Pos(), "only when the connection being closed is the current one", "the shared state is marked closed for whatever connection is passed in: a goroutine of an earlier connection ending after a reconnect marks the healthy new connection closed")
				})
			}
			// per-connection goroutines
			for _, fn := range r.w.Funcs(sp) {
				p := connParam(fn)
				if p == nil || fn.Signature.Recv() == nil || typeID(fn.Signature.Recv().Type()) != connectionT {
					continue
				}
				eachInstr(fn, func(in ssa.Instruction) {
					c, ok := in.(*ssa.Call)
					if !ok {
						return
					}
					sc := c.Call.StaticCallee()
					if sc == nil || sc.Pkg != sp || !marksClosed(sc, 0) || sc == fn {
						return
					}
					passesOwn := false
					for _, a := range c.Call.Args {
						if strip(a, false) == ssa.Value(p) {
							passesOwn = true
						}
					}
					r.Check(guarded[sc] && passesOwn, fname(fn), "closes only its own connection via "+sc.Name(), in.Pos(), "calls the identity-guarded close with its own connection", "a goroutine bound to one connection calls %s, which marks the client closed regardless of which connection is current: a stale goroutine can kill the fresh connection", sc.Name())
				})
			}
		}})

	register(&Rule{ID: "C11.R2", Props: []string{"C11"}, Min: 2, Needs: NeedMain,
		Doc: "a failed write does not lose the request: on the error edge of conn.Write in the sender every path to the return re-queues the message on sendFailQueue, and a sender polls sendFailQueue before sendQueue",
		Run: func(r *R) {
			fn := senderFunc(r.w)
			if fn == nil {
				r.AnchorMissing("sender loop (function receiving from TarsClient.sendQueue)")
				return
			}
			var wr *ssa.Call
			eachInstr(fn, func(in ssa.Instruction) {
				if c, ok := in.(*ssa.Call); ok && c.Call.IsInvoke() && c.Call.Method.Name() == "Write" && isNetConn(c.Call.Value.Type()) {
					wr = c
				}
			})
			if wr == nil {
				r.Undecided(fname(fn), "conn.Write", fn.Pos(), "no conn.Write in the sender")
				return
			}
			ev, _, found := errResult(wr)
			if !found {
				r.Bad(fname(fn), "write error handled", wr.Pos(), "the error of conn.Write is dropped")
				return
			}
			// from the err != nil edge: every path to Return passes a send on sendFailQueue
			var errBlock *ssa.BasicBlock
			for _, b := range fn.Blocks {
				for _, f := range edgeFactsInto(b) {
					if c, ok := normFact(f); ok && nilCmp(c, ev, token.NEQ) {
						errBlock = b
					}
				}
			}
			if errBlock == nil {
				r.Bad(fname(fn), "write error handled", wr.Pos(), "the error of conn.Write is never tested")
				return
			}
			isRequeue := func(in ssa.Instruction) bool {
				s, ok := in.(*ssa.Send)
				return ok && strings.HasSuffix(pathOf(s.Chan), ".sendFailQueue")
			}
			first := errBlock.Instrs[0]
			lost := isRequeue(first)
			var ex ssa.Instruction
			if !lost {
				ex = reachAvoiding(first, isReturn, isRequeue)
			}
			r.Check(ex == nil, fname(fn), "failed write re-queues the message", wr.Pos(), "every path from the write error to the return sends the message to sendFailQueue", "after a failed write the sender can return without re-queueing the message: the request is lost and its caller waits for the full timeout")
			// fail queue first
			var order []string
			eachInstr(fn, func(in ssa.Instruction) {
				if s, ok := in.(*ssa.Select); ok {
					for _, st := range s.States {
						if st.Dir == types.RecvOnly {
							p := pathOf(st.Chan)
							if strings.HasSuffix(p, ".sendFailQueue") {
								order = append(order, "fail")
							}
							if strings.HasSuffix(p, ".sendQueue") {
								order = append(order, "queue")
							}
						}
					}
				}
			})
			okOrder := len(order) >= 2 && order[0] == "fail"
			r.Check(okOrder, fname(fn), "fail queue is drained first", fn.Pos(), "sendFailQueue is polled before sendQueue", "the sender does not poll sendFailQueue before sendQueue: a re-queued request is overtaken or never resent (order %v)", order)
		}})

	register(&Rule{ID: "C11.R3", Props: []string{"C11"}, Min: 1, Needs: NeedMain,
		Doc: "liveness is re-checked while waiting for work: every blocking select of the sender that receives from sendQueue/sendFailQueue also has a case on the connection's done channel",
		Run: func(r *R) {
			fn := senderFunc(r.w)
			if fn == nil {
				r.AnchorMissing("sender loop")
				return
			}
			var done ssa.Value
			for _, p := range fn.Params {
				if ch, ok := p.Type().Underlying().(*types.Chan); ok && basicKind(ch.Elem()) == types.Bool {
					done = p
				}
			}
			eachInstr(fn, func(in ssa.Instruction) {
				s, ok := in.(*ssa.Select)
				if !ok || !s.Blocking {
					return
				}
				takes, hasDone := false, false
				for _, st := range s.States {
					p := pathOf(st.Chan)
					if st.Dir == types.RecvOnly && (strings.HasSuffix(p, ".sendQueue") || strings.HasSuffix(p, ".sendFailQueue")) {
						takes = true
					}
					if done != nil && strip(st.Chan, false) == done {
						hasDone = true
					}
				}
				if !takes {
					return
				}
				r.Check(hasDone, fname(fn), "blocking dequeue also watches connDone", in.Pos(), "the blocking select has a connDone case", "a sender parked in this select does not notice that its connection was reported dead and writes the next request to it (the request is only recovered after the write fails and the 1 s tick of the new sender)")
			})
		}})

	register(&Rule{ID: "C11.R4", Props: []string{"C11"}, Min: 2, Needs: NeedMain,
		Doc: "one receiver and one sender per dial, started under the connection lock right after isClosed=false with the same done channel; and a receiver never exits without marking its connection closed (otherwise Send would not redial)",
		Run: func(r *R) {
			sp := r.w.Pkg("tars/transport")
			var rc *ssa.Function
			for _, fn := range r.w.Funcs(sp) {
				if fn.Signature.Recv() != nil && typeID(fn.Signature.Recv().Type()) == connectionT {
					eachInstr(fn, func(in ssa.Instruction) {
						st, ok := in.(*ssa.Store)
						if ok && isFieldOf(st.Addr, connectionT, "isClosed") {
							if b, ok := constBool(st.Val); ok && !b {
								rc = fn
							}
						}
					})
				}
			}
			if rc == nil {
				r.AnchorMissing("reconnect function (stores isClosed=false)")
				return
			}
			var gos []*ssa.Go
			var reopen ssa.Instruction
			var lock ssa.Instruction
			eachInstr(rc, func(in ssa.Instruction) {
				if g, ok := in.(*ssa.Go); ok {
					gos = append(gos, g)
				}
				if st, ok := in.(*ssa.Store); ok && isFieldOf(st.Addr, connectionT, "isClosed") {
					reopen = in
				}
				if c := callCommon(in); c != nil && funcID(calleeObj(c)) == "sync.(Mutex).Lock" {
					if _, isD := in.(*ssa.Defer); !isD {
						lock = in
					}
				}
			})
			ok := len(gos) == 2 && reopen != nil && lock != nil
			if ok {
				a, b := gos[0].Call.StaticCallee(), gos[1].Call.StaticCallee()
				ok = a != nil && b != nil && a != b && instrDominates(lock, reopen) && instrDominates(reopen, gos[0]) && gos[0].Block() == gos[1].Block()
				if ok && (len(gos[0].Call.Args) < 2 || len(gos[1].Call.Args) < 2) {
					ok = false // goroutines started through closures: connection and done channel are not arguments
				}
				if ok {
					la, lb := gos[0].Call.Args[len(gos[0].Call.Args)-1], gos[1].Call.Args[len(gos[1].Call.Args)-1]
					ok = la == lb && pathOf(gos[0].Call.Args[1]) == pathOf(gos[1].Call.Args[1])
				}
			}
			r.Check(ok, fname(rc), "one receiver + one sender per dial", rc.Pos(), "go recv(conn, done); go send(conn, done) after isClosed=false, under connLock", "a dial does not start exactly one receiver and one sender on the same connection and done channel under the lock (found %d goroutine starts)", len(gos))
			// receiver exit => marked closed
			for _, fn := range recvLoops(r.w) {
				p := connParam(fn)
				if p == nil {
					continue // the server loop takes its connection differently
				}
				var isClose func(in ssa.Instruction) bool
				isClose = func(in ssa.Instruction) bool {
					c := callCommon(in)
					if c == nil {
						return false
					}
					sc := c.StaticCallee()
					return sc != nil && marksClosed(sc, 0)
				}
				isCloseCall := isClose
				isClose = func(in ssa.Instruction) bool {
					if isCloseCall(in) {
						return true
					}
					// the guarded close written in line: `if conn == c.conn { c.isClosed = true }`
					iff, ok := in.(*ssa.If)
					if !ok {
						return false
					}
					cmp, ok := iff.Cond.(*ssa.BinOp)
					if !ok || cmp.Op != token.EQL || !(cmp.X == ssa.Value(p) || cmp.Y == ssa.Value(p)) {
						return false
					}
					for _, x := range in.Block().Succs[0].Instrs {
						if storesClosedTrue(x) {
							return true
						}
					}
					return false
				}
				ex := reachFromEntryAvoiding(fn, func(in ssa.Instruction) bool { return isReturn(in) && in.Block() != fn.Recover }, isClose)
				r.Check(ex == nil, fname(fn), "receiver exit marks the connection closed", fn.Pos(), "every return of the receive loop is preceded by the guarded close", "the receive loop can return (at %s) without marking the connection closed: the client keeps queueing requests for a dead connection and never redials", posOf(r, ex))
			}
		}})
}

// reachFromBlock: reachAvoiding starting at the first instruction of b (inclusive).
func reachFromBlock(b *ssa.BasicBlock, target, stop func(ssa.Instruction) bool) ssa.Instruction {
	if len(b.Instrs) == 0 {
		return nil
	}
	f := b.Instrs[0]
	if stop != nil && stop(f) {
		return nil
	}
	if target(f) {
		return f
	}
	return reachAvoiding(f, target, stop)
}

// selectCaseBlock: the block entered when state k of select s was chosen.
func selectCaseBlock(s *ssa.Select, k int) *ssa.BasicBlock {
	var idx ssa.Value
	for _, ref := range *s.Referrers() {
		if e, ok := ref.(*ssa.Extract); ok && e.Index == 0 {
			idx = e
		}
	}
	if idx == nil {
		return nil
	}
	for _, b := range s.Parent().Blocks {
		for _, f := range edgeFactsInto(b) {
			c, ok := normFact(f)
			if !ok || c.Op != token.EQL {
				continue
			}
			if v, isC := constInt(c.Y); isC && c.X == idx && v == int64(k) {
				return b
			}
			if v, isC := constInt(c.X); isC && c.Y == idx && v == int64(k) {
				return b
			}
		}
	}
	return nil
}

func init() {
	register(&Rule{ID: "C11.R5", Props: []string{"C11"}, Min: 3, Needs: NeedMain,
		Doc: "a dequeued request is never written to a connection already reported dead, and is never dropped: on every path from a dequeue (sendQueue/sendFailQueue) to conn.Write the sender polls connDone without blocking; when that poll fires the request is re-queued on sendFailQueue before the sender writes or returns; and every path from a dequeue to a return passes conn.Write or that re-queue",
		Run: func(r *R) {
			fn := senderFunc(r.w)
			if fn == nil {
				r.AnchorMissing("sender loop")
				return
			}
			var done ssa.Value
			for _, p := range fn.Params {
				if ch, ok := p.Type().Underlying().(*types.Chan); ok && basicKind(ch.Elem()) == types.Bool {
					done = p
				}
			}
			isWrite := func(in ssa.Instruction) bool {
				c, ok := in.(*ssa.Call)
				return ok && c.Call.IsInvoke() && c.Call.Method.Name() == "Write" && isNetConn(c.Call.Value.Type())
			}
			isRequeue := func(in ssa.Instruction) bool {
				s, ok := in.(*ssa.Send)
				return ok && strings.HasSuffix(pathOf(s.Chan), ".sendFailQueue")
			}
			isPoll := func(in ssa.Instruction) bool {
				s, ok := in.(*ssa.Select)
				if !ok || s.Blocking || done == nil {
					return false
				}
				for _, st := range s.States {
					if st.Dir == types.RecvOnly && strip(st.Chan, false) == done {
						return true
					}
				}
				return false
			}
			eachInstr(fn, func(in ssa.Instruction) {
				s, ok := in.(*ssa.Select)
				if !ok {
					return
				}
				for k, st := range s.States {
					p := pathOf(st.Chan)
					if st.Dir != types.RecvOnly || !(strings.HasSuffix(p, ".sendQueue") || strings.HasSuffix(p, ".sendFailQueue")) {
						continue
					}
					q := p[strings.LastIndex(p, ".")+1:]
					cb := selectCaseBlock(s, k)
					if cb == nil {
						r.Undecided(fname(fn), "dequeue from "+q, in.Pos(), "the block entered on this select case was not identified")
						continue
					}
					w := reachFromBlock(cb, isWrite, isPoll)
					r.Check(w == nil, fname(fn), "liveness re-checked between dequeue from "+q+" and write", in.Pos(), "every path from the dequeue to conn.Write polls connDone", "a request taken from %s can reach conn.Write (%s) without a non-blocking poll of connDone: when the connection was reported dead in the same instant (select picks among ready cases at random) the request is written to the dead connection", q, posOf(r, w))
					ex := reachFromBlock(cb, isReturn, func(i ssa.Instruction) bool { return isWrite(i) || isRequeue(i) })
					r.Check(ex == nil, fname(fn), "request dequeued from "+q+" is written or re-queued", in.Pos(), "every path from the dequeue to a return passes conn.Write or a send on sendFailQueue", "the sender can return (%s) after taking a request from %s without writing or re-queueing it: the request is lost and its caller waits for the full timeout", posOf(r, ex), q)
				}
			})
			// the poll's hit edge re-queues before anything else
			eachInstr(fn, func(in ssa.Instruction) {
				s, ok := in.(*ssa.Select)
				if !ok || !isPoll(in) {
					return
				}
				// only polls that sit between a dequeue and the write hold a request
				holds := false
				eachInstr(fn, func(d ssa.Instruction) {
					ds, ok := d.(*ssa.Select)
					if !ok {
						return
					}
					for k, st := range ds.States {
						p := pathOf(st.Chan)
						if st.Dir == types.RecvOnly && (strings.HasSuffix(p, ".sendQueue") || strings.HasSuffix(p, ".sendFailQueue")) {
							if cb := selectCaseBlock(ds, k); cb != nil && reachFromBlock(cb, func(i ssa.Instruction) bool { return i == in }, func(i ssa.Instruction) bool { return isWrite(i) || isReturn(i) }) != nil {
								holds = true
							}
						}
					}
				})
				if !holds {
					return
				}
				for k, st := range s.States {
					if strip(st.Chan, false) != done {
						continue
					}
					cb := selectCaseBlock(s, k)
					if cb == nil {
						r.Undecided(fname(fn), "connDone poll after dequeue", in.Pos(), "hit edge not identified")
						continue
					}
					ex := reachFromBlock(cb, func(i ssa.Instruction) bool { return isWrite(i) || isReturn(i) }, isRequeue)
					r.Check(ex == nil, fname(fn), "dead connection after dequeue: request handed to sendFailQueue", in.Pos(), "the hit edge of the poll re-queues the request before writing or returning", "when the poll finds the connection dead the sender reaches %s without re-queueing the request it holds", posOf(r, ex))
				}
			})
		}})
}

func posOf(r *R, in ssa.Instruction) string {
	if in == nil {
		return ""
	}
	return r.posStr(in.Pos())
}

// edgeFactsInto: facts established by the unique If edge leading into block b.
func edgeFactsInto(b *ssa.BasicBlock) []EdgeFact {
	if len(b.Preds) != 1 {
		return nil
	}
	return edgeFactOf(b.Preds[0], b)
}

// senderFunc: the function in transport that receives from TarsClient.sendQueue.
func senderFunc(w *World) *ssa.Function {
	sp := w.Pkg("tars/transport")
	if sp == nil {
		return nil
	}
	var out *ssa.Function
	for _, fn := range w.Funcs(sp) {
		eachInstr(fn, func(in ssa.Instruction) {
			if s, ok := in.(*ssa.Select); ok {
				for _, st := range s.States {
					if st.Dir == types.RecvOnly && strings.HasSuffix(pathOf(st.Chan), ".sendQueue") {
						out = fn
					}
				}
			}
		})
	}
	return out
}
