package main

// Name normalisation (stage 1 of the source overlay, before helper normalisation).
//
// Rules name the constructs they decide by the identifiers of the pinned tree.  A change that renames an
// unexported function, field, variable, constant or type, turns an unexported method into a plain
// function taking the former receiver as a parameter, or reorders the parameters of an unexported
// function keeps the behaviour but would leave those rules without their anchor.  Before analysis the
// current tree is therefore compared with a record of the pinned tree (baseline_names.json):
//
//   - a function that disappeared and a new function in the same directory are the same function when
//     their bodies are identical up to a consistent renaming of unexported identifiers (an α-normalised
//     print of the body: unexported identifiers are numbered by first occurrence; exported names,
//     predeclared names, literals and structure are kept) and their parameters (receiver included)
//     correspond one to one;
//   - a struct field / package-level variable, constant or type that disappeared and a new one with the
//     same type (and initialiser) in the same place are the same declaration.
//
// The source is then rewritten (go/packages overlay, identifier objects resolved by the type checker)
// so that the analysed program carries the pinned names again: declarations and all uses are renamed,
// a plain function goes back to a method (`f(r, a)` -> `r.f(a)`), parameters go back to their pinned
// order at the declaration and at every call.  Nothing else is touched; if anything is ambiguous, a use
// is not a plain call, an argument that would move has side effects, or the rewritten source does not
// type-check, the source is analysed as written (and the rule then reports its missing anchor).  The
// identification only decides under which name a construct is analysed: every rule still decides its
// obligation on the code that is really there.

import (
	"bytes"
	"crypto/sha1"
	_ "embed"
	"encoding/json"
	"fmt"
	"go/ast"
	"go/parser"
	"go/printer"
	"go/token"
	"go/types"
	"os"
	"path/filepath"
	"sort"
	"strings"

	"golang.org/x/tools/go/packages"
)

//go:embed baseline_names.json
var baselineNamesJSON []byte

type nParam struct {
	Num  int    `json:"n"` // number of the parameter's name in the α-normalised body, -1 when unused/unnamed
	Typ  string `json:"t"`
	Name string `json:"m,omitempty"`
}

type nFunc struct {
	Key      string   `json:"k"` // dir|receiver type|name
	Hash     string   `json:"h"` // results + α-normalised body
	RecvText string   `json:"r,omitempty"`
	Recv     *nParam  `json:"rv,omitempty"`
	Params   []nParam `json:"p,omitempty"`
	Variadic bool     `json:"v,omitempty"`
	Generic  bool     `json:"g,omitempty"`
	Dup      bool     `json:"d,omitempty"`
	Ord      int      `json:"o,omitempty"` // declaration order within the scan (files in path order)
}

type nField struct {
	Name string `json:"m"`
	Typ  string `json:"t"`
}

type nStruct struct {
	Key    string   `json:"k"` // dir|Type
	Fields []nField `json:"f"`
}

type nDecl struct {
	Key  string `json:"k"` // dir|name
	Kind string `json:"c"` // var, const, type
	Typ  string `json:"t,omitempty"`
	Val  string `json:"v,omitempty"`
	Ord  int    `json:"o,omitempty"`
}

type nameDB struct {
	Funcs   []nFunc   `json:"funcs"`
	Structs []nStruct `json:"structs"`
	Decls   []nDecl   `json:"decls"`
}

var predeclared = func() map[string]bool {
	m := map[string]bool{}
	for _, n := range types.Universe.Names() {
		m[n] = true
	}
	for _, k := range []string{"func", "map", "chan", "struct", "interface", "_"} {
		m[k] = true
	}
	return m
}()

func keepIdent(n string) bool { return predeclared[n] || token.IsExported(n) }

// normType: the text of a type expression with unexported identifiers blanked.
func normType(e ast.Expr) string {
	if e == nil {
		return ""
	}
	s := types.ExprString(e)
	var sb strings.Builder
	for i := 0; i < len(s); {
		c := s[i]
		if c == '_' || c >= 'a' && c <= 'z' || c >= 'A' && c <= 'Z' || c >= 0x80 {
			j := i
			for j < len(s) && (s[j] == '_' || s[j] >= 'a' && s[j] <= 'z' || s[j] >= 'A' && s[j] <= 'Z' || s[j] >= '0' && s[j] <= '9' || s[j] >= 0x80) {
				j++
			}
			if w := s[i:j]; keepIdent(w) {
				sb.WriteString(w)
			} else {
				sb.WriteString("_")
			}
			i = j
			continue
		}
		if c != ' ' {
			sb.WriteByte(c)
		}
		i++
	}
	return sb.String()
}

func squeeze(s string) string {
	var sb strings.Builder
	for i := 0; i < len(s); i++ {
		c := s[i]
		if c == ' ' || c == '\t' || c == '\n' || c == '\r' || c == ';' {
			continue
		}
		sb.WriteByte(c)
	}
	out := sb.String()
	for _, p := range [][2]string{{",}", "}"}, {",)", ")"}, {",]", "]"}} {
		out = strings.ReplaceAll(out, p[0], p[1])
	}
	return out
}

// sigOf computes the record of one function declaration.  It renames identifiers of fd in place: the
// file must have been parsed for this purpose only.
func sigOf(fset *token.FileSet, relDir string, fd *ast.FuncDecl) nFunc {
	out := nFunc{Key: funcKey(relDir, fd)}
	if fd.Type.TypeParams != nil && len(fd.Type.TypeParams.List) > 0 {
		out.Generic = true
	}
	type pn struct {
		name string
		typ  string
	}
	var recv *pn
	var params []pn
	if fd.Recv != nil && len(fd.Recv.List) > 0 {
		f := fd.Recv.List[0]
		out.RecvText = types.ExprString(f.Type)
		n := ""
		if len(f.Names) > 0 {
			n = f.Names[0].Name
		}
		recv = &pn{n, normType(f.Type)}
	}
	if fd.Type.Params != nil {
		for _, f := range fd.Type.Params.List {
			if _, ok := f.Type.(*ast.Ellipsis); ok {
				out.Variadic = true
			}
			if len(f.Names) == 0 {
				params = append(params, pn{"", normType(f.Type)})
			}
			for _, n := range f.Names {
				params = append(params, pn{n.Name, normType(f.Type)})
			}
		}
	}
	var results []string
	if fd.Type.Results != nil {
		for _, f := range fd.Type.Results.List {
			k := len(f.Names)
			if k == 0 {
				k = 1
			}
			for i := 0; i < k; i++ {
				results = append(results, normType(f.Type))
			}
		}
	}
	num := map[string]int{}
	// named results are part of the body's name space: number them first, in order
	if fd.Type.Results != nil {
		for _, f := range fd.Type.Results.List {
			for _, n := range f.Names {
				if !keepIdent(n.Name) {
					if _, ok := num[n.Name]; !ok {
						num[n.Name] = len(num)
					}
				}
			}
		}
	}
	body := ""
	if fd.Body != nil {
		// x.f(a) and f(x, a) are one form (a method turned into a function, or back)
		methodCall := map[*ast.Ident]bool{}
		ast.Inspect(fd.Body, func(n ast.Node) bool {
			if call, ok := n.(*ast.CallExpr); ok {
				if sel, ok := call.Fun.(*ast.SelectorExpr); ok && !token.IsExported(sel.Sel.Name) {
					methodCall[sel.Sel] = true
					call.Fun = sel.Sel
					call.Args = append([]ast.Expr{sel.X}, call.Args...)
				}
			}
			return true
		})
		// names declared inside the function (a called one of these is a closure variable, not a function)
		local := map[string]bool{}
		for _, p := range params {
			local[p.name] = true
		}
		if recv != nil {
			local[recv.name] = true
		}
		ast.Inspect(fd.Body, func(n ast.Node) bool {
			switch x := n.(type) {
			case *ast.AssignStmt:
				if x.Tok == token.DEFINE {
					for _, l := range x.Lhs {
						if id, ok := l.(*ast.Ident); ok {
							local[id.Name] = true
						}
					}
				}
			case *ast.ValueSpec:
				for _, id := range x.Names {
					local[id.Name] = true
				}
			case *ast.RangeStmt:
				if x.Tok == token.DEFINE {
					for _, l := range []ast.Expr{x.Key, x.Value} {
						if id, ok := l.(*ast.Ident); ok {
							local[id.Name] = true
						}
					}
				}
			case *ast.FuncLit:
				if x.Type.Params != nil {
					for _, f := range x.Type.Params.List {
						for _, id := range f.Names {
							local[id.Name] = true
						}
					}
				}
			}
			return true
		})
		// three name spaces, so that a local and a field (or a function) that happen to share a name in
		// one of the trees do not tie the numbering together: plain identifiers, selected names and
		// struct-literal keys, called names
		selNS, callNS := map[*ast.Ident]bool{}, map[*ast.Ident]bool{}
		ast.Inspect(fd.Body, func(n ast.Node) bool {
			switch x := n.(type) {
			case *ast.SelectorExpr:
				selNS[x.Sel] = true
			case *ast.CallExpr:
				if id, ok := x.Fun.(*ast.Ident); ok {
					callNS[id] = true
				}
			case *ast.CompositeLit:
				for _, e := range x.Elts {
					if kv, ok := e.(*ast.KeyValueExpr); ok {
						if id, ok := kv.Key.(*ast.Ident); ok {
							selNS[id] = true
						}
					}
				}
			}
			return true
		})
		numSel, numCall := map[string]int{}, map[string]int{}
		ast.Inspect(fd.Body, func(n ast.Node) bool {
			id, ok := n.(*ast.Ident)
			if !ok {
				return true
			}
			// a selected or method-called name is never a builtin, whatever it is called (c.close, x.len)
			if token.IsExported(id.Name) || id.Name == "_" || (keepIdent(id.Name) && !methodCall[id] && !selNS[id]) {
				return true
			}
			tab, pre := num, "ν"
			switch {
			case methodCall[id]:
				tab, pre = numCall, "φ"
			case callNS[id]:
				// a called local (a closure variable, a parameter of function type) stays a plain name
				if !local[id.Name] {
					tab, pre = numCall, "φ"
				}
			case selNS[id]:
				tab, pre = numSel, "σ"
			}
			k, seen := tab[id.Name]
			if !seen {
				k = len(tab)
				tab[id.Name] = k
			}
			id.Name = fmt.Sprintf("%s%d", pre, k)
			return true
		})
		var buf bytes.Buffer
		_ = printer.Fprint(&buf, fset, fd.Body)
		body = squeeze(buf.String())
	}
	numOf := func(name string) int {
		if name == "" || name == "_" {
			return -1
		}
		if k, ok := num[name]; ok {
			return k
		}
		return -1
	}
	if recv != nil {
		out.Recv = &nParam{Num: numOf(recv.name), Typ: recv.typ, Name: recv.name}
	}
	for _, p := range params {
		out.Params = append(out.Params, nParam{Num: numOf(p.name), Typ: p.typ, Name: p.name})
	}
	h := sha1.Sum([]byte(strings.Join(results, ",") + "|" + body))
	out.Hash = fmt.Sprintf("%x", h[:10])
	return out
}

// scanNames records every declaration below root/sub (files replaced by overlay where present).
func scanNames(root, sub string, overlay map[string][]byte) (*nameDB, error) {
	db := &nameDB{}
	seen := map[string]int{}
	ord := 0
	err := filepath.Walk(filepath.Join(root, sub), func(p string, fi os.FileInfo, err error) error {
		if err != nil {
			return err
		}
		if fi.IsDir() {
			if n := fi.Name(); n == "testdata" || n == "vendor" || (strings.HasPrefix(n, ".") && n != ".") {
				return filepath.SkipDir
			}
			return nil
		}
		if !strings.HasSuffix(p, ".go") || strings.HasSuffix(p, "_test.go") {
			return nil
		}
		fset := token.NewFileSet()
		var src any
		if b, ok := overlay[p]; ok {
			src = b
		}
		f, perr := parser.ParseFile(fset, p, src, parser.SkipObjectResolution)
		if perr != nil {
			return nil
		}
		rel, _ := filepath.Rel(root, filepath.Dir(p))
		dir := filepath.ToSlash(rel)
		for _, d := range f.Decls {
			switch x := d.(type) {
			case *ast.FuncDecl:
				s := sigOf(fset, dir, x)
				if i, dup := seen[s.Key]; dup {
					db.Funcs[i].Dup = true
					continue
				}
				seen[s.Key] = len(db.Funcs)
				ord++
				s.Ord = ord
				db.Funcs = append(db.Funcs, s)
			case *ast.GenDecl:
				for si, sp := range x.Specs {
					switch y := sp.(type) {
					case *ast.TypeSpec:
						ord++
						db.Decls = append(db.Decls, nDecl{Key: dir + "|" + y.Name.Name, Kind: "type", Typ: squeeze(normType(y.Type)), Ord: ord})
						if st, ok := y.Type.(*ast.StructType); ok {
							ns := nStruct{Key: dir + "|" + y.Name.Name}
							for _, fl := range st.Fields.List {
								for _, n := range fl.Names {
									ns.Fields = append(ns.Fields, nField{n.Name, normType(fl.Type)})
								}
								if len(fl.Names) == 0 {
									ns.Fields = append(ns.Fields, nField{"", normType(fl.Type)})
								}
							}
							db.Structs = append(db.Structs, ns)
						}
						if it, ok := y.Type.(*ast.InterfaceType); ok && it.Methods != nil {
							// the methods of an interface are recorded like fields
							ns := nStruct{Key: dir + "|" + y.Name.Name}
							for _, fl := range it.Methods.List {
								for _, n := range fl.Names {
									ns.Fields = append(ns.Fields, nField{n.Name, normType(fl.Type)})
								}
							}
							if len(ns.Fields) > 0 {
								db.Structs = append(db.Structs, ns)
							}
						}
					case *ast.ValueSpec:
						kind := "var"
						if x.Tok == token.CONST {
							kind = "const"
						}
						for i, n := range y.Names {
							val := ""
							if i < len(y.Values) {
								val = squeeze(normType(y.Values[i]))
							} else if kind == "const" {
								val = fmt.Sprintf("#%d", si) // implicit repetition: position in the group
							}
							ord++
							db.Decls = append(db.Decls, nDecl{Key: dir + "|" + n.Name, Kind: kind, Typ: normType(y.Type), Val: val, Ord: ord})
						}
					}
				}
			}
		}
		return nil
	})
	sort.Slice(db.Funcs, func(i, j int) bool { return db.Funcs[i].Key < db.Funcs[j].Key })
	sort.Slice(db.Structs, func(i, j int) bool { return db.Structs[i].Key < db.Structs[j].Key })
	sort.SliceStable(db.Decls, func(i, j int) bool { return db.Decls[i].Key < db.Decls[j].Key })
	return db, err
}

// ---- plan ----

type funcXform struct {
	curKey   string
	baseKey  string
	baseName string
	// recvFrom: index of the current parameter that is the pinned receiver; -1 none; -2 the receiver was
	// dropped (it was unused) and is synthesised; -3 the current function is a method as in the pinned tree
	recvFrom int
	recvText string // pinned receiver type, for a dropped receiver
	perm     []int  // pinned parameter i is current parameter perm[i]
	identity bool   // only the name differs
}

type renamePlan struct {
	funcs  map[string]*funcXform        // by current key
	fields map[string]map[string]string // dir|Type (current type name) -> current field -> pinned field
	decls  map[string]string            // dir|current name -> pinned name
	// types of the tree that are not in the pinned tree (dir|name): a local declared with such an
	// interface type and initialised once from a concrete value is analysed with the concrete type
	newTypes map[string]bool
	notes    []string
}

func dirOfKey(k string) string { return k[:strings.Index(k, "|")] }

func splitFuncKey(k string) (dir, recv, name string) {
	p := strings.SplitN(k, "|", 3)
	return p[0], p[1], p[2]
}

// matchParams maps the pinned function's receiver and parameters onto the current one's.
func matchParams(b, c nFunc) (x *funcXform) { return matchParamsBy(b, c, false) }

// byName: the bodies differ, parameters correspond by name (and type) instead of by their place in the body.
func matchParamsBy(b, c nFunc, byName bool) (x *funcXform) {
	type slot struct {
		p    nParam
		used bool
	}
	var cs []slot
	if c.Recv != nil {
		cs = append(cs, slot{p: *c.Recv})
	}
	for _, p := range c.Params {
		cs = append(cs, slot{p: p})
	}
	cOff := 0
	if c.Recv != nil {
		cOff = 1
	}
	find := func(p nParam, recvOnly, paramsOnly bool) int {
		for pass := 0; pass < 2; pass++ {
			for i := range cs {
				if cs[i].used || cs[i].p.Typ != p.Typ {
					continue
				}
				if recvOnly && !(c.Recv != nil && i == 0) {
					continue
				}
				if paramsOnly && c.Recv != nil && i == 0 {
					continue
				}
				if byName {
					if cs[i].p.Name == p.Name || pass == 1 {
						return i
					}
					continue
				}
				if p.Num >= 0 {
					if cs[i].p.Num == p.Num {
						return i
					}
				} else if cs[i].p.Num < 0 {
					return i
				}
			}
			if p.Num >= 0 && !byName {
				break
			}
		}
		return -1
	}
	x = &funcXform{recvFrom: -1}
	if b.Recv != nil {
		switch {
		case c.Recv != nil:
			i := find(*b.Recv, true, false)
			if i != 0 {
				return nil
			}
			cs[0].used = true
			x.recvFrom = -3
		default:
			i := find(*b.Recv, false, false)
			if i >= 0 {
				cs[i].used = true
				x.recvFrom = i
			} else if b.Recv.Num < 0 && !byName {
				x.recvFrom = -2
				x.recvText = b.RecvText
			} else {
				return nil
			}
		}
	} else if c.Recv != nil {
		return nil // plain function turned into a method: not normalised
	}
	for _, p := range b.Params {
		i := find(p, false, true)
		if i < 0 {
			return nil
		}
		cs[i].used = true
		x.perm = append(x.perm, i-cOff)
	}
	for _, s := range cs {
		if !s.used {
			return nil
		}
	}
	x.identity = x.recvFrom == -1 || x.recvFrom == -3
	for i, j := range x.perm {
		if i != j {
			x.identity = false
		}
	}
	return x
}

func planRenames(base, cur *nameDB) *renamePlan {
	pl := &renamePlan{funcs: map[string]*funcXform{}, fields: map[string]map[string]string{}, decls: map[string]string{}}
	// package-level declarations
	bd, cd := map[string]nDecl{}, map[string]nDecl{}
	dupB, dupC := map[string]bool{}, map[string]bool{}
	for _, d := range base.Decls {
		if _, ok := bd[d.Key]; ok {
			dupB[d.Key] = true
		}
		bd[d.Key] = d
	}
	for _, d := range cur.Decls {
		if _, ok := cd[d.Key]; ok {
			dupC[d.Key] = true
		}
		cd[d.Key] = d
	}
	sig := func(d nDecl) string { return dirOfKey(d.Key) + "|" + d.Kind + "|" + d.Typ + "|" + d.Val }
	missing, fresh := map[string][]nDecl{}, map[string][]nDecl{}
	for k, d := range bd {
		if _, ok := cd[k]; !ok && !dupB[k] {
			missing[sig(d)] = append(missing[sig(d)], d)
		}
	}
	for k, d := range cd {
		if _, ok := bd[k]; !ok && !dupC[k] {
			fresh[sig(d)] = append(fresh[sig(d)], d)
		}
	}
	typeRen := map[string]string{} // dir|current type -> pinned type name
	for s, ms := range missing {
		fs := fresh[s]
		// several declarations of one shape (`var a, b sync.Once`): paired in declaration order when
		// none of them is exported and as many appeared as disappeared
		if len(ms) != len(fs) || len(ms) == 0 {
			continue
		}
		sort.Slice(ms, func(i, j int) bool { return ms[i].Ord < ms[j].Ord })
		sort.Slice(fs, func(i, j int) bool { return fs[i].Ord < fs[j].Ord })
		okAll := true
		for i := range ms {
			_, bn, _ := strings.Cut(ms[i].Key, "|")
			_, cn, _ := strings.Cut(fs[i].Key, "|")
			if token.IsExported(bn) || token.IsExported(cn) {
				okAll = false
			}
		}
		if !okAll {
			continue
		}
		for i := range ms {
			_, bn, _ := strings.Cut(ms[i].Key, "|")
			pl.decls[fs[i].Key] = bn
			if ms[i].Kind == "type" {
				typeRen[fs[i].Key] = bn
			}
			pl.notes = append(pl.notes, fmt.Sprintf("%s %s is analysed under its pinned name %s", ms[i].Kind, strings.Replace(fs[i].Key, "|", ".", 1), bn))
		}
	}
	pinnedType := func(dir, t string) string {
		if n, ok := typeRen[dir+"|"+t]; ok {
			return n
		}
		return t
	}
	// struct fields
	bs := map[string]nStruct{}
	for _, s := range base.Structs {
		bs[s.Key] = s
	}
	for _, c := range cur.Structs {
		dir, tn, _ := strings.Cut(c.Key, "|")
		b, ok := bs[dir+"|"+pinnedType(dir, tn)]
		if !ok {
			continue
		}
		bNames, cNames := map[string]bool{}, map[string]bool{}
		for _, f := range b.Fields {
			bNames[f.Name] = true
		}
		for _, f := range c.Fields {
			cNames[f.Name] = true
		}
		var miss, fr []nField
		missIdx, frIdx := map[string]int{}, map[string]int{}
		for i, f := range b.Fields {
			if f.Name != "" && !cNames[f.Name] {
				miss = append(miss, f)
				missIdx[f.Name] = i
			}
		}
		for i, f := range c.Fields {
			if f.Name != "" && !bNames[f.Name] {
				fr = append(fr, f)
				frIdx[f.Name] = i
			}
		}
		for _, m := range miss {
			if token.IsExported(m.Name) {
				continue
			}
			var cands []nField
			for _, f := range fr {
				if f.Typ == m.Typ && !token.IsExported(f.Name) {
					cands = append(cands, f)
				}
			}
			if len(cands) > 1 {
				// several new fields of that type: the one at the same position
				var at []nField
				for _, f := range cands {
					if frIdx[f.Name]-missIdx[m.Name] == len(c.Fields)-len(b.Fields) || frIdx[f.Name] == missIdx[m.Name] {
						at = append(at, f)
					}
				}
				cands = at
			}
			nSame := 0
			for _, m2 := range miss {
				if m2.Typ == m.Typ {
					nSame++
				}
			}
			if len(cands) != 1 || (nSame > 1 && frIdx[cands[0].Name] != missIdx[m.Name]) {
				continue
			}
			if pl.fields[c.Key] == nil {
				pl.fields[c.Key] = map[string]string{}
			}
			pl.fields[c.Key][cands[0].Name] = m.Name
			pl.notes = append(pl.notes, fmt.Sprintf("field %s.%s is analysed under its pinned name %s", strings.Replace(c.Key, "|", ".", 1), cands[0].Name, m.Name))
		}
	}
	// functions
	bf, cf := map[string]nFunc{}, map[string]nFunc{}
	for _, f := range base.Funcs {
		bf[f.Key] = f
	}
	pinnedKey := func(k string) string {
		dir, recv, name := splitFuncKey(k)
		return dir + "|" + pinnedType(dir, recv) + "|" + name
	}
	for _, f := range cur.Funcs {
		cf[pinnedKey(f.Key)] = f
	}
	type cand struct {
		pk string // key with the receiver type under its pinned name
		f  nFunc
	}
	var missF, freshF []cand
	for k, f := range bf {
		if _, ok := cf[k]; !ok && !f.Dup && !f.Generic {
			missF = append(missF, cand{k, f})
		}
	}
	for k, f := range cf {
		if b, ok := bf[k]; !ok {
			if !f.Dup && !f.Generic {
				freshF = append(freshF, cand{k, f})
			}
		} else if b.Hash == f.Hash && !f.Dup && !b.Dup && !f.Generic {
			// same name, same body: parameters in another order?
			if x := matchParams(b, f); x != nil && !x.identity {
				_, _, name := splitFuncKey(b.Key)
				if !token.IsExported(name) {
					x.curKey, x.baseKey, x.baseName = f.Key, b.Key, name
					pl.funcs[f.Key] = x
					pl.notes = append(pl.notes, fmt.Sprintf("function %s is analysed with the parameter order of the pinned tree", strings.ReplaceAll(f.Key, "|", " ")))
				}
			}
		}
	}
	sort.Slice(missF, func(i, j int) bool { return missF[i].pk < missF[j].pk })
	sort.Slice(freshF, func(i, j int) bool { return freshF[i].pk < freshF[j].pk })
	doneM, doneF := map[string]bool{}, map[string]bool{}
	// first among the methods of the same type (and among plain functions), then across
	for pass := 0; pass < 2; pass++ {
		group := func(c cand) string {
			dir, recv, _ := splitFuncKey(c.pk)
			if pass == 0 {
				return dir + "|" + recv + "|" + c.f.Hash
			}
			return dir + "|" + c.f.Hash
		}
		byM, byF := map[string][]cand{}, map[string][]cand{}
		for _, m := range missF {
			if !doneM[m.pk] {
				byM[group(m)] = append(byM[group(m)], m)
			}
		}
		for _, f := range freshF {
			if !doneF[f.pk] {
				byF[group(f)] = append(byF[group(f)], f)
			}
		}
		var hs []string
		for h := range byM {
			hs = append(hs, h)
		}
		sort.Strings(hs)
		for _, h := range hs {
			ms, fs := byM[h], byF[h]
			// functions with one and the same body: paired in declaration order when as many appeared as disappeared
			if len(ms) != len(fs) || len(ms) == 0 {
				continue
			}
			sort.Slice(ms, func(i, j int) bool { return ms[i].f.Ord < ms[j].f.Ord })
			sort.Slice(fs, func(i, j int) bool { return fs[i].f.Ord < fs[j].f.Ord })
			var xs []*funcXform
			for i := range ms {
				b, c := ms[i].f, fs[i].f
				_, _, bn := splitFuncKey(b.Key)
				_, _, cn := splitFuncKey(c.Key)
				if token.IsExported(bn) || token.IsExported(cn) || bn == "init" || bn == "main" || cn == "init" || cn == "main" {
					xs = nil
					break
				}
				x := matchParams(b, c)
				if x == nil {
					xs = nil
					break
				}
				x.curKey, x.baseKey, x.baseName = c.Key, b.Key, bn
				xs = append(xs, x)
			}
			if len(xs) != len(ms) {
				continue
			}
			for i, x := range xs {
				doneM[ms[i].pk], doneF[fs[i].pk] = true, true
				pl.funcs[x.curKey] = x
				pl.notes = append(pl.notes, fmt.Sprintf("function %s is analysed as %s of the pinned tree (same body up to renaming)", strings.ReplaceAll(x.curKey, "|", " "), strings.ReplaceAll(x.baseKey, "|", " ")))
			}
		}
	}
	// a method that became a plain function of the same name (or back is not handled) with an edited body
	for k, b := range bf {
		if _, ok := cf[k]; ok || b.Dup || b.Generic || b.Recv == nil {
			continue
		}
		dir, _, name := splitFuncKey(k)
		ck := dir + "||" + name
		c, ok := cf[ck]
		if !ok || c.Dup || c.Generic || token.IsExported(name) {
			continue
		}
		if _, inBase := bf[ck]; inBase || pl.funcs[c.Key] != nil {
			continue
		}
		taken := false
		for _, x := range pl.funcs {
			if x.baseKey == k {
				taken = true
			}
		}
		if taken {
			continue
		}
		x := matchParamsBy(b, c, true)
		if x == nil || x.recvFrom < 0 {
			continue
		}
		x.curKey, x.baseKey, x.baseName = c.Key, b.Key, name
		pl.funcs[c.Key] = x
		pl.notes = append(pl.notes, fmt.Sprintf("function %s is analysed as the method %s of the pinned tree (same name, the receiver is now a parameter)", strings.ReplaceAll(c.Key, "|", " "), strings.ReplaceAll(b.Key, "|", " ")))
	}
	pl.newTypes = map[string]bool{}
	for k, d := range cd {
		if _, ok := bd[k]; !ok && d.Kind == "type" && strings.HasPrefix(d.Typ, "interface") {
			if _, renamed := pl.decls[k]; !renamed {
				pl.newTypes[k] = true
			}
		}
	}
	sort.Strings(pl.notes)
	return pl
}

func (pl *renamePlan) empty() bool {
	return pl == nil || len(pl.funcs) == 0 && len(pl.fields) == 0 && len(pl.decls) == 0 && len(pl.newTypes) == 0
}

// computeRenamePlan compares the tree with the pinned record; nil when there is nothing to do.
func computeRenamePlan(repo string) *renamePlan {
	if os.Getenv("TARSVERIF_NO_NAMES") != "" { // developer switch: measure the rules without this stage
		return nil
	}
	if len(baselineNamesJSON) < 10 {
		return nil
	}
	var base nameDB
	if err := json.Unmarshal(baselineNamesJSON, &base); err != nil {
		return nil
	}
	cur, err := scanNames(repo, "tars", nil)
	if err != nil {
		return nil
	}
	pl := planRenames(&base, cur)
	if pl.empty() {
		return nil
	}
	return pl
}

// ---- application ----

type nameNorm struct {
	pl    *renamePlan
	fset  *token.FileSet
	ren   map[types.Object]string     // object -> pinned name
	xf    map[types.Object]*funcXform // function object -> transformation (non-identity only)
	decl  map[types.Object]*ast.FuncDecl
	info  map[*ast.File]*types.Info
	files map[*ast.File]*ilFile
	bad   map[types.Object]string
}

func pureExpr(e ast.Expr) bool {
	ok := true
	ast.Inspect(e, func(n ast.Node) bool {
		switch x := n.(type) {
		case *ast.CallExpr, *ast.FuncLit:
			ok = false
		case *ast.UnaryExpr:
			if x.Op == token.ARROW {
				ok = false
			}
		}
		return ok
	})
	return ok
}

func calleeObjAST(info *types.Info, call *ast.CallExpr) (types.Object, *ast.Ident) {
	switch f := ast.Unparen(call.Fun).(type) {
	case *ast.Ident:
		return info.Uses[f], f
	case *ast.SelectorExpr:
		return info.Uses[f.Sel], f.Sel
	}
	return nil, nil
}

// subsIn: the substitutions for everything inside n (n itself included unless skipTop).
func (nn *nameNorm) subsIn(f *ilFile, n ast.Node, skipTop bool) []sub {
	info := nn.info[f.file]
	var out []sub
	ast.Inspect(n, func(m ast.Node) bool {
		switch x := m.(type) {
		case *ast.CallExpr:
			if skipTop && m == n {
				return true
			}
			if obj, _ := calleeObjAST(info, x); obj != nil && nn.xf[obj] != nil && nn.bad[obj] == "" {
				out = append(out, sub{f.off(x.Pos()), f.off(x.End()), nn.renderCall(f, x, nn.xf[obj])})
				return false
			}
		case *ast.Ident:
			obj := info.Uses[x]
			if obj == nil {
				obj = info.Defs[x]
			}
			if obj != nil {
				if name, ok := nn.ren[obj]; ok && nn.bad[obj] == "" && x.Name != name {
					out = append(out, sub{f.off(x.Pos()), f.off(x.End()), name})
				}
			}
		}
		return true
	})
	return out
}

func (nn *nameNorm) render(f *ilFile, n ast.Node) string {
	return applySubs(f.src, f.off(n.Pos()), f.off(n.End()), nn.subsIn(f, n, false))
}

func padLines(orig, repl string) string {
	d := strings.Count(orig, "\n") - strings.Count(repl, "\n")
	if d <= 0 || !strings.HasSuffix(repl, ")") {
		return repl
	}
	body := repl[:len(repl)-1]
	if strings.HasSuffix(strings.TrimSpace(body), "(") {
		return body + strings.Repeat("\n", d) + ")"
	}
	return body + "," + strings.Repeat("\n", d) + ")"
}

func (nn *nameNorm) renderCall(f *ilFile, call *ast.CallExpr, x *funcXform) string {
	args := make([]string, len(call.Args))
	for i, a := range call.Args {
		args[i] = nn.render(f, a)
	}
	var sb strings.Builder
	switch x.recvFrom {
	case -3, -1:
		// keep the function expression, only renamed
		sb.WriteString(nn.render(f, call.Fun))
	case -2:
		if strings.HasPrefix(x.recvText, "*") {
			sb.WriteString("(" + x.recvText + ")(nil)." + x.baseName)
		} else {
			sb.WriteString("(*new(" + x.recvText + "))." + x.baseName)
		}
	default:
		r := args[x.recvFrom]
		switch ast.Unparen(call.Args[x.recvFrom]).(type) {
		case *ast.Ident, *ast.SelectorExpr:
		default:
			r = "(" + r + ")"
		}
		sb.WriteString(r + "." + x.baseName)
	}
	sb.WriteString("(")
	for i, j := range x.perm {
		if i > 0 {
			sb.WriteString(", ")
		}
		sb.WriteString(args[j])
		if call.Ellipsis.IsValid() && j == len(args)-1 {
			sb.WriteString("...")
		}
	}
	sb.WriteString(")")
	return padLines(string(f.src[f.off(call.Pos()):f.off(call.End())]), sb.String())
}

// renderDecl: the rewritten "func … name(params)" head of a transformed function.
func (nn *nameNorm) renderDecl(f *ilFile, fd *ast.FuncDecl, x *funcXform) (a, b int, text string, ok bool) {
	type par struct{ name, typ string }
	var ps []par
	for _, fl := range fd.Type.Params.List {
		t := nn.render(f, fl.Type)
		if len(fl.Names) == 0 {
			ps = append(ps, par{"", t})
		}
		for _, n := range fl.Names {
			ps = append(ps, par{n.Name, t})
		}
	}
	str := func(p par) string {
		if p.name == "" {
			return p.typ
		}
		return p.name + " " + p.typ
	}
	var sb strings.Builder
	sb.WriteString("func ")
	switch x.recvFrom {
	case -3:
		sb.WriteString(applySubs(f.src, f.off(fd.Recv.Pos()), f.off(fd.Recv.End()), nn.subsIn(f, fd.Recv, false)) + " ")
	case -2:
		sb.WriteString("(" + x.recvText + ") ")
	case -1:
	default:
		if x.recvFrom >= len(ps) {
			return 0, 0, "", false
		}
		sb.WriteString("(" + str(ps[x.recvFrom]) + ") ")
	}
	sb.WriteString(x.baseName + "(")
	anyNamed := false
	for _, p := range ps {
		if p.name != "" {
			anyNamed = true
		}
	}
	for i, j := range x.perm {
		if j >= len(ps) {
			return 0, 0, "", false
		}
		if i > 0 {
			sb.WriteString(", ")
		}
		p := ps[j]
		if anyNamed && p.name == "" {
			p.name = "_"
		}
		sb.WriteString(str(p))
	}
	sb.WriteString(")")
	a, b = f.off(fd.Pos()), f.off(fd.Type.Params.End())
	return a, b, padLines(string(f.src[a:b]), sb.String()), true
}

// buildNameOverlay applies the plan to the packages matched by patterns in module dir.
func buildNameOverlay(dir, root string, pl *renamePlan, patterns ...string) (ov map[string][]byte, notes []string) {
	if pl.empty() {
		return nil, nil
	}
	defer func() {
		if p := recover(); p != nil {
			ov, notes = nil, []string{fmt.Sprintf("name normalisation abandoned (internal error: %v); analysing the source as written", p)}
		}
	}()
	fset := token.NewFileSet()
	cfg := &packages.Config{
		Mode: packages.NeedName | packages.NeedFiles | packages.NeedCompiledGoFiles | packages.NeedSyntax | packages.NeedTypes | packages.NeedTypesInfo | packages.NeedImports | packages.NeedDeps,
		Dir:  dir, Fset: fset,
		Env: append(os.Environ(), "GOFLAGS=-mod=mod", "GOPROXY=off", "GOSUMDB=off", "GOTOOLCHAIN=local", "GOWORK=off",
			"GOOS=linux", "GOARCH=amd64", "CGO_ENABLED=0"),
	}
	pkgs, err := packages.Load(cfg, patterns...)
	if err != nil {
		return nil, []string{"name normalisation skipped: " + err.Error()}
	}
	nn := &nameNorm{pl: pl, fset: fset, ren: map[types.Object]string{}, xf: map[types.Object]*funcXform{}, decl: map[types.Object]*ast.FuncDecl{},
		info: map[*ast.File]*types.Info{}, files: map[*ast.File]*ilFile{}, bad: map[types.Object]string{}}
	var files []*ilFile
	for _, p := range pkgs {
		if len(p.Errors) > 0 || p.TypesInfo == nil {
			continue
		}
		for i, af := range p.Syntax {
			if i >= len(p.CompiledGoFiles) {
				continue
			}
			name := p.CompiledGoFiles[i]
			src, err := os.ReadFile(name)
			if err != nil {
				continue
			}
			f := &ilFile{name: name, src: src, file: af, pkg: p, tf: fset.File(af.Pos())}
			nn.files[af], nn.info[af] = f, p.TypesInfo
			files = append(files, f)
			rel, _ := filepath.Rel(root, filepath.Dir(name))
			d := filepath.ToSlash(rel)
			for _, dd := range af.Decls {
				switch x := dd.(type) {
				case *ast.FuncDecl:
					if xf := pl.funcs[funcKey(d, x)]; xf != nil {
						if obj := p.TypesInfo.Defs[x.Name]; obj != nil {
							nn.ren[obj] = xf.baseName
							nn.decl[obj] = x
							if !xf.identity {
								nn.xf[obj] = xf
							}
						}
					}
				case *ast.GenDecl:
					for _, sp := range x.Specs {
						switch y := sp.(type) {
						case *ast.TypeSpec:
							if bn, ok := pl.decls[d+"|"+y.Name.Name]; ok {
								if obj := p.TypesInfo.Defs[y.Name]; obj != nil {
									nn.ren[obj] = bn
								}
							}
							if fr := pl.fields[d+"|"+y.Name.Name]; fr != nil {
								var lists []*ast.Field
								if st, ok := y.Type.(*ast.StructType); ok {
									lists = st.Fields.List
								}
								if it, ok := y.Type.(*ast.InterfaceType); ok && it.Methods != nil {
									lists = it.Methods.List
								}
								if lists != nil {
									for _, fl := range lists {
										for _, n := range fl.Names {
											if bn, ok := fr[n.Name]; ok {
												if obj := p.TypesInfo.Defs[n]; obj != nil {
													nn.ren[obj] = bn
												}
											}
										}
									}
								}
							}
						case *ast.ValueSpec:
							for _, n := range y.Names {
								if bn, ok := pl.decls[d+"|"+n.Name]; ok {
									if obj := p.TypesInfo.Defs[n]; obj != nil {
										nn.ren[obj] = bn
									}
								}
							}
						}
					}
				}
			}
		}
	}
	if len(nn.ren) == 0 && len(pl.newTypes) == 0 {
		return nil, nil
	}
	// a transformed function must only be used as the function of a call, with movable arguments
	inCall := map[*ast.Ident]bool{}
	for _, f := range files {
		info := nn.info[f.file]
		ast.Inspect(f.file, func(n ast.Node) bool {
			call, ok := n.(*ast.CallExpr)
			if !ok {
				return true
			}
			obj, id := calleeObjAST(info, call)
			x := nn.xf[obj]
			if x == nil {
				return true
			}
			inCall[id] = true
			if len(call.Args) != len(x.perm)+map[bool]int{true: 1, false: 0}[x.recvFrom >= 0] {
				nn.bad[obj] = "a call passes a multi-value expression"
				return true
			}
			var order []int
			if x.recvFrom >= 0 {
				order = append(order, x.recvFrom)
			}
			order = append(order, x.perm...)
			moved := false
			for i, j := range order {
				if i != j {
					moved = true
				}
			}
			if moved {
				for _, a := range call.Args {
					if !pureExpr(a) {
						nn.bad[obj] = "an argument that would change place has side effects"
					}
				}
			}
			if call.Ellipsis.IsValid() && len(x.perm) > 0 && x.perm[len(x.perm)-1] != len(call.Args)-1 {
				nn.bad[obj] = "variadic call"
			}
			return true
		})
	}
	for _, f := range files {
		for id, obj := range nn.info[f.file].Uses {
			if nn.xf[obj] != nil && !inCall[id] {
				nn.bad[obj] = "used as a value"
			}
		}
	}
	overlay := map[string][]byte{}
	var devirt []string
	sort.Slice(files, func(i, j int) bool { return files[i].name < files[j].name })
	for _, f := range files {
		info := nn.info[f.file]
		var subs []sub
		for _, dd := range f.file.Decls {
			fd, ok := dd.(*ast.FuncDecl)
			if !ok {
				subs = append(subs, nn.subsIn(f, dd, false)...)
				continue
			}
			obj := info.Defs[fd.Name]
			if x := nn.xf[obj]; x != nil && nn.bad[obj] == "" {
				a, b, text, ok := nn.renderDecl(f, fd, x)
				if !ok {
					panic("cannot rewrite the declaration of " + fd.Name.Name)
				}
				subs = append(subs, sub{a, b, text})
				if fd.Type.Results != nil {
					subs = append(subs, nn.subsIn(f, fd.Type.Results, false)...)
				}
			} else {
				if fd.Recv != nil {
					subs = append(subs, nn.subsIn(f, fd.Recv, false)...)
				}
				subs = append(subs, nn.subsIn(f, fd.Name, false)...)
				subs = append(subs, nn.subsIn(f, fd.Type, false)...)
			}
			if fd.Body != nil {
				subs = append(subs, nn.subsIn(f, fd.Body, false)...)
			}
		}
		if len(pl.newTypes) > 0 {
			rel, _ := filepath.Rel(root, filepath.Dir(f.name))
			ds, dn := devirtLocals(f, info, filepath.ToSlash(rel), pl.newTypes)
			subs = append(subs, ds...)
			devirt = append(devirt, dn...)
		}
		if len(subs) == 0 {
			continue
		}
		out := applySubs(f.src, 0, len(f.src), subs)
		if !bytes.Equal([]byte(out), f.src) {
			overlay[f.name] = []byte(out)
		}
	}
	var bads []string
	for obj, why := range nn.bad {
		bads = append(bads, obj.Name()+" ("+why+")")
	}
	sort.Strings(bads)
	if len(overlay) == 0 {
		if len(bads) > 0 {
			return nil, []string{"name normalisation: left as written: " + strings.Join(bads, ", ")}
		}
		return nil, nil
	}
	if len(pl.notes) > 0 {
		notes = append(notes, "name normalisation: "+strings.Join(pl.notes, "; "))
	}
	if len(devirt) > 0 {
		sort.Strings(devirt)
		notes = append(notes, "name normalisation: locals declared with an interface type that is not in the pinned tree and initialised once from a concrete value are analysed with the concrete type: "+strings.Join(devirt, ", "))
	}
	if len(bads) > 0 {
		notes = append(notes, "name normalisation: left as written: "+strings.Join(bads, ", "))
	}
	return overlay, notes
}

// devirtLocals: `var w I = T(x)` in a function body, with I an interface type that the pinned tree
// does not have, w never assigned again and never address-taken: the declaration is rewritten to
// `var w = T(x)`, so that the calls through w are the static calls they always resolve to (and the
// new methods of T can be expanded like any other new helper).
func devirtLocals(f *ilFile, info *types.Info, dir string, newTypes map[string]bool) (subs []sub, names []string) {
	for _, dd := range f.file.Decls {
		fd, ok := dd.(*ast.FuncDecl)
		if !ok || fd.Body == nil {
			continue
		}
		reassigned := map[types.Object]bool{}
		ast.Inspect(fd.Body, func(n ast.Node) bool {
			switch x := n.(type) {
			case *ast.AssignStmt:
				if x.Tok != token.DEFINE {
					for _, l := range x.Lhs {
						if id, ok := ast.Unparen(l).(*ast.Ident); ok {
							if o := info.Uses[id]; o != nil {
								reassigned[o] = true
							}
						}
					}
				}
			case *ast.UnaryExpr:
				if x.Op == token.AND {
					if id, ok := ast.Unparen(x.X).(*ast.Ident); ok {
						if o := info.Uses[id]; o != nil {
							reassigned[o] = true
						}
					}
				}
			case *ast.IncDecStmt:
				if id, ok := ast.Unparen(x.X).(*ast.Ident); ok {
					if o := info.Uses[id]; o != nil {
						reassigned[o] = true
					}
				}
			}
			return true
		})
		ast.Inspect(fd.Body, func(n ast.Node) bool {
			ds, ok := n.(*ast.DeclStmt)
			if !ok {
				return true
			}
			gd, ok := ds.Decl.(*ast.GenDecl)
			if !ok || gd.Tok != token.VAR {
				return true
			}
			for _, sp := range gd.Specs {
				vs, ok := sp.(*ast.ValueSpec)
				if !ok || vs.Type == nil || len(vs.Names) != 1 || len(vs.Values) != 1 {
					continue
				}
				nt, ok := info.TypeOf(vs.Type).(*types.Named)
				if !ok || nt.Obj().Pkg() == nil || !types.IsInterface(nt) || !newTypes[dir+"|"+nt.Obj().Name()] {
					continue
				}
				vt := info.TypeOf(vs.Values[0])
				if vt == nil || types.IsInterface(vt) {
					continue
				}
				obj := info.Defs[vs.Names[0]]
				if obj == nil || reassigned[obj] {
					continue
				}
				subs = append(subs, sub{f.off(vs.Names[0].End()), f.off(vs.Type.End()), ""})
				names = append(names, fd.Name.Name+"."+vs.Names[0].Name)
			}
			return true
		})
	}
	return subs, names
}
