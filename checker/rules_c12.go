package main

import (
	"go/token"
	"go/types"
	"strings"

	"golang.org/x/tools/go/ssa"
)

// handlerClosures: closures in transport that call TarsServer.invoke.
func handlerClosures(w *World) []*ssa.Function {
	var out []*ssa.Function
	sp := w.Pkg("tars/transport")
	if sp == nil {
		return nil
	}
	for _, fn := range w.Funcs(sp) {
		if fn.Parent() == nil {
			continue
		}
		has := false
		eachInstr(fn, func(in ssa.Instruction) {
			if c := callCommon(in); c != nil && callIs(c, "~/tars/transport.(TarsServer).invoke") {
				has = true
			}
		})
		if has {
			out = append(out, fn)
		}
	}
	return out
}

func isConnClose(c *ssa.CallCommon) bool {
	return c != nil && c.IsInvoke() && c.Method.Name() == "Close" && isNetConn(c.Value.Type())
}

// atomicLoadOf: v is atomic.LoadInt32(&X.field) (or a plain load of that field) → field name.
func counterLoad(v ssa.Value) (string, bool) {
	if c, ok := v.(*ssa.Call); ok && (atomicOp(&c.Call) == "LoadInt32" || atomicOp(&c.Call) == "LoadInt64") {
		if fv, _, ok := fieldAddrOf(c.Call.Args[0]); ok {
			return fv.Name(), true
		}
	}
	if _, name, _, ok := loadedField(v); ok {
		return name, true
	}
	return "", false
}

func init() {
	register(&Rule{ID: "C12.R1", Props: []string{"C12"}, Min: 2, Needs: NeedMain,
		Doc: "close after drain: every conn.Close() on the server's shutdown paths (the deferred close of the receive loop, CloseIdles) is dominated by an observation numInvoke == 0 of that connection",
		Run: func(r *R) {
			sp := r.w.Pkg("tars/transport")
			n := 0
			for _, fn := range r.w.Funcs(sp) {
				// server-side functions of tcpHandler (incl. closures)
				root := fn
				for root.Parent() != nil {
					root = root.Parent()
				}
				if root.Signature.Recv() == nil || !strings.HasSuffix(typeID(root.Signature.Recv().Type()), "transport.tcpHandler") {
					continue
				}
				if root.Name() != "recv" && root.Name() != "CloseIdles" {
					continue
				}
				eachInstr(fn, func(in ssa.Instruction) {
					c := callCommon(in)
					if !isConnClose(c) {
						return
					}
					if _, isDefer := in.(*ssa.Defer); isDefer {
						return
					}
					// a connection this function dialled itself (the wake-up connection to its own listener)
					if ex, ok := strip(c.Value, false).(*ssa.Extract); ok {
						if dc, ok := ex.Tuple.(*ssa.Call); ok && strings.HasPrefix(funcID(calleeObj(&dc.Call)), "net.Dial") {
							return
						}
					}
					n++
					drained := drainObservedAt(in)
					// or a helper that returns only after the observation was called on the way here
					if !drained {
						eachInstr(fn, func(j ssa.Instruction) {
							cc, ok := j.(*ssa.Call)
							if !ok || !instrDominates(j, in) {
								return
							}
							if sc := cc.Call.StaticCallee(); sc != nil && sc.Pkg == fn.Pkg && sc.Blocks != nil && returnsOnlyDrained(sc) {
								drained = true
							}
						})
					}
					r.Check(drained, fname(fn), "conn.Close after numInvoke==0", in.Pos(), "the close is reached only after observing numInvoke == 0", "a connection is closed on the shutdown path without first observing numInvoke == 0: responses of requests already read are written to a closed socket")
				})
			}
			if n < 2 {
				r.Bad("tars/transport", "shutdown closes", token.NoPos, "found %d conn.Close sites on the shutdown paths (expected the receive loop's deferred close and CloseIdles)", n)
			}
		}})

	register(&Rule{ID: "C12.R2", Props: []string{"C12"}, Min: 5, Needs: NeedMain,
		Doc: "clients are told to reconnect on both shutdown paths: OnShutdown and CloseIdles call the close-message broadcast on the isListenClosed == 1 edge and then store 2; the broadcast visits every connection (its Range callback returns true on every path); the close message carries request id 0 and the reconnect constant the client's push handler compares with",
		Run: func(r *R) {
			sp := r.w.Pkg("tars/transport")
			var bcast *ssa.Function
			for _, fn := range r.w.Funcs(sp) {
				if fn.Parent() != nil {
					continue
				}
				eachInstr(fn, func(in ssa.Instruction) {
					if c := callCommon(in); c != nil && c.IsInvoke() && c.Method.Name() == "GetCloseMsg" {
						bcast = fn
					}
				})
			}
			if bcast == nil {
				r.AnchorMissing("close-message broadcast (function calling ServerProtocol.GetCloseMsg)")
				return
			}
			for _, name := range []string{"OnShutdown", "CloseIdles"} {
				fn := r.w.Func("tars/transport", "tcpHandler."+name)
				if fn == nil {
					r.AnchorMissing("transport.(*tcpHandler)." + name)
					continue
				}
				// the broadcast: a call of a function that fetches the close message, or that fetch itself when the
				// broadcast is written in line
				var call ssa.Instruction
				eachInstr(fn, func(in ssa.Instruction) {
					c := callCommon(in)
					if c == nil {
						return
					}
					if sc := c.StaticCallee(); sc != nil && sc.Pkg == fn.Pkg && fetchesCloseMsg(sc, 2) {
						call = in
					}
					if call == nil && c.IsInvoke() && c.Method.Name() == "GetCloseMsg" {
						call = in
					}
				})
				ok := false
				if call != nil {
					for _, f := range facts(call.Block()) {
						cm, okc := normFact(f)
						if !okc || cm.Op != token.EQL {
							continue
						}
						name, isL := counterLoad(cm.X)
						if k, isK := constInt(cm.Y); isL && isK && name == "isListenClosed" && k == 1 {
							ok = true
						}
					}
					// followed by store 2
					st2 := reachAvoiding(call, func(in ssa.Instruction) bool {
						c := callCommon(in)
						if c == nil || atomicOp(c) != "StoreInt32" {
							return false
						}
						k, isK := constInt(c.Args[1])
						return isK && k == 2
					}, isReturn)
					ok = ok && st2 != nil
				}
				r.Check(ok, fname(fn), "broadcast on isListenClosed==1, then 2", fn.Pos(), "the reconnect notification is broadcast once when the listener has closed", "%s does not broadcast the reconnect notification on the isListenClosed == 1 edge (followed by the store of 2)", name)
			}
			// the Range callbacks of the broadcast and of CloseIdles return true on every path
			for _, fn := range r.w.Funcs(sp) {
				if fn.Parent() == nil {
					continue
				}
				usedByRange := false
				eachInstr(fn.Parent(), func(in ssa.Instruction) {
					if c := callCommon(in); c != nil && funcID(calleeObj(c)) == "sync.(Map).Range" {
						if mc, ok := strip(c.Args[1], false).(*ssa.MakeClosure); ok && mc.Fn == ssa.Value(fn) {
							usedByRange = true
						}
						if f, ok := c.Args[1].(*ssa.Function); ok && f == fn {
							usedByRange = true
						}
					}
				})
				if !usedByRange || !(fn.Parent() == bcast || fetchesCloseMsg(fn.Parent(), 0) || fn.Parent().Name() == "CloseIdles") {
					continue
				}
				all := true
				for _, b := range fn.Blocks {
					if ret, ok := b.Instrs[len(b.Instrs)-1].(*ssa.Return); ok && b != fn.Recover {
						if v, isC := constBool(ret.Results[0]); !isC || !v {
							all = false
						}
					}
				}
				r.Check(all, fname(fn), "Range callback visits every connection", fn.Pos(), "returns true on every path", "the callback can return false, which stops sync.Map.Range: connections after the first failing one are neither notified nor considered")
			}
			// message content
			gm := r.w.Func("tars", "Protocol.GetCloseMsg")
			op := r.w.Func("tars", "AdapterProxy.onPush")
			if gm == nil || op == nil {
				r.AnchorMissing("tars.(*Protocol).GetCloseMsg / (*AdapterProxy).onPush")
				return
			}
			var descConst, cmpConst string
			idZero := false
			eachInstr(gm, func(in ssa.Instruction) {
				st, ok := in.(*ssa.Store)
				if !ok {
					return
				}
				fv, _, ok := fieldAddrOf(st.Addr)
				if !ok {
					return
				}
				if fv.Name() == "SResultDesc" {
					descConst, _ = constString(st.Val)
				}
				if fv.Name() == "IRequestId" {
					if k, ok := constInt(st.Val); ok && k == 0 {
						idZero = true
					}
				}
			})
			eachInstr(op, func(in ssa.Instruction) {
				if b, ok := in.(*ssa.BinOp); ok && b.Op == token.EQL {
					if s, ok := constString(b.Y); ok && strings.HasSuffix(pathOf(b.X), ".SResultDesc") {
						cmpConst = s
					}
				}
			})
			r.Check(idZero && descConst != "" && descConst == cmpConst, fname(gm), "close message = id 0 + reconnect constant", gm.Pos(), "request id 0 and the constant %q the client compares with", "the close message (id0=%v, desc=%q) does not match what the client's push handler tests (%q)", map[bool]any{true: descConst, false: idZero}[idZero && descConst == cmpConst], descConst, cmpConst)
		}})

	register(&Rule{ID: "C12.R3", Props: []string{"C12"}, Min: 1, Needs: NeedMain,
		Doc: "Shutdown returns on drain or on context expiry: its loop is a select over ctx.Done() and the ticker, and both exits return",
		Run: func(r *R) {
			fn := r.w.Func("tars/transport", "TarsServer.Shutdown")
			if fn == nil {
				r.AnchorMissing("transport.(*TarsServer).Shutdown")
				return
			}
			var sel *ssa.Select
			eachInstr(fn, func(in ssa.Instruction) {
				if s, ok := in.(*ssa.Select); ok && s.Blocking {
					sel = s
				}
			})
			ok := false
			if sel != nil {
				ctxCase, tick := false, false
				for _, st := range sel.States {
					if b, why := boundedChan(st.Chan); b {
						if why == "ctx.Done()" {
							ctxCase = true
						} else {
							tick = true
						}
					}
				}
				// ctx.Done() must be the Done of the parameter
				ok = ctxCase && tick
				// the ctx case returns: find block under index==i for the ctx state
				var idx ssa.Value
				for _, ref := range *sel.Referrers() {
					if e, okk := ref.(*ssa.Extract); okk && e.Index == 0 {
						idx = e
					}
				}
				// once the context is done the loop is never entered again: no path from the ctx case back to the select
				_ = idx
				isSel := func(in ssa.Instruction) bool { return in == ssa.Instruction(sel) }
				returnsOnCtx := false
				for k, st := range sel.States {
					if _, why := boundedChan(st.Chan); why == "ctx.Done()" {
						if cb := selectCaseBlock(sel, k); cb != nil && reachFromBlock(cb, isSel, nil) == nil {
							returnsOnCtx = true
						}
					}
				}
				ok = ok && returnsOnCtx
			}
			// and CloseIdles() == true ends the loop as well
			retOnDrain := false
			eachInstr(fn, func(in ssa.Instruction) {
				if c, okc := in.(*ssa.Call); okc && c.Call.IsInvoke() && c.Call.Method.Name() == "CloseIdles" && sel != nil {
					isSel := func(j ssa.Instruction) bool { return j == ssa.Instruction(sel) }
					if reachWalkEnv(c.Block(), instrIndex(c)+1, isSel, nil, map[ssa.Value]bool{c: true}) == nil {
						retOnDrain = true
					}
				}
			})
			r.Check(ok && retOnDrain, fname(fn), "returns on ctx.Done() or when all connections drained", fn.Pos(), "select{<-ctx.Done(): return; <-tick: if CloseIdles() {return}}", "Shutdown does not return both on context expiry and on drain")
		}})

	register(&Rule{ID: "C12.R4", Props: []string{"C12"}, Min: 1, Needs: NeedMain,
		Doc: "producers are joined before the pool is released: a function that releases the worker pool and has started goroutines that can enqueue jobs waits for them (WaitGroup.Wait / channel join) before Release",
		Run: func(r *R) {
			sp := r.w.Pkg("tars/transport")
			for _, fn := range r.w.Funcs(sp) {
				var rel ssa.Instruction
				eachInstr(fn, func(in ssa.Instruction) {
					if c := callCommon(in); c != nil && callIs(c, "~/tars/util/gpool.(Pool).Release") {
						rel = in
					}
				})
				if rel == nil {
					continue
				}
				// goroutines started by fn that can reach a send on JobQueue
				producers := 0
				eachInstr(fn, func(in ssa.Instruction) {
					g, ok := in.(*ssa.Go)
					if !ok {
						return
					}
					var gf *ssa.Function
					if mc, ok := g.Call.Value.(*ssa.MakeClosure); ok {
						gf = mc.Fn.(*ssa.Function)
					} else {
						gf = g.Call.StaticCallee()
					}
					if gf != nil && canEnqueue(gf, map[*ssa.Function]bool{}, 0) {
						producers++
					}
				})
				if producers == 0 {
					r.OKLookup(fname(fn), "pool.Release", rel.Pos(), "no job-producing goroutine is started here")
					continue
				}
				joined := false
				eachInstr(fn, func(in ssa.Instruction) {
					if c := callCommon(in); c != nil && funcID(calleeObj(c)) == "sync.(WaitGroup).Wait" && instrDominates(in, rel) {
						joined = true
					}
				})
				r.Check(joined, fname(fn), "pool.Release after joining producers", rel.Pos(), "producers are joined before Release", "the worker pool is released when the accept loop ends while %d kind(s) of receive goroutines can still enqueue handlers: queued handlers never run, numInvoke never drops and those connections are never closed", producers)
			}
		}})

	register(&Rule{ID: "C12.R6", Props: []string{"C12", "C10"}, Min: 2, Needs: NeedMain,
		Doc: "a request stays in flight until its response is written: in each handler closure no write of the response can follow the decrement of the in-flight counter (the decrement is deferred or comes after the write on every path), because the drain test closes the connection as soon as the counter reads 0",
		Run: func(r *R) {
			for _, cl := range handlerClosures(r.w) {
				var decs, writes []ssa.Instruction
				eachInstr(cl, func(in ssa.Instruction) {
					if _, d, ok := atomicAddOn(in); ok && d < 0 {
						decs = append(decs, in)
					}
					c := callCommon(in)
					if c != nil && ((c.IsInvoke() && c.Method.Name() == "Write" && isNetConn(c.Value.Type())) || funcID(calleeObj(c)) == "net.(UDPConn).WriteToUDP") {
						writes = append(writes, in)
					}
				})
				okk := len(decs) > 0
				for _, d := range decs {
					if _, isDefer := d.(*ssa.Defer); isDefer {
						continue
					}
					for _, w := range writes {
						if reaches(d, w) {
							okk = false
						}
					}
				}
				r.Check(okk, fname(cl), "in-flight until the response is written", cl.Pos(), "the counter is decremented by a defer / after the write", "the in-flight counter is decremented before the response is written: during shutdown the connection looks drained and is closed while a (large or slowly read) response is still being written")
			}
		}})

	register(&Rule{ID: "C12.R5", Props: []string{"C12", "C10"}, Min: 2, Needs: NeedMain,
		Doc: "a request counts as in flight from the moment it is read: the in-flight counter decremented by a handler closure is incremented in the enclosing function, before the closure is handed to the pool / started, never inside the closure",
		Run: func(r *R) {
			for _, cl := range handlerClosures(r.w) {
				parent := cl.Parent()
				var field string
				eachInstrDeep(cl, func(g *ssa.Function, in ssa.Instruction) {
					if f, d, ok := atomicAddOn(in); ok && d < 0 {
						field = f
					}
				})
				if field == "" {
					r.Bad(fname(cl), "in-flight accounting", cl.Pos(), "the handler closure decrements no in-flight counter: shutdown cannot know that a request is still being processed")
					continue
				}
				incInside := false
				eachInstrDeep(cl, func(g *ssa.Function, in ssa.Instruction) {
					if f, d, ok := atomicAddOn(in); ok && d > 0 && f == field {
						incInside = true
					}
				})
				var inc, mk ssa.Instruction
				eachInstr(parent, func(in ssa.Instruction) {
					if f, d, ok := atomicAddOn(in); ok && d > 0 && f == field {
						inc = in
					}
					if mc, ok := in.(*ssa.MakeClosure); ok && mc.Fn == ssa.Value(cl) {
						mk = in
					}
				})
				short := field[strings.LastIndex(field, ".")+1:]
				r.Check(!incInside && inc != nil && mk != nil && instrDominates(inc, mk), fname(parent), "counts "+short+" when the request is read", parent.Pos(), "the increment precedes the hand-off of the handler", "%s is incremented only when the handler starts to run: a request that was read but is still waiting for a pool worker is not counted, so its connection looks idle and is closed during shutdown before the response is written", short)
			}
		}})
}

// afterDrainLoop: `in` is reached only by leaving a loop whose exits are (a) a break under
// numInvoke == 0 or (b) the closed-channel exit of `for range ticker.C` (infeasible).
// isDrainCmp: the comparison confines the counter to "no request in flight" (== 0, <= 0, < 1).
func isDrainCmp(cm cmpNorm) bool {
	k, isK := constInt(cm.Y)
	return isK && ((cm.Op == token.EQL && k == 0) || (cm.Op == token.LEQ && k == 0) || (cm.Op == token.LSS && k == 1))
}

// drainObservedAt: instruction in is reached only after numInvoke was observed to be zero: a
// dominating comparison, or the exit of a polling loop that is left only on that observation.
func drainObservedAt(in ssa.Instruction) bool {
	for _, f := range facts(in.Block()) {
		cm, ok := normFact(f)
		if !ok {
			continue
		}
		if name, isL := counterLoad(cm.X); isL && name == "numInvoke" && isDrainCmp(cm) {
			return true
		}
	}
	// loop-exit form: `for range ticker.C { if numInvoke == 0 { break } }` — the statement after the
	// loop is reached only through the break edge or the (infeasible) closed-ticker edge
	return afterDrainLoop(in)
}

// returnsOnlyDrained: every normal return of fn is reached only after the observation.
func returnsOnlyDrained(fn *ssa.Function) bool {
	n := 0
	ok := true
	for _, b := range fn.Blocks {
		ret, isRet := b.Instrs[len(b.Instrs)-1].(*ssa.Return)
		if !isRet || b == fn.Recover {
			continue
		}
		n++
		if !drainObservedAt(ret) {
			ok = false
		}
	}
	return ok && n > 0
}

func afterDrainLoop(in ssa.Instruction) bool {
	fn := in.Parent()
	for _, l := range loopsOf(fn) {
		// all exit edges of l
		okAll, any := true, false
		for b := range l.body {
			for si, s := range b.Succs {
				if l.body[s] {
					continue
				}
				if !s.Dominates(in.Block()) && s != in.Block() {
					continue
				}
				any = true
				// exit edge b -> s
				iff, isIf := b.Instrs[len(b.Instrs)-1].(*ssa.If)
				if !isIf {
					okAll = false
					continue
				}
				cm, ok := normFact(EdgeFact{Cond: iff.Cond, Taken: si == 0})
				if !ok {
					okAll = false
					continue
				}
				name, isL := counterLoad(cm.X)
				if isL && name == "numInvoke" && isDrainCmp(cm) {
					continue
				}
				// closed-channel exit of range over ticker.C: cond is the comma-ok of a receive from a ticker
				if ex, isEx := cm.X.(*ssa.Extract); isEx && ex.Index == 1 {
					if u, isU := ex.Tuple.(*ssa.UnOp); isU && u.Op == token.ARROW {
						if b2, _ := boundedChan(u.X); b2 {
							continue
						}
					}
				}
				okAll = false
			}
		}
		if any && okAll {
			return true
		}
	}
	return false
}

// canEnqueue: f (or what it statically calls inside the package, incl. closures) sends on a
// gpool.Pool.JobQueue.
func canEnqueue(f *ssa.Function, seen map[*ssa.Function]bool, depth int) bool {
	if f == nil || f.Blocks == nil || seen[f] || depth > 4 {
		return false
	}
	seen[f] = true
	found := false
	eachInstrDeep(f, func(g *ssa.Function, in ssa.Instruction) {
		if s, ok := in.(*ssa.Send); ok && strings.HasSuffix(pathOf(s.Chan), ".JobQueue") {
			found = true
		}
		if c := callCommon(in); c != nil && !found {
			if sc := c.StaticCallee(); sc != nil && sc.Pkg == f.Pkg && canEnqueue(sc, seen, depth+1) {
				found = true
			}
		}
	})
	return found
}

var _ = types.Typ

// fetchesCloseMsg: fn (or a same-package static callee up to depth d) invokes ServerProtocol.GetCloseMsg.
func fetchesCloseMsg(fn *ssa.Function, d int) bool {
	if fn == nil || fn.Blocks == nil {
		return false
	}
	found := false
	eachInstr(fn, func(in ssa.Instruction) {
		c := callCommon(in)
		if c == nil || found {
			return
		}
		if c.IsInvoke() && c.Method.Name() == "GetCloseMsg" {
			found = true
		} else if sc := c.StaticCallee(); sc != nil && d > 0 && sc.Pkg == fn.Pkg && sc != fn && fetchesCloseMsg(sc, d-1) {
			found = true
		}
	})
	return found
}
