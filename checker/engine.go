package main

import (
	"crypto/sha1"
	"encoding/json"
	"fmt"
	"go/token"
	"os"
	"path/filepath"
	"sort"
	"strings"
	"time"
)

// Status of one obligation.
type Status int

const (
	Discharged Status = iota
	Violated
	Undecided // counts as violated (fail closed), but reported as such
)

func (s Status) String() string {
	switch s {
	case Discharged:
		return "discharged"
	case Violated:
		return "violated"
	}
	return "undecided"
}

// Obligation is one decided instance of a rule.
// Key = "<rule>|<pkg.func or type>|<construct>" and never contains a line number.
type Obligation struct {
	Rule       string `json:"rule"`
	Key        string `json:"key"`
	Status     string `json:"status"`
	Pos        string `json:"pos,omitempty"`
	Detail     string `json:"detail,omitempty"`
	NonTrivial bool   `json:"nontrivial,omitempty"`
	st         Status
}

// Rule is a template + slot filling query + decision procedure.
type Rule struct {
	ID       string
	Props    []string // properties that this rule serves (first = owner)
	Thorough bool     // only in the thorough tier
	Min      int      // instances confirmed by hand on the pinned tree (vacuity guard)
	Doc      string   // the rule in one sentence (goes to evidence)
	Needs    int      // loader needs (bit set)
	Run      func(r *R)
}

const (
	NeedMain = 1 << iota // main module ./tars/... (syntax+types+SSA for repo packages)
	NeedTool             // tars2go module
	NeedCG               // whole-program SSA + call graph (VTA over CHA)
	NeedIDL              // the .tars files
)

var allRules []*Rule

func register(r *Rule) { allRules = append(allRules, r) }

// R is the handle a rule uses to emit obligations.
type R struct {
	rule *Rule
	w    *World
	obs  []*Obligation
	seen map[string]int
}

func (r *R) posStr(p token.Pos) string {
	if !p.IsValid() {
		return ""
	}
	pp := r.w.Fset.Position(p)
	f := pp.Filename
	if rel, err := filepath.Rel(r.w.Repo, f); err == nil && !strings.HasPrefix(rel, "..") {
		f = rel
	}
	return fmt.Sprintf("%s:%d", f, pp.Line)
}

func (r *R) add(st Status, where, construct string, pos token.Pos, nontrivial bool, format string, args ...any) {
	key := r.rule.ID + "|" + where + "|" + construct
	if r.seen == nil {
		r.seen = map[string]int{}
	}
	r.seen[key]++
	if n := r.seen[key]; n > 1 {
		key = fmt.Sprintf("%s#%d", key, n)
	}
	r.obs = append(r.obs, &Obligation{Rule: r.rule.ID, Key: key, Status: st.String(), st: st,
		Pos: r.posStr(pos), Detail: fmt.Sprintf(format, args...), NonTrivial: nontrivial})
}

// OK records a discharged obligation whose decision needed a path/dataflow argument.
func (r *R) OK(where, construct string, pos token.Pos, format string, args ...any) {
	r.add(Discharged, where, construct, pos, true, format, args...)
}

// OKLookup records a discharged obligation decided by a mere lookup / table comparison.
func (r *R) OKLookup(where, construct string, pos token.Pos, format string, args ...any) {
	r.add(Discharged, where, construct, pos, false, format, args...)
}

func (r *R) Bad(where, construct string, pos token.Pos, format string, args ...any) {
	r.add(Violated, where, construct, pos, true, format, args...)
}

func (r *R) Undecided(where, construct string, pos token.Pos, format string, args ...any) {
	r.add(Undecided, where, construct, pos, true, "undecided (idiom not recognised): "+format, args...)
}

// Check is sugar: discharged iff cond.
func (r *R) Check(cond bool, where, construct string, pos token.Pos, okFmt, badFmt string, args ...any) bool {
	if cond {
		r.OK(where, construct, pos, "%s", sprintfLoose(okFmt, args))
	} else {
		r.Bad(where, construct, pos, "%s", sprintfLoose(badFmt, args))
	}
	return cond
}

// sprintfLoose formats with only as many arguments as the format has verbs (the ok and bad
// messages of Check share one argument list).
func sprintfLoose(format string, args []any) string {
	n := 0
	for i := 0; i < len(format); i++ {
		if format[i] == '%' {
			if i+1 < len(format) && format[i+1] == '%' {
				i++
				continue
			}
			n++
		}
	}
	if n < len(args) {
		args = args[:n]
	}
	return fmt.Sprintf(format, args...)
}

func (r *R) AnchorMissing(name string) {
	r.add(Violated, "anchor", name, token.NoPos, false, "anchor-missing: %s cannot be resolved in the current tree; the rule cannot be applied", name)
}

// ---------------------------------------------------------------------------------------------

type knownFinding struct {
	kind string // finding | fixed
	prop string
	key  string
	text string
	line string
}

func loadKnown(path string) ([]knownFinding, error) {
	b, err := os.ReadFile(path)
	if err != nil {
		if os.IsNotExist(err) {
			return nil, nil
		}
		return nil, err
	}
	var out []knownFinding
	for _, ln := range strings.Split(string(b), "\n") {
		l := strings.TrimSpace(ln)
		if l == "" || strings.HasPrefix(l, "#") {
			continue
		}
		var k knownFinding
		k.line = l
		switch {
		case strings.HasPrefix(l, "finding:"):
			k.kind = "finding"
			l = strings.TrimSpace(strings.TrimPrefix(l, "finding:"))
		case strings.HasPrefix(l, "fixed:"):
			k.kind = "fixed"
			l = strings.TrimSpace(strings.TrimPrefix(l, "fixed:"))
		default:
			return nil, fmt.Errorf("known_findings: bad line %q", ln)
		}
		head, text, _ := strings.Cut(l, " -- ")
		k.text = strings.TrimSpace(text)
		// key= extends to the end of the head (obligation keys may contain spaces)
		if i := strings.Index(head, "key="); i >= 0 {
			k.key = strings.TrimSpace(head[i+len("key="):])
			head = head[:i]
		}
		for _, f := range strings.Fields(head) {
			if v, ok := strings.CutPrefix(f, "property="); ok {
				k.prop = v
			}
		}
		if k.prop == "" || (k.kind == "finding" && k.key == "") {
			return nil, fmt.Errorf("known_findings: bad line %q", ln)
		}
		out = append(out, k)
	}
	return out, nil
}

// ---------------------------------------------------------------------------------------------

type ruleSummary struct {
	Rule       string `json:"rule"`
	Doc        string `json:"doc"`
	Instances  int    `json:"instances"`
	Min        int    `json:"min_instances"`
	Discharged int    `json:"discharged"`
	Violated   int    `json:"violated"`
	Undecided  int    `json:"undecided"`
	Known      int    `json:"known_findings"`
}

type runResult struct {
	prop       string
	tier       string
	obs        []*Obligation
	rules      []ruleSummary
	violations []*Obligation
	known      []string
	gone       []string
	wall       float64
	world      *World
	notes      []string
}

func verifRoot() string {
	if v := os.Getenv("VERIF_ROOT"); v != "" {
		return v
	}
	exe, err := os.Executable()
	if err == nil {
		d := filepath.Dir(filepath.Dir(exe))
		if _, err := os.Stat(filepath.Join(d, "MANIFEST.json")); err == nil {
			return d
		}
	}
	return "/verif"
}

func rulesFor(prop, tier string) []*Rule {
	var out []*Rule
	for _, r := range allRules {
		if r.Thorough && tier != "thorough" {
			continue
		}
		for _, p := range r.Props {
			if p == prop {
				out = append(out, r)
				break
			}
		}
	}
	return out
}

func runProperty(prop, tier, repo string, only string) (*runResult, error) {
	start := time.Now()
	rules := rulesFor(prop, tier)
	if len(rules) == 0 {
		return nil, fmt.Errorf("no rules registered for %s", prop)
	}
	needs := 0
	for _, r := range rules {
		needs |= r.Needs
	}
	if tier == "thorough" {
		needs |= NeedCG // whole-program build in the thorough tier
	}
	w, err := loadWorld(repo, needs)
	if err != nil {
		return nil, err
	}
	w.Tier = tier
	res := &runResult{prop: prop, tier: tier, world: w}
	known, err := loadKnown(filepath.Join(verifRoot(), "known_findings.txt"))
	if err != nil {
		return nil, err
	}
	knownByKey := map[string]knownFinding{}
	for _, k := range known {
		if k.kind == "finding" {
			knownByKey[k.key] = k
		}
	}
	matched := map[string]bool{}
	for _, rule := range rules {
		if only != "" && rule.ID != only {
			continue
		}
		r := &R{rule: rule, w: w}
		func() {
			defer func() {
				if e := recover(); e != nil {
					r.add(Violated, "checker", "panic", token.NoPos, false, "checker panic while running rule (cannot-analyse): %v", e)
					if os.Getenv("VERIF_DEBUG") != "" {
						panic(e)
					}
				}
			}()
			rule.Run(r)
		}()
		if len(r.obs) < rule.Min {
			r.add(Violated, "vacuity", "min-instances", token.NoPos, false,
				"vacuous: rule matched %d instances, at least %d were confirmed by hand on the pinned tree", len(r.obs), rule.Min)
		}
		sum := ruleSummary{Rule: rule.ID, Doc: rule.Doc, Instances: len(r.obs), Min: rule.Min}
		for _, o := range r.obs {
			switch o.st {
			case Discharged:
				sum.Discharged++
			default:
				if k, ok := knownByKey[o.Key]; ok && propServes(rule, k.prop) {
					o.Status = "known-finding"
					sum.Known++
					if !matched[o.Key] {
						matched[o.Key] = true
						res.known = append(res.known, fmt.Sprintf("KNOWN-FINDING: property=%s key=%s %s", prop, o.Key, k.text))
					}
					continue
				}
				if o.st == Violated {
					sum.Violated++
				} else {
					sum.Undecided++
				}
				res.violations = append(res.violations, o)
			}
		}
		res.obs = append(res.obs, r.obs...)
		res.rules = append(res.rules, sum)
	}
	// listed findings of this property that were not seen
	for _, k := range known {
		if k.kind != "finding" || matched[k.key] {
			continue
		}
		ruleID, _, _ := strings.Cut(k.key, "|")
		for _, rule := range rules {
			if rule.ID == ruleID && k.prop == prop {
				res.gone = append(res.gone, fmt.Sprintf("KNOWN-FINDING-GONE: property=%s key=%s (listed finding no longer reported; informational)", prop, k.key))
			}
		}
	}
	res.wall = time.Since(start).Seconds()
	return res, nil
}

func propServes(r *Rule, prop string) bool {
	for _, p := range r.Props {
		if p == prop {
			return true
		}
	}
	return false
}

func writeReplay(root, prop string, o *Obligation) string {
	dir := filepath.Join(root, "evidence", "replay")
	_ = os.MkdirAll(dir, 0o755)
	h := sha1.Sum([]byte(o.Key))
	p := filepath.Join(dir, fmt.Sprintf("%s-%x.json", prop, h[:6]))
	b, _ := json.MarshalIndent(map[string]any{
		"property": prop, "rule": o.Rule, "key": o.Key, "status": o.Status, "pos": o.Pos, "detail": o.Detail,
		"replay": fmt.Sprintf("./run.sh --replay %s", p),
	}, "", " ")
	_ = os.WriteFile(p, b, 0o644)
	return p
}

func writeEvidence(root string, res *runResult, seed int) error {
	type sample struct {
		Key    string `json:"obligation"`
		Status string `json:"status"`
		Pos    string `json:"pos,omitempty"`
		Detail string `json:"decided_by,omitempty"`
	}
	disc, nontriv := 0, 0
	distinct := map[string]bool{}
	var samples []sample
	perRule := map[string]int{}
	for _, o := range res.obs {
		if o.st == Discharged {
			disc++
		}
		if o.NonTrivial && !distinct[o.Key] {
			distinct[o.Key] = true
			nontriv++
		}
		if perRule[o.Rule] < 3 || o.st != Discharged {
			perRule[o.Rule]++
			samples = append(samples, sample{o.Key, o.Status, o.Pos, o.Detail})
		}
	}
	var docs []string
	for _, r := range res.rules {
		docs = append(docs, r.Rule+": "+r.Doc)
	}
	w := res.world
	cov := map[string]any{
		"explanation": fmt.Sprintf("Static analysis of /repo's current working tree (go/packages type-checked syntax, go/ssa, dominance/dataflow on the SSA CFG, call graph where noted). "+
			"Each rule is a structural necessary condition of property %s; one obligation per instance found in the code; an obligation is discharged only by a recognised fact (dominating guard, matching sibling, provenance), "+
			"undecided counts as violated. The behaviour itself (values, timing, interleavings) is NOT decided. Rules: %s", res.prop, strings.Join(docs, " || ")),
		"obligations":         len(res.obs),
		"discharged":          disc,
		"evaluations":         len(res.obs),
		"distinct_nontrivial": nontriv,
		"rule":                "one obligation per (rule, function/type, construct) instance discovered in the type-checked program; non-trivial = decided by a dominance/dataflow/provenance/sibling-agreement argument rather than a table lookup; distinct by obligation key",
		"samples":             samples,
		"checker_cmd":         fmt.Sprintf("./run.sh %s %s", res.prop, res.tier),
		"trusted_base":        []string{"go/types, go/ssa, go/packages (x/tools v0.29.0)", "Go language semantics and the documented behaviour of bytes, encoding/binary, sync, sync/atomic, context, math", "the rule tables in /verif/checker (wire-format table, pair table, idiom lists)"},
		"rules":               res.rules,
		"packages_analysed":   w.NPkgs,
		"functions_analysed":  w.NFuncs,
		"callgraph_edges":     w.NEdges,
		"known_findings":      res.known,
		"known_findings_gone": res.gone,
		"exhaustive":          true,
		"notes":               append(append([]string{}, res.notes...), w.Notes...),
	}
	ev := map[string]any{
		"property_id": res.prop,
		"tier":        res.tier,
		"seed":        seed,
		"level":       "other",
		"coverage":    cov,
		"assumptions": []string{
			"analysed configuration: linux/amd64, default build tags, non-test packages under ./tars/... (and the tars2go module where a rule says so)",
			"structural necessary conditions only: a pass means no rule instance is broken on any path of the current source, not that the behaviour holds for all inputs/schedules",
		},
		"wall_s":     res.wall,
		"violations": len(res.violations),
	}
	b, err := json.MarshalIndent(ev, "", " ")
	if err != nil {
		return err
	}
	dir := filepath.Join(root, "evidence")
	_ = os.MkdirAll(dir, 0o755)
	return os.WriteFile(filepath.Join(dir, res.prop+".json"), b, 0o644)
}

func report(res *runResult, root string, verbose bool) int {
	sort.SliceStable(res.violations, func(i, j int) bool { return res.violations[i].Key < res.violations[j].Key })
	fmt.Printf("== %s tier=%s packages=%d functions=%d wall=%.1fs\n", res.prop, res.tier, res.world.NPkgs, res.world.NFuncs, res.wall)
	for _, n := range res.world.Notes {
		fmt.Println("NOTE:", n)
	}
	for _, s := range res.rules {
		fmt.Printf("rule %-8s instances=%-4d discharged=%-4d violated=%d undecided=%d known=%d (min %d)\n", s.Rule, s.Instances, s.Discharged, s.Violated, s.Undecided, s.Known, s.Min)
	}
	if verbose {
		for _, o := range res.obs {
			fmt.Printf("  [%s] %s %s :: %s\n", o.Status, o.Key, o.Pos, o.Detail)
		}
	}
	for _, k := range res.known {
		fmt.Println(k)
	}
	for _, k := range res.gone {
		fmt.Println(k)
	}
	for _, o := range res.violations {
		p := writeReplay(root, res.prop, o)
		fmt.Printf("  %s: %s %s\n     %s\n", o.Status, o.Key, o.Pos, o.Detail)
		fmt.Printf("VIOLATION property=%s replay=%s\n", res.prop, p)
	}
	if len(res.violations) > 0 {
		return 1
	}
	fmt.Printf("OK property=%s: all %d obligations discharged or listed as known findings\n", res.prop, len(res.obs))
	return 0
}
