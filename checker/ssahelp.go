package main

import (
	"fmt"
	"go/constant"
	"go/token"
	"go/types"
	"sort"
	"strings"

	"golang.org/x/tools/go/ssa"
)

// ---- A1 callee resolution ---------------------------------------------------------------------

// calleeObj returns the types.Func called (static callee, or the interface method for invoke
// calls); nil for calls of function values and builtins.
func calleeObj(c *ssa.CallCommon) *types.Func {
	if c.IsInvoke() {
		return c.Method
	}
	if f := c.StaticCallee(); f != nil {
		if o, ok := f.Object().(*types.Func); ok {
			return o
		}
		// closures / synthetic have no object
		return nil
	}
	return nil
}

var ioAlias = map[string]string{
	"io.(ByteReader).ReadByte":      "bytes.(Reader).ReadByte",
	"io.(Reader).Read":              "bytes.(Reader).Read",
	"io.(ByteScanner).UnreadByte":   "bytes.(Reader).UnreadByte",
	"io.(ByteWriter).WriteByte":     "bytes.(Buffer).WriteByte",
	"io.(Writer).Write":             "bytes.(Buffer).Write",
	"io.(StringWriter).WriteString": "bytes.(Buffer).WriteString",
}

// resolveCallee: the declared function a call ends up in, looking through the wrappers go/ssa makes
// for method values (`f := x.m; f()`) and method expressions.
func resolveCallee(c *ssa.CallCommon) *ssa.Function {
	f := c.StaticCallee()
	if f == nil {
		return nil
	}
	if f.Synthetic != "" && (strings.HasSuffix(f.Name(), "$bound") || strings.HasSuffix(f.Name(), "$thunk")) {
		if o, ok := f.Object().(*types.Func); ok && f.Prog != nil {
			if g := f.Prog.FuncValue(o); g != nil {
				return g
			}
		}
	}
	return f
}

// funcID renders a types.Func as "pkgpath.(Recv).Name" (Recv without pointer star) or "pkgpath.Name".
func funcID(o *types.Func) string {
	if o == nil {
		return ""
	}
	sig := o.Type().(*types.Signature)
	pkg := ""
	if o.Pkg() != nil {
		pkg = o.Pkg().Path()
	}
	if r := sig.Recv(); r != nil {
		t := r.Type()
		if p, ok := t.(*types.Pointer); ok {
			t = p.Elem()
		}
		switch n := t.(type) {
		case *types.Named:
			id := pkg + ".(" + n.Obj().Name() + ")." + o.Name()
			// a byte source or sink used through one of io's one-method interfaces is the same primitive
			// as the concrete reader/buffer the codec uses (`func bReadU8(r byteSource, …)`)
			if a, ok := ioAlias[id]; ok {
				return a
			}
			return id
		case *types.Interface:
			return pkg + ".(interface)." + o.Name()
		}
		return pkg + ".(?)." + o.Name()
	}
	return pkg + "." + o.Name()
}

// isCall reports whether instr calls the function identified by id (see funcID). id may use a
// module-relative package path prefixed by "~/" (e.g. "~/tars/protocol/codec.(Reader).Skip").
func callIs(c *ssa.CallCommon, id string) bool {
	if c == nil {
		return false
	}
	if v, ok := strings.CutPrefix(id, "~/"); ok {
		id = modPath + "/" + v
	}
	return funcID(calleeObj(c)) == id
}

func callCommon(i ssa.Instruction) *ssa.CallCommon {
	if ci, ok := i.(ssa.CallInstruction); ok {
		return ci.Common()
	}
	return nil
}

// builtinName returns the name if the call is of a builtin.
func builtinName(c *ssa.CallCommon) string {
	if c == nil {
		return ""
	}
	if b, ok := c.Value.(*ssa.Builtin); ok {
		return b.Name()
	}
	return ""
}

// callArgs returns the call arguments excluding the receiver.
func callArgs(c *ssa.CallCommon) []ssa.Value {
	if c.IsInvoke() {
		return c.Args
	}
	if f := c.StaticCallee(); f != nil && f.Signature.Recv() != nil && len(c.Args) > 0 {
		return c.Args[1:]
	}
	return c.Args
}

// callRecv returns the receiver value (nil for plain functions).
func callRecv(c *ssa.CallCommon) ssa.Value {
	if c.IsInvoke() {
		return c.Value
	}
	if f := c.StaticCallee(); f != nil && f.Signature.Recv() != nil && len(c.Args) > 0 {
		return c.Args[0]
	}
	return nil
}

// ---- iteration --------------------------------------------------------------------------------

func eachInstr(fn *ssa.Function, f func(ssa.Instruction)) {
	for _, b := range fn.Blocks {
		for _, i := range b.Instrs {
			f(i)
		}
	}
}

// eachInstrDeep also visits anonymous functions nested in fn.
func eachInstrDeep(fn *ssa.Function, f func(*ssa.Function, ssa.Instruction)) {
	var rec func(g *ssa.Function)
	rec = func(g *ssa.Function) {
		for _, b := range g.Blocks {
			for _, i := range b.Instrs {
				f(g, i)
			}
		}
		for _, a := range g.AnonFuncs {
			rec(a)
		}
	}
	rec(fn)
}

func instrIndex(i ssa.Instruction) int {
	for k, x := range i.Block().Instrs {
		if x == i {
			return k
		}
	}
	return -1
}

// ---- A2 value identity ------------------------------------------------------------------------

// constInt returns the integer value of a constant.
func constInt(v ssa.Value) (int64, bool) {
	c, ok := v.(*ssa.Const)
	if !ok || c.Value == nil {
		return 0, false
	}
	if c.Value.Kind() != constant.Int {
		return 0, false
	}
	if n, ok := constant.Int64Val(c.Value); ok {
		return n, true
	}
	if u, ok := constant.Uint64Val(c.Value); ok {
		return int64(u), true
	}
	return 0, false
}

func constBool(v ssa.Value) (bool, bool) {
	c, ok := v.(*ssa.Const)
	if !ok || c.Value == nil || c.Value.Kind() != constant.Bool {
		return false, false
	}
	return constant.BoolVal(c.Value), true
}

func constString(v ssa.Value) (string, bool) {
	c, ok := v.(*ssa.Const)
	if !ok || c.Value == nil || c.Value.Kind() != constant.String {
		return "", false
	}
	return constant.StringVal(c.Value), true
}

func isNilConst(v ssa.Value) bool {
	c, ok := v.(*ssa.Const)
	return ok && c.Value == nil
}

// singleStore returns the unique value stored into an Alloc (ignoring zero-inits), if the alloc
// is only used by loads, that one store, and (optionally) closure capture where it is only read.
func singleStore(a *ssa.Alloc) (ssa.Value, bool) {
	var val ssa.Value
	n := 0
	for _, ref := range *a.Referrers() {
		switch r := ref.(type) {
		case *ssa.Store:
			if r.Addr == a {
				n++
				val = r.Val
			} else {
				return nil, false // address escapes by being stored
			}
		case *ssa.UnOp:
			// load
		case *ssa.DebugRef:
		case *ssa.MakeClosure:
			// captured: check closure only loads it
			for bi, b := range r.Bindings {
				if b == a {
					fv := r.Fn.(*ssa.Function).FreeVars[bi]
					for _, fr := range *fv.Referrers() {
						if u, ok := fr.(*ssa.UnOp); !ok || u.Op != token.MUL {
							if _, isDbg := fr.(*ssa.DebugRef); !isDbg {
								return nil, false
							}
						}
					}
				}
			}
		default:
			return nil, false
		}
	}
	if n == 1 {
		return val, true
	}
	return nil, false
}

// strip follows value-preserving wrappers: ChangeType, MakeInterface, ChangeInterface, and loads
// of single-store allocs. With conv=true it also looks through numeric conversions.
func strip(v ssa.Value, conv bool) ssa.Value {
	for i := 0; i < 64; i++ {
		switch x := v.(type) {
		case *ssa.ChangeType:
			v = x.X
		case *ssa.MakeInterface:
			v = x.X
		case *ssa.ChangeInterface:
			v = x.X
		case *ssa.Convert:
			if !conv {
				return v
			}
			v = x.X
		case *ssa.UnOp:
			if x.Op == token.MUL {
				if a, ok := x.X.(*ssa.Alloc); ok {
					if sv, ok := singleStore(a); ok {
						v = sv
						continue
					}
				}
				// a field of a local struct that is written once (locals grouped into a small struct)
				if fa, ok := x.X.(*ssa.FieldAddr); ok {
					if a, ok := fa.X.(*ssa.Alloc); ok {
						if fv, ok := localFieldValue(a, fa.Field, 0); ok {
							v = fv
							continue
						}
					}
				}
			}
			return v
		case *ssa.Field:
			// s.f of a struct value that was assembled in a local
			if ld, ok := x.X.(*ssa.UnOp); ok && ld.Op == token.MUL {
				if a, ok := ld.X.(*ssa.Alloc); ok {
					if fv, ok := localFieldValue(a, x.Field, 0); ok {
						v = fv
						continue
					}
				}
			}
			return v
		default:
			return v
		}
	}
	return v
}

// localFieldValue: the one value field i of the local struct variable a ever holds — a is only used
// through field addresses, whole-value loads and at most one whole-value store (its address goes
// nowhere), and the field is stored exactly once (or comes with the one whole-value store).
func localFieldValue(a *ssa.Alloc, field int, depth int) (ssa.Value, bool) {
	if depth > 4 || a.Referrers() == nil {
		return nil, false
	}
	if _, ok := a.Type().Underlying().(*types.Pointer).Elem().Underlying().(*types.Struct); !ok {
		return nil, false
	}
	var fieldStores []ssa.Value
	var whole []ssa.Value
	for _, ref := range *a.Referrers() {
		switch x := ref.(type) {
		case *ssa.FieldAddr:
			for _, r2 := range *x.Referrers() {
				switch y := r2.(type) {
				case *ssa.Store:
					if y.Addr != ssa.Value(x) {
						return nil, false // the field's address is stored somewhere
					}
					if x.Field == field {
						fieldStores = append(fieldStores, y.Val)
					}
				case *ssa.UnOp:
					if y.Op != token.MUL {
						return nil, false
					}
				case *ssa.DebugRef:
				default:
					return nil, false // address of a field escapes (call argument, …)
				}
			}
		case *ssa.UnOp:
			if x.Op != token.MUL {
				return nil, false
			}
		case *ssa.Store:
			if x.Addr != ssa.Value(a) {
				return nil, false
			}
			whole = append(whole, x.Val)
		case *ssa.DebugRef:
		default:
			return nil, false
		}
	}
	if len(fieldStores) == 1 && len(whole) == 0 {
		return fieldStores[0], true
	}
	if len(fieldStores) == 0 && len(whole) == 1 {
		// the whole value was copied in: look into where it came from
		if ld, ok := whole[0].(*ssa.UnOp); ok && ld.Op == token.MUL {
			if src, ok := ld.X.(*ssa.Alloc); ok {
				return localFieldValue(src, field, depth+1)
			}
		}
	}
	return nil, false
}

// fieldAddrOf: if v is FieldAddr (possibly behind ChangeType) returns the field's types.Var and base.
func fieldAddrOf(v ssa.Value) (*types.Var, ssa.Value, bool) {
	fa, ok := v.(*ssa.FieldAddr)
	if !ok {
		return nil, nil, false
	}
	st := derefStruct(fa.X.Type())
	if st == nil {
		return nil, nil, false
	}
	return st.Field(fa.Field), fa.X, true
}

func derefStruct(t types.Type) *types.Struct {
	if p, ok := t.Underlying().(*types.Pointer); ok {
		t = p.Elem()
	}
	st, _ := t.Underlying().(*types.Struct)
	return st
}

// fieldOwner names the struct type owning a field access: "pkgrel.Type".
func namedOf(t types.Type) *types.Named {
	for {
		switch x := t.(type) {
		case *types.Pointer:
			t = x.Elem()
		case *types.Named:
			return x
		default:
			return nil
		}
	}
}

func typeID(t types.Type) string {
	n := namedOf(t)
	if n == nil {
		return t.String()
	}
	if n.Obj().Pkg() == nil {
		return n.Obj().Name()
	}
	return n.Obj().Pkg().Path() + "." + n.Obj().Name()
}

// isFieldOf reports whether v (a FieldAddr or Field) accesses field `name` of the named struct
// type `tid` ("~/"-relative allowed).
func isFieldOf(v ssa.Value, tid, name string) bool {
	if s, ok := strings.CutPrefix(tid, "~/"); ok {
		tid = modPath + "/" + s
	}
	switch x := v.(type) {
	case *ssa.FieldAddr:
		st := derefStruct(x.X.Type())
		return st != nil && st.Field(x.Field).Name() == name && typeID(x.X.Type()) == tid
	case *ssa.Field:
		st := derefStruct(x.X.Type())
		return st != nil && st.Field(x.Field).Name() == name && typeID(x.X.Type()) == tid
	}
	return false
}

// loadedField: v is a load (*FieldAddr) or a Field; returns field name + owner type id.
func loadedField(v ssa.Value) (owner, name string, base ssa.Value, ok bool) {
	switch x := v.(type) {
	case *ssa.UnOp:
		if x.Op != token.MUL {
			return
		}
		if fa, isFA := x.X.(*ssa.FieldAddr); isFA {
			st := derefStruct(fa.X.Type())
			if st == nil {
				return
			}
			return typeID(fa.X.Type()), st.Field(fa.Field).Name(), fa.X, true
		}
	case *ssa.Field:
		st := derefStruct(x.X.Type())
		if st == nil {
			return
		}
		return typeID(x.X.Type()), st.Field(x.Field).Name(), x.X, true
	}
	return
}

// ---- A3 dominating guards ---------------------------------------------------------------------

// EdgeFact: the If condition `Cond` evaluated to `Taken` on an edge that dominates a block.
type EdgeFact struct {
	Cond  ssa.Value
	Taken bool
	If    *ssa.If
}

// edgeDominates reports whether the edge from->to dominates block b: `to` dominates b and every
// other predecessor of `to` is itself dominated by `to` (a loop back edge).
func edgeDominates(from, to, b *ssa.BasicBlock) bool {
	if !to.Dominates(b) {
		return false
	}
	for _, p := range to.Preds {
		if p == from {
			continue
		}
		if !to.Dominates(p) {
			return false
		}
	}
	// `from` must list `to` only once for the fact to be meaningful
	n := 0
	for _, s := range from.Succs {
		if s == to {
			n++
		}
	}
	return n == 1
}

// facts returns the branch facts that hold whenever control is in block b.
func facts(b *ssa.BasicBlock) []EdgeFact {
	out := directFacts(b)
	return append(out, impliedFacts(out, 0, map[*ssa.Phi]bool{})...)
}

// impliedFacts: a dominating test of a phi whose incoming values are constants / known non-nil values
// tells which predecessor control came through; when only one predecessor is consistent with the
// outcome of the test, everything known on that predecessor (and on its edge into the phi's block)
// is known too. This recovers the guard of
//
//	var e error; if n > remaining { e = errors.New(..) } ; if e != nil { return e }; use(n)
//
// (the shape an extracted-and-expanded checking helper has) for the code after the second test.
func impliedFacts(fs []EdgeFact, depth int, seen map[*ssa.Phi]bool) []EdgeFact {
	if depth > 3 {
		return nil
	}
	var out []EdgeFact
	for _, f := range fs {
		var phi *ssa.Phi
		want := 0 // 1: phi is nil/false, 2: phi is non-nil/true
		if c, ok := normFact(f); ok && (c.Op == token.EQL || c.Op == token.NEQ) {
			x, y := c.X, c.Y
			if isNilConst(x) {
				x, y = y, x
			}
			if p, ok := x.(*ssa.Phi); ok && isNilConst(y) {
				phi = p
				if c.Op == token.EQL {
					want = 1
				} else {
					want = 2
				}
			}
		}
		if phi == nil {
			c, taken := f.Cond, f.Taken
			for {
				if u, ok := c.(*ssa.UnOp); ok && u.Op == token.NOT {
					c, taken = u.X, !taken
					continue
				}
				break
			}
			if p, ok := c.(*ssa.Phi); ok {
				phi = p
				if taken {
					want = 2
				} else {
					want = 1
				}
			}
		}
		if phi == nil || seen[phi] {
			continue
		}
		seen[phi] = true
		var consistent []int
		for i, e := range phi.Edges {
			state := 0
			if isNilConst(e) {
				state = 1
			} else if b, ok := constBool(e); ok {
				if b {
					state = 2
				} else {
					state = 1
				}
			} else if isErrorType(e.Type()) && definitelyNonNilErr(e, nil) {
				state = 2
			} else if e == ssa.Value(phi) {
				// a loop-carried flag that is not assigned on this path: it still has the value under which
				// the loop body was entered
				for _, pf := range directFacts(phi.Block().Preds[i]) {
					c, taken := pf.Cond, pf.Taken
					for {
						if u, ok := c.(*ssa.UnOp); ok && u.Op == token.NOT {
							c, taken = u.X, !taken
							continue
						}
						break
					}
					if c == ssa.Value(phi) {
						if taken {
							state = 2
						} else {
							state = 1
						}
					}
				}
			}
			if state == 0 || state == want {
				consistent = append(consistent, i)
			}
		}
		if len(consistent) != 1 {
			continue
		}
		pred := phi.Block().Preds[consistent[0]]
		var more []EdgeFact
		// the phi has the value of that edge: for `a && b` (phi [false, b]) known true, b is true
		if ev := phi.Edges[consistent[0]]; basicKind(ev.Type()) == types.Bool {
			if _, isConst := ev.(*ssa.Const); !isConst {
				more = append(more, EdgeFact{Cond: ev, Taken: want == 2})
			}
		}
		more = append(more, edgeFactOf(pred, phi.Block())...)
		more = append(more, directFacts(pred)...)
		out = append(out, more...)
		out = append(out, impliedFacts(more, depth+1, seen)...)
	}
	return out
}

func directFacts(b *ssa.BasicBlock) []EdgeFact {
	var out []EdgeFact
	for d := b; d != nil; d = d.Idom() {
		if len(d.Instrs) == 0 {
			continue
		}
		iff, ok := d.Instrs[len(d.Instrs)-1].(*ssa.If)
		if !ok {
			continue
		}
		if d == b {
			continue
		}
		if edgeDominates(d, d.Succs[0], b) {
			out = append(out, EdgeFact{iff.Cond, true, iff})
		} else if edgeDominates(d, d.Succs[1], b) {
			out = append(out, EdgeFact{iff.Cond, false, iff})
		}
	}
	return out
}

// cmpNorm describes `X op C` after normalisation (negation applied when the edge is the false edge).
type cmpNorm struct {
	X  ssa.Value
	Op token.Token // EQL NEQ LSS LEQ GTR GEQ
	Y  ssa.Value
}

func negateOp(op token.Token) token.Token {
	switch op {
	case token.EQL:
		return token.NEQ
	case token.NEQ:
		return token.EQL
	case token.LSS:
		return token.GEQ
	case token.LEQ:
		return token.GTR
	case token.GTR:
		return token.LEQ
	case token.GEQ:
		return token.LSS
	}
	return token.ILLEGAL
}

func swapOp(op token.Token) token.Token {
	switch op {
	case token.LSS:
		return token.GTR
	case token.LEQ:
		return token.GEQ
	case token.GTR:
		return token.LSS
	case token.GEQ:
		return token.LEQ
	}
	return op
}

// normFact turns an edge fact into a comparison that is known to hold; handles `!cond`.
func normFact(f EdgeFact) (cmpNorm, bool) {
	c := f.Cond
	taken := f.Taken
	for {
		if u, ok := c.(*ssa.UnOp); ok && u.Op == token.NOT {
			c = u.X
			taken = !taken
			continue
		}
		break
	}
	// `if ok = a == b; ok {` with ok a named result kept in memory: the test reads back what was just stored
	if ld, isLoad := c.(*ssa.UnOp); isLoad && ld.Op == token.MUL {
		if rs := resolveSpill(c); rs != c {
			if _, isCmp := rs.(*ssa.BinOp); isCmp {
				c = rs
			}
		}
	}
	b, ok := c.(*ssa.BinOp)
	if !ok {
		// a bare boolean condition v: the fact is v == true / v == false
		if bt, isB := c.Type().Underlying().(*types.Basic); isB && bt.Kind() == types.Bool {
			return cmpNorm{c, token.EQL, ssa.NewConst(constant.MakeBool(taken), c.Type())}, true
		}
		return cmpNorm{}, false
	}
	op := b.Op
	switch op {
	case token.EQL, token.NEQ, token.LSS, token.LEQ, token.GTR, token.GEQ:
	default:
		return cmpNorm{}, false
	}
	if !taken {
		op = negateOp(op)
	}
	// normalise comparisons of a bool with a bool constant to `v == const`
	if cb, isC := constBool(b.Y); isC && (op == token.EQL || op == token.NEQ) {
		if op == token.NEQ {
			cb = !cb
		}
		return cmpNorm{b.X, token.EQL, ssa.NewConst(constant.MakeBool(cb), b.X.Type())}, true
	}
	return cmpNorm{b.X, op, b.Y}, true
}

// boolIs: the comparison states that boolean value v equals want.
func (c cmpNorm) boolIs(v ssa.Value, want bool) bool {
	if c.Op != token.EQL || c.X != v {
		return false
	}
	cb, ok := constBool(c.Y)
	return ok && cb == want
}

// boolFact: does a fact state that boolean value v is true/false? (v itself used as condition,
// or compared with a bool constant)
func factOnBool(f EdgeFact, v ssa.Value) (val bool, ok bool) {
	c := f.Cond
	taken := f.Taken
	for {
		if u, isU := c.(*ssa.UnOp); isU && u.Op == token.NOT {
			c = u.X
			taken = !taken
			continue
		}
		break
	}
	if c == v {
		return taken, true
	}
	if b, isB := c.(*ssa.BinOp); isB && (b.Op == token.EQL || b.Op == token.NEQ) {
		var other ssa.Value
		if b.X == v {
			other = b.Y
		} else if b.Y == v {
			other = b.X
		}
		if other != nil {
			if cb, isC := constBool(other); isC {
				r := taken
				if b.Op == token.NEQ {
					r = !r
				}
				if !cb {
					r = !r
				}
				return r, true
			}
		}
	}
	return false, false
}

// ---- A5 path search -----------------------------------------------------------------------------

// instrPos identifies a program point: instruction index k in block b.
type progPoint struct {
	b *ssa.BasicBlock
	k int
}

// reachAvoiding searches forward from just after `start` for an instruction satisfying `target`,
// never passing an instruction satisfying `stop`. Returns the first target found (or nil).
func reachAvoiding(start ssa.Instruction, target, stop func(ssa.Instruction) bool) ssa.Instruction {
	return reachWalk(start.Block(), instrIndex(start)+1, target, stop)
}

// reachFromEntryAvoiding: is there a path from function entry to `target` avoiding `stop`?
func reachFromEntryAvoiding(fn *ssa.Function, target, stop func(ssa.Instruction) bool) ssa.Instruction {
	if len(fn.Blocks) == 0 {
		return nil
	}
	return reachWalk(fn.Blocks[0], 0, target, stop)
}

// reachWalk searches a path from instruction k of block b to a target instruction that does not pass a
// stop instruction. The search is path-correlated for boolean flags: a phi met on the way is resolved
// by the edge the path took, and when its value is a boolean constant (or a phi/negation resolved
// earlier on the path) a later branch on it is followed only in the direction that value dictates.
// So `done := false; for !done { ...; done = true }` or `if bad { failed = true }; if failed { return }`
// do not produce paths that no execution can take.
func reachWalk(b *ssa.BasicBlock, k int, target, stop func(ssa.Instruction) bool) ssa.Instruction {
	return reachWalkEnv(b, k, target, stop, nil)
}

// reachWalkEnv is reachWalk under assumptions about boolean values (e.g. "this call returned true").
func reachWalkEnv(b *ssa.BasicBlock, k int, target, stop func(ssa.Instruction) bool, assume map[ssa.Value]bool) ssa.Instruction {
	type state struct {
		b, from *ssa.BasicBlock
		sig     string
	}
	seen := map[state]bool{}
	var walk func(b, from *ssa.BasicBlock, k int, env map[ssa.Value]bool, depth int) ssa.Instruction
	walk = func(b, from *ssa.BasicBlock, k int, env map[ssa.Value]bool, depth int) ssa.Instruction {
		if depth > 400 {
			return nil
		}
		ne := env
		if k == 0 {
			copied := false
			for _, in := range b.Instrs {
				phi, ok := in.(*ssa.Phi)
				if !ok {
					break
				}
				nilable := isNilable(phi.Type())
				if from == nil || (basicKind(phi.Type()) != types.Bool && !nilable) {
					continue
				}
				for i, p := range b.Preds {
					if p != from {
						continue
					}
					v, known := false, false
					if cb, ok := constBool(phi.Edges[i]); ok {
						v, known = cb, true
					} else if ev, ok := env[phi.Edges[i]]; ok {
						v, known = ev, true
					} else if nilable {
						// for slices, pointers, maps …: true stands for "not nil"
						if isNilConst(phi.Edges[i]) {
							v, known = false, true
						} else if lenPositiveOnEdge(from, b, phi.Edges[i]) {
							v, known = true, true
						}
					}
					if !copied {
						ne = make(map[ssa.Value]bool, len(env)+1)
						for kk, x := range env {
							ne[kk] = x
						}
						copied = true
					}
					if known {
						ne[phi] = v
					} else {
						delete(ne, phi)
					}
				}
			}
			sig := ""
			if len(ne) > 0 {
				var ks []string
				for kk, x := range ne {
					ks = append(ks, fmt.Sprintf("%s=%v", kk.Name(), x))
				}
				sort.Strings(ks)
				sig = strings.Join(ks, ",")
			}
			st := state{b, from, sig}
			if seen[st] {
				return nil
			}
			seen[st] = true
		}
		for ; k < len(b.Instrs); k++ {
			i := b.Instrs[k]
			if stop != nil && stop(i) {
				return nil
			}
			if target(i) {
				return i
			}
		}
		succs := b.Succs
		if iff, ok := b.Instrs[len(b.Instrs)-1].(*ssa.If); ok && len(b.Succs) == 2 {
			c, neg := iff.Cond, false
			for {
				if u, ok := c.(*ssa.UnOp); ok && u.Op == token.NOT {
					c, neg = u.X, !neg
					continue
				}
				break
			}
			if v, ok := ne[c]; ok {
				if v != neg {
					succs = b.Succs[:1]
				} else {
					succs = b.Succs[1:2]
				}
			} else if cmp, ok := c.(*ssa.BinOp); ok && (cmp.Op == token.EQL || cmp.Op == token.NEQ) {
				// x != nil / x == nil with the nil-ness of x known from the way control came
				x, y := cmp.X, cmp.Y
				if isNilConst(x) {
					x, y = y, x
				}
				if nn, ok := ne[x]; ok && isNilConst(y) && isNilable(x.Type()) {
					truth := nn == (cmp.Op == token.NEQ)
					if truth != neg {
						succs = b.Succs[:1]
					} else {
						succs = b.Succs[1:2]
					}
				}
			}
		}
		for _, s := range succs {
			if r := walk(s, b, 0, ne, depth+1); r != nil {
				return r
			}
		}
		return nil
	}
	env0 := map[ssa.Value]bool{}
	// what the dominating branches say about boolean values at the starting point
	for _, f := range directFacts(b) {
		c, taken := f.Cond, f.Taken
		for {
			if u, ok := c.(*ssa.UnOp); ok && u.Op == token.NOT {
				c, taken = u.X, !taken
				continue
			}
			break
		}
		if basicKind(c.Type()) == types.Bool {
			if _, isBin := c.(*ssa.BinOp); !isBin {
				env0[c] = taken
			}
		}
	}
	for kk, x := range assume {
		env0[kk] = x
	}
	return walk(b, nil, k, env0, 0)
}

func isNilable(t types.Type) bool {
	switch t.Underlying().(type) {
	case *types.Slice, *types.Pointer, *types.Map, *types.Chan, *types.Interface, *types.Signature:
		return true
	}
	return false
}

// lenPositiveOnEdge: the branches dominating the edge pred->succ say that len(v) > 0 (so v is not nil).
func lenPositiveOnEdge(pred, succ *ssa.BasicBlock, v ssa.Value) bool {
	if _, ok := v.Type().Underlying().(*types.Slice); !ok {
		return false
	}
	for _, f := range append(directFacts(pred), edgeFactOf(pred, succ)...) {
		c, ok := normFact(f)
		if !ok {
			continue
		}
		x, y, op := c.X, c.Y, c.Op
		if _, isC := constInt(x); isC {
			x, y, op = y, x, swapOp(op)
		}
		k, isK := constInt(y)
		if !isK || !isLenOf2(x, v) {
			continue
		}
		switch {
		case op == token.NEQ && k == 0, op == token.GTR && k >= 0, op == token.GEQ && k >= 1:
			return true
		}
	}
	return false
}

func isReturn(i ssa.Instruction) bool { _, ok := i.(*ssa.Return); return ok }
func isExit(i ssa.Instruction) bool {
	switch i.(type) {
	case *ssa.Return, *ssa.Panic:
		return true
	}
	return false
}

// instrDominates: a executes before b on every path to b (same function).
func instrDominates(a, b ssa.Instruction) bool {
	if a.Block() == b.Block() {
		return instrIndex(a) < instrIndex(b)
	}
	return a.Block().Dominates(b.Block())
}

// ---- misc ---------------------------------------------------------------------------------------

// returnsNonNilError: does the Return return a value that is definitely a non-nil error at result
// index idx (a call to fmt.Errorf / errors.New / a MakeInterface of a non-nil value / a value known
// non-nil by a dominating `!= nil` fact)?
func definitelyNonNilErr(v ssa.Value, at *ssa.BasicBlock) bool {
	v = resolveSpill(v)
	v0 := v
	switch x := v.(type) {
	case *ssa.Call:
		id := funcID(calleeObj(x.Common()))
		if id == "fmt.Errorf" || id == "errors.New" {
			return true
		}
	case *ssa.MakeInterface:
		return true
	case *ssa.Phi:
		for _, e := range x.Edges {
			if !definitelyNonNilErr(e, nil) {
				goto guard
			}
		}
		return true
	}
guard:
	if at != nil {
		for _, f := range facts(at) {
			if c, ok := normFact(f); ok && c.Op == token.NEQ {
				if (c.X == v0 && isNilConst(c.Y)) || (c.Y == v0 && isNilConst(c.X)) {
					return true
				}
			}
		}
	}
	return false
}

func isErrorType(t types.Type) bool {
	return types.Identical(t, types.Universe.Lookup("error").Type())
}

// neverReturns: every path of fn ends in panic or a call to a non-returning function (os.Exit,
// log.Fatal*, or another such function).
func neverReturns(fn *ssa.Function, memo map[*ssa.Function]int) bool {
	if fn == nil {
		return false
	}
	if memo == nil {
		memo = map[*ssa.Function]int{}
	}
	if v, ok := memo[fn]; ok {
		return v == 1
	}
	memo[fn] = 2
	if fn.Blocks == nil {
		id := ""
		if o, ok := fn.Object().(*types.Func); ok {
			id = funcID(o)
		}
		r := id == "os.Exit" || id == "log.Fatal" || id == "log.Fatalf" || id == "log.Fatalln" || id == "runtime.Goexit"
		if r {
			memo[fn] = 1
		}
		return r
	}
	// a Return is reachable from entry without passing a call to a non-returning function?
	r := reachFromEntryAvoiding(fn, isReturn, func(i ssa.Instruction) bool {
		if c, ok := i.(*ssa.Call); ok {
			if sc := c.Call.StaticCallee(); sc != nil && sc != fn && neverReturns(sc, memo) {
				return true
			}
		}
		return false
	})
	if r == nil {
		memo[fn] = 1
		return true
	}
	return false
}

// resolveSpill: functions with defer spill their results into allocs (`*t1 = v; rundefers;
// t = *t1; return t`). If v is a load of an Alloc and a Store to that alloc precedes the load in
// the same block (with no call in between other than rundefers), return the stored value.
func resolveSpill(v ssa.Value) ssa.Value {
	u, ok := v.(*ssa.UnOp)
	if !ok || u.Op != token.MUL {
		return v
	}
	a, ok := u.X.(*ssa.Alloc)
	if !ok {
		return v
	}
	b := u.Block()
	k := instrIndex(u)
	for i := k - 1; i >= 0; i-- {
		switch x := b.Instrs[i].(type) {
		case *ssa.Store:
			if x.Addr == a {
				return x.Val
			}
		case *ssa.RunDefers:
			// deferred functions could assign a named result through a captured variable; only
			// treat the alloc as unaffected when no closure captures it
			for _, ref := range *a.Referrers() {
				if _, isMC := ref.(*ssa.MakeClosure); isMC {
					return v
				}
			}
		case ssa.CallInstruction:
			return v
		}
	}
	return v
}

// pathOf renders the access path of a value ("msg.Req.IRequestId", "adp.resp", "len(cur)"):
// loads, conversions and interface boxing are transparent; spilled parameters and closure
// free variables print under the source variable's name, so the same source expression yields the
// same path in a function and in the closures it creates.
func pathOf(v ssa.Value) string { return pathOfD(v, 0) }

// isFieldLoad: v is the value of a struct field (a load through a field address).
func isFieldLoad(v ssa.Value) bool {
	u, ok := v.(*ssa.UnOp)
	if !ok || u.Op != token.MUL {
		return false
	}
	_, ok = u.X.(*ssa.FieldAddr)
	return ok
}

func pathOfD(v ssa.Value, d int) string {
	if v == nil {
		return "<nil>"
	}
	if d > 12 {
		return "…"
	}
	// a field of a local struct that groups a few values reads as the value it was given
	switch x := v.(type) {
	case *ssa.Field:
		if ld, ok := x.X.(*ssa.UnOp); ok && ld.Op == token.MUL {
			if a, ok := ld.X.(*ssa.Alloc); ok {
				if fv, ok := localFieldValue(a, x.Field, 0); ok {
					return pathOfD(fv, d+1)
				}
			}
		}
	case *ssa.UnOp:
		if fa, ok := x.X.(*ssa.FieldAddr); ok && x.Op == token.MUL {
			if a, ok := fa.X.(*ssa.Alloc); ok {
				if fv, ok := localFieldValue(a, fa.Field, 0); ok {
					return pathOfD(fv, d+1)
				}
			}
		}
	}
	switch x := v.(type) {
	case *ssa.Parameter:
		return x.Name()
	case *ssa.FreeVar:
		// a captured local that only ever holds one field's value reads as that field
		if fn := x.Parent(); fn != nil && fn.Parent() != nil {
			for k, fv := range fn.FreeVars {
				if fv != x {
					continue
				}
				var bound ssa.Value
				eachInstr(fn.Parent(), func(in ssa.Instruction) {
					if mc, ok := in.(*ssa.MakeClosure); ok && mc.Fn == fn && k < len(mc.Bindings) {
						bound = mc.Bindings[k]
					}
				})
				if al, ok := bound.(*ssa.Alloc); ok {
					if sv, ok := singleStore(al); ok && isFieldLoad(sv) {
						return pathOfD(sv, d+1)
					}
				}
			}
		}
		return x.Name()
	case *ssa.Global:
		return x.Name()
	case *ssa.Const:
		if x.Value == nil {
			return "nil"
		}
		return x.Value.ExactString()
	case *ssa.Alloc:
		if sv, ok := singleStore(x); ok {
			if p, isP := sv.(*ssa.Parameter); isP {
				return p.Name()
			}
			// `keys := c.sortedKeys` (kept in memory because a closure reads it): the local names the field
			if isFieldLoad(sv) {
				return pathOfD(sv, d+1)
			}
		}
		if x.Comment != "" {
			return x.Comment
		}
		return x.Name()
	case *ssa.UnOp:
		if x.Op == token.MUL {
			return pathOfD(x.X, d+1)
		}
		return x.Op.String() + pathOfD(x.X, d+1)
	case *ssa.FieldAddr:
		st := derefStruct(x.X.Type())
		if st == nil {
			return pathOfD(x.X, d+1) + ".?"
		}
		return pathOfD(x.X, d+1) + "." + st.Field(x.Field).Name()
	case *ssa.Field:
		st := derefStruct(x.X.Type())
		if st == nil {
			return pathOfD(x.X, d+1) + ".?"
		}
		return pathOfD(x.X, d+1) + "." + st.Field(x.Field).Name()
	case *ssa.IndexAddr:
		return pathOfD(x.X, d+1) + "[" + pathOfD(x.Index, d+1) + "]"
	case *ssa.Index:
		return pathOfD(x.X, d+1) + "[" + pathOfD(x.Index, d+1) + "]"
	case *ssa.Lookup:
		return pathOfD(x.X, d+1) + "[" + pathOfD(x.Index, d+1) + "]"
	case *ssa.Convert:
		return pathOfD(x.X, d+1)
	case *ssa.ChangeType:
		return pathOfD(x.X, d+1)
	case *ssa.MakeInterface:
		return pathOfD(x.X, d+1)
	case *ssa.ChangeInterface:
		return pathOfD(x.X, d+1)
	case *ssa.TypeAssert:
		return pathOfD(x.X, d+1)
	case *ssa.Extract:
		return pathOfD(x.Tuple, d+1) + "#" + string(rune('0'+x.Index))
	case *ssa.Call:
		name := builtinName(&x.Call)
		if name == "" {
			if o := calleeObj(&x.Call); o != nil {
				name = o.Name()
			} else {
				name = "call"
			}
		}
		var as []string
		args := x.Call.Args
		if x.Call.IsInvoke() {
			as = append(as, pathOfD(x.Call.Value, d+1))
		}
		for _, a := range args {
			as = append(as, pathOfD(a, d+1))
		}
		return name + "(" + strings.Join(as, ",") + ")"
	case *ssa.BinOp:
		return "(" + pathOfD(x.X, d+1) + x.Op.String() + pathOfD(x.Y, d+1) + ")"
	case *ssa.Slice:
		lo, hi := "", ""
		if x.Low != nil {
			lo = pathOfD(x.Low, d+1)
		}
		if x.High != nil {
			hi = pathOfD(x.High, d+1)
		}
		return pathOfD(x.X, d+1) + "[" + lo + ":" + hi + "]"
	case *ssa.Phi:
		if x.Comment != "" {
			return x.Comment
		}
	case *ssa.MakeChan:
		return "make(chan)"
	case *ssa.MakeSlice:
		return "make([])"
	case *ssa.MakeMap:
		return "make(map)"
	}
	return v.Name()
}

// isLenLike: v is len(x), possibly converted to another integer type (a length is never negative, so
// every integer conversion of it keeps the value as far as comparisons with small constants go).
func isLenLike(v ssa.Value) bool {
	for i := 0; i < 4; i++ {
		switch x := v.(type) {
		case *ssa.Call:
			return builtinName(&x.Call) == "len"
		case *ssa.Convert:
			v = x.X
			continue
		}
		return false
	}
	return false
}
