package main

import (
	"fmt"
	"go/token"
	"go/types"
	"strings"

	"golang.org/x/tools/go/ssa"
)

func init() {
	register(&Rule{ID: "C04.R1", Props: []string{"C04"}, Min: 15, Needs: NeedMain,
		Doc: "skipField handles every wire type of the table in its own case (none falls into the default) and the default returns a non-nil error",
		Run: func(r *R) {
			if !checkWireConsts(r) {
				return
			}
			fn := r.w.Func(codecPkg, "Reader.skipField")
			if fn == nil {
				r.AnchorMissing("codec.(*Reader).skipField")
				return
			}
			ty := fn.Params[1]
			sets := valueSets(fn, ty, nil)
			idx := errorIndex(fn.Signature)
			// default region: return blocks with a definitely non-nil error whose set contains an invalid type
			var def iset
			for _, rp := range returnPaths(fn) {
				b := rp.from
				if idx >= len(rp.vals) {
					continue
				}
				s := rp.pathSet(sets, trackValue(ty)).intersect(rng(0, 255))
				if !rng(255, 255).subsetOf(s) || s.equal(rng(0, 255)) {
					continue // not type-dependent (e.g. the depth-limit error)
				}
				if definitelyNonNilErr(rp.vals[idx], b) {
					def = def.union(s)
				} else {
					r.Bad(fname(fn), "default", rp.ret.Pos(), "an unknown wire type (e.g. 255) can reach a return without error: the field is not skipped and the reader is desynchronised")
				}
			}
			r.Check(!def.empty(), fname(fn), "default returns error", fn.Pos(), "unknown wire types %s return a non-nil error", "no error return for unknown wire types (set %s)", def)
			for k := int64(0); k < int64(len(wireNames)); k++ {
				r.Check(!rng(k, k).subsetOf(def), fname(fn), "case "+wname(k), fn.Pos(), "wire type %s has its own case", "wire type %s falls into the default (error) branch: a well-formed unknown field of that type cannot be skipped", wname(k))
			}
		}})

	register(&Rule{ID: "C04.R3", Props: []string{"C04"}, Min: 4, Needs: NeedMain,
		Doc: "container skipping consumes exactly the announced entries: the MAP skipper iterates (length x 2) head+field pairs, the LIST skipper (length x 1), the SimpleList skipper requires a BYTE head and skips exactly the announced length",
		Run: func(r *R) {
			fn := r.w.Func(codecPkg, "Reader.skipField")
			readHead := r.w.Func(codecPkg, "Reader.readHead")
			if fn == nil || readHead == nil {
				r.AnchorMissing("codec.(*Reader).skipField/readHead")
				return
			}
			// The container skippers are analysed in line (inline.go expands skipFieldMap/List/SimpleList and
			// any newer helper into skipField): the region of a wire type K is the set of blocks of skipField
			// in which ty is known to be exactly K.
			sets := valueSets(fn, fn.Params[1], nil)
			region := func(k int64) map[*ssa.BasicBlock]bool {
				out := map[*ssa.BasicBlock]bool{}
				for _, b := range fn.Blocks {
					if kk, ok := singleton(sets[b].intersect(rng(0, 255))); ok && kk == k {
						out[b] = true
					}
				}
				return out
			}
			for _, k := range []int64{wMAP, wLIST} {
				reg := region(k)
				want := map[int64]int64{wMAP: 2, wLIST: 1}[k]
				var loops []*natLoop
				for _, l := range loopsOf(fn) {
					if reg[l.head] {
						loops = append(loops, l)
					}
				}
				if len(loops) != 1 {
					r.Undecided(fname(fn), "entry loop of "+wname(k), fn.Pos(), "%d loops in the %s region of skipField (expected one counted loop)", len(loops), wname(k))
					continue
				}
				l := loops[0]
				var mult int64 = -1
				lenOK := false
				if iff, ok := l.head.Instrs[len(l.head.Instrs)-1].(*ssa.If); ok {
					c, _ := iff.Cond.(*ssa.BinOp)
					var bound ssa.Value
					if c != nil && c.Op == token.LSS {
						bound = c.Y
					}
					// counting down: `for n := bound; n > 0; n--`
					if c != nil && c.Op == token.GTR {
						if z, isZ := constInt(c.Y); isZ && z == 0 {
							if phi, isPhi := c.X.(*ssa.Phi); isPhi && phi.Block() == l.head {
								okStep := true
								var init ssa.Value
								for i, e := range phi.Edges {
									if l.body[l.head.Preds[i]] {
										st, isSub := e.(*ssa.BinOp)
										if !isSub || st.Op != token.SUB || st.X != ssa.Value(phi) {
											okStep = false
										} else if k, isK := constInt(st.Y); !isK || k != 1 {
											okStep = false
										}
									} else {
										init = e
									}
								}
								if okStep && init != nil {
									bound = init
								}
							}
						}
					}
					if bound != nil {
						mult = 1
						if m, isM := bound.(*ssa.BinOp); isM && m.Op == token.MUL {
							if kk, okk := constInt(m.Y); okk {
								mult = kk
								bound = m.X
							} else if kk, okk := constInt(m.X); okk {
								mult = kk
								bound = m.Y
							}
						}
						if _, ok := decodedIntSource(fn, bound); ok {
							lenOK = true
						}
					}
				}
				heads, fields := 0, 0
				for b := range l.body {
					for _, in := range b.Instrs {
						if c := callCommon(in); c != nil {
							if c.StaticCallee() == readHead {
								heads++
							}
							if c.StaticCallee() == fn {
								fields++
							}
						}
					}
				}
				r.Check(lenOK && heads == 1 && fields == 1 && mult*int64(heads) == want, fname(fn), "entries per element of "+wname(k), l.head.Instrs[0].Pos(),
					"loop bound = length x %d, one head+field per iteration => %d field(s) per announced element",
					"loop bound multiplier %d with %d head read(s) and %d field skip(s) per iteration; a "+wname(k)+" carries "+fmt.Sprint(want)+" field(s) per announced element (skipping too few/many desynchronises every following field)", mult, heads, fields)
			}
			{
				reg := region(wSimpleList)
				// BYTE head check: the inner head read in the region; success only under tyCur == BYTE
				var tyCur ssa.Value
				eachInstr(fn, func(in ssa.Instruction) {
					if ex, ok := in.(*ssa.Extract); ok && ex.Index == 0 && reg[in.Block()] {
						if c, ok := ex.Tuple.(*ssa.Call); ok && c.Call.StaticCallee() == readHead {
							tyCur = ex
						}
					}
				})
				okHead := false
				if tyCur != nil {
					s2 := valueSets(fn, tyCur, nil)
					idx := errorIndex(fn.Signature)
					okHead = true
					seenRet := false
					for _, rp := range returnPaths(fn) {
						if !reg[rp.from] && !(rp.edgeTo != nil && reg[rp.edgeTo]) {
							// a path that produces its result in the region, or whose producing block is dominated by the head read
							if !tyCur.(*ssa.Extract).Block().Dominates(rp.from) {
								continue
							}
						}
						if !tyCur.(*ssa.Extract).Block().Dominates(rp.from) {
							continue
						}
						seenRet = true
						v := rp.vals[idx]
						if definitelyNonNilErr(v, rp.from) {
							continue
						}
						if !isNilConst(v) {
							continue // propagated error value
						}
						if !rp.pathSet(s2, trackValue(tyCur)).intersect(rng(0, 255)).equal(rng(wBYTE, wBYTE)) {
							okHead = false
						}
					}
					if !seenRet {
						okHead = false
					}
				}
				r.Check(okHead, fname(fn), "SimpleList element head is BYTE", fn.Pos(), "success only when the inner head has type BYTE", "a SimpleList must carry a BYTE head; other types must be an error")
				okSkip := false
				eachInstr(fn, func(in ssa.Instruction) {
					if c, ok := in.(*ssa.Call); ok && reg[in.Block()] && callIs(&c.Call, "~/"+codecPkg+".(Reader).Skip") {
						base, _ := convChain(c.Call.Args[1])
						if _, ok := decodedIntSource(fn, base); ok {
							okSkip = true
						}
					}
				})
				r.Check(okSkip, fname(fn), "SimpleList skips the announced length", fn.Pos(), "Skip(length) with the decoded length", "the byte vector content must be skipped by exactly the decoded length")
			}
		}})

	register(&Rule{ID: "C04.R4", Props: []string{"C04", "C03", "C01"}, Min: 1, Needs: NeedMain,
		Doc: "unreadHead steps back two bytes exactly for the tags for which WriteHead emits two bytes ([15,255]) and one byte otherwise",
		Run: func(r *R) {
			fn := r.w.Func(codecPkg, "Reader.unreadHead")
			if fn == nil {
				r.AnchorMissing("codec.(*Reader).unreadHead")
				return
			}
			// the function depends on nothing but the tag byte: execute it for every one of the 256 tags
			// and count the bytes it steps back
			isUnread := func(c *ssa.CallCommon) bool { return funcID(calleeObj(c)) == "bytes.(Reader).UnreadByte" }
			bad := ""
			for tag := int64(0); tag <= 255 && bad == ""; tag++ {
				n, ok := concreteCount(fn, map[ssa.Value]int64{fn.Params[1]: tag}, isUnread)
				want := 1
				if tag >= 15 {
					want = 2
				}
				if !ok {
					bad = fmt.Sprintf("the number of bytes un-read for tag %d could not be computed (the function depends on more than its tag argument)", tag)
				} else if n != want {
					bad = fmt.Sprintf("tag %d: %d byte(s) un-read, the head of that tag is %d byte(s) long", tag, n, want)
				}
			}
			r.Check(bad == "", fname(fn), "bytes un-read per tag", fn.Pos(), "one byte for tags [0,14], two for tags [15,255] (all 256 tags executed)", "%s; the head is 2 bytes exactly for tags [15,255]", bad)
		}})

	register(&Rule{ID: "C04.R5", Props: []string{"C04"}, Min: 20, Needs: NeedMain,
		Doc: "an absent field is reported as `not found, no error` only when it is optional: every (found=false, err=nil) return of SkipToNoCheck and every nil return of a generated ReadBlock on the not-found branch is control-dependent on require == false",
		Run: func(r *R) {
			fn := r.w.Func(codecPkg, "Reader.SkipToNoCheck")
			if fn == nil {
				r.AnchorMissing("codec.(*Reader).SkipToNoCheck")
				return
			}
			req := fn.Params[2]
			n := 0
			for _, b := range fn.Blocks {
				ret, ok := b.Instrs[len(b.Instrs)-1].(*ssa.Return)
				if !ok || len(ret.Results) != 3 {
					continue
				}
				found, isC := constBool(ret.Results[0])
				if !isC || found || !isNilConst(ret.Results[2]) {
					continue
				}
				n++
				okk := false
				for _, f := range facts(b) {
					if c, ok := normFact(f); ok && c.boolIs(req, false) {
						okk = true
					}
				}
				r.Check(okk, fname(fn), fmt.Sprintf("not-found return %d", n), ret.Pos(), "only on the require == false edge", "returns (found=false, err=nil) although the field may be required: an absent required field is silently accepted")
			}
			// generated ReadBlock
			for _, sp := range r.w.resPkgs() {
				for _, g := range r.w.Funcs(sp) {
					if g.Name() != "ReadBlock" || g.Signature.Recv() == nil || len(g.Params) != 4 {
						continue
					}
					reqP := g.Params[3]
					var have ssa.Value
					eachInstr(g, func(in ssa.Instruction) {
						if ex, ok := in.(*ssa.Extract); ok && ex.Index == 0 {
							if c, ok := ex.Tuple.(*ssa.Call); ok && callIs(&c.Call, "~/"+codecPkg+".(Reader).SkipTo") {
								have = ex
							}
						}
					})
					if have == nil {
						r.Undecided(fname(g), "not-found branch", g.Pos(), "no SkipTo call found")
						continue
					}
					idx := errorIndex(g.Signature)
					okk, seen := true, false
					for _, b := range g.Blocks {
						ret, ok := b.Instrs[len(b.Instrs)-1].(*ssa.Return)
						if !ok {
							continue
						}
						notFound, optional := false, false
						for _, f := range facts(b) {
							if c, ok := normFact(f); ok {
								if c.boolIs(have, false) {
									notFound = true
								}
								if c.boolIs(reqP, false) {
									optional = true
								}
							}
						}
						if !notFound {
							continue
						}
						seen = true
						if !definitelyNonNilErr(ret.Results[idx], b) && !optional {
							okk = false
						}
					}
					r.Check(okk && seen, fname(g), "not-found branch", g.Pos(), "absent struct: error when required, nil only when optional", "an absent required struct is accepted without error")
				}
			}
		}})

	register(&Rule{ID: "C04.R6", Props: []string{"C04"}, Min: 40, Needs: NeedMain,
		Doc: "defaults are installed before reading: in every generated ReadFrom/ReadBlock the call st.ResetDefault() dominates every codec read",
		Run: func(r *R) {
			for _, sp := range r.w.resPkgs() {
				for _, g := range r.w.Funcs(sp) {
					if (g.Name() != "ReadBlock" && g.Name() != "ReadFrom") || g.Signature.Recv() == nil || g.Parent() != nil {
						continue
					}
					if len(g.Params) < 2 || typeID(g.Params[1].Type()) != modPath+"/"+codecPkg+".Reader" {
						continue
					}
					recv := g.Params[0]
					var reset ssa.Instruction
					var firstBad ssa.Instruction
					eachInstr(g, func(in ssa.Instruction) {
						c := callCommon(in)
						if c == nil {
							return
						}
						if o := calleeObj(c); o != nil && o.Name() == "ResetDefault" && len(c.Args) > 0 && c.Args[0] == recv {
							if reset == nil {
								reset = in
							}
						}
					})
					eachInstr(g, func(in ssa.Instruction) {
						c, ok := in.(*ssa.Call)
						if !ok || !isReadPrimitive(&c.Call) {
							return
						}
						if reset == nil || !instrDominates(reset, in) {
							if firstBad == nil {
								firstBad = in
							}
						}
					})
					pos := g.Pos()
					if firstBad != nil {
						pos = firstBad.Pos()
					}
					r.Check(reset != nil && firstBad == nil, fname(g), "ResetDefault before reads", pos, "st.ResetDefault() dominates every read", "a field is read before (or without) st.ResetDefault(): an absent optional field keeps whatever the struct held before")
				}
			}
		}})
}

var _ = types.Typ

// boolKnownAt: the boolean value v is known to equal want at the entry of block b (dominating branch
// on v itself or on !v).
func boolKnownAt(v ssa.Value, want bool, b *ssa.BasicBlock) bool {
	for _, f := range facts(b) {
		c, taken := f.Cond, f.Taken
		for {
			if u, ok := c.(*ssa.UnOp); ok && u.Op == token.NOT {
				c, taken = u.X, !taken
				continue
			}
			break
		}
		if c == v && taken == want {
			return true
		}
	}
	return false
}

// derivesFromLoadOf: v is computed (conversions, arithmetic, comparisons, phis) from a load of addr.
func derivesFromLoadOf(v ssa.Value, addr ssa.Value, depth int) bool {
	if depth > 8 || v == nil {
		return false
	}
	switch x := v.(type) {
	case *ssa.UnOp:
		if x.Op == token.MUL {
			return x.X == addr
		}
		return derivesFromLoadOf(x.X, addr, depth+1)
	case *ssa.Convert:
		return derivesFromLoadOf(x.X, addr, depth+1)
	case *ssa.ChangeType:
		return derivesFromLoadOf(x.X, addr, depth+1)
	case *ssa.BinOp:
		return derivesFromLoadOf(x.X, addr, depth+1) || derivesFromLoadOf(x.Y, addr, depth+1)
	case *ssa.Phi:
		for _, e := range x.Edges {
			if derivesFromLoadOf(e, addr, depth+1) {
				return true
			}
		}
	case *ssa.Call:
		// math.Float32bits(*data) and friends
		for _, a := range x.Call.Args {
			if derivesFromLoadOf(a, addr, depth+1) {
				return true
			}
		}
	}
	return false
}

// controlledByLoadOf: block b is entered only through a branch whose condition derives from a load of addr.
func controlledByLoadOf(b *ssa.BasicBlock, addr ssa.Value) bool {
	for _, f := range facts(b) {
		if derivesFromLoadOf(f.Cond, addr, 0) {
			return true
		}
	}
	return false
}

func init() {
	register(&Rule{ID: "C04.R7", Props: []string{"C04", "C03"}, Min: 12, Needs: NeedMain,
		Doc: "an absent optional field leaves the target untouched: in every Reader.ReadX(data, tag, require) each store through data is either dominated by `have == true` of the tag search, or goes through a temporary handed to a narrower/wider reader that was seeded from *data before the delegation (so that `not found` writes the old value back), never from a zero temporary",
		Run: func(r *R) {
			sp := r.w.Pkg(codecPkg)
			if sp == nil {
				r.AnchorMissing("package codec")
				return
			}
			for _, fn := range r.w.Funcs(sp) {
				if fn.Signature.Recv() == nil || typeID(fn.Signature.Recv().Type()) != modPath+"/"+codecPkg+".Reader" || len(fn.Params) != 4 {
					continue
				}
				data, tag, req := fn.Params[1], fn.Params[2], fn.Params[3]
				if _, isPtr := data.Type().Underlying().(*types.Pointer); !isPtr || basicKind(tag.Type()) != types.Uint8 || basicKind(req.Type()) != types.Bool {
					continue
				}
				// the tag search of a direct reader, the delegation of a wrapping reader
				var have ssa.Value
				var deleg *ssa.Call
				var tmp *ssa.Alloc
				eachInstr(fn, func(in ssa.Instruction) {
					c, ok := in.(*ssa.Call)
					if !ok {
						return
					}
					sc := c.Call.StaticCallee()
					if sc == nil || sc.Signature.Recv() == nil || typeID(sc.Signature.Recv().Type()) != modPath+"/"+codecPkg+".Reader" {
						return
					}
					n := len(c.Call.Args)
					if n < 3 || c.Call.Args[n-2] != ssa.Value(tag) || c.Call.Args[n-1] != ssa.Value(req) {
						return
					}
					if strings.HasPrefix(sc.Name(), "SkipTo") {
						for _, ref := range *c.Referrers() {
							if e, ok := ref.(*ssa.Extract); ok && e.Index == 0 {
								have = e
							}
						}
						return
					}
					if a, ok := c.Call.Args[1].(*ssa.Alloc); ok {
						deleg, tmp = c, a
					}
				})
				var stores []*ssa.Store
				eachInstr(fn, func(in ssa.Instruction) {
					if st, ok := in.(*ssa.Store); ok && st.Addr == ssa.Value(data) {
						stores = append(stores, st)
					}
				})
				for i, st := range stores {
					what := fmt.Sprintf("store #%d through data keeps an absent field's value", i+1)
					switch {
					case have != nil && boolKnownAt(have, true, st.Block()):
						r.OK(fname(fn), what, st.Pos(), "dominated by have == true")
					case deleg != nil && tmp != nil && (derivesFromLoadOf(st.Val, tmp, 0) || controlledByLoadOf(st.Block(), tmp)):
						seeded := false
						conditional := true
						n := 0
						for _, ref := range *tmp.Referrers() {
							s2, ok := ref.(*ssa.Store)
							if !ok || s2.Addr != ssa.Value(tmp) || !reachesInstr(s2, deleg) {
								continue
							}
							n++
							if derivesFromLoadOf(s2.Val, data, 0) && instrDominates(s2, deleg) {
								seeded = true
							}
							if !controlledByLoadOf(s2.Block(), data) {
								conditional = false
							}
						}
						okSeed := seeded || (n > 0 && conditional)
						r.Check(okSeed, fname(fn), what, st.Pos(), "the temporary handed to "+deleg.Call.StaticCallee().Name()+" is seeded from *data", "the value written back comes from a temporary that is not initialised from *data before %s fills it: when the field is absent the zero temporary overwrites the default the caller installed", deleg.Call.StaticCallee().Name())
					default:
						r.Bad(fname(fn), what, st.Pos(), "this store through data is neither dominated by `have == true` nor fed by a temporary seeded from *data: an absent optional field does not keep its default")
					}
				}
			}
		}})
}

// reachesInstr: instruction a can execute before b (same function): a's block reaches b's block, or same block earlier.
func reachesInstr(a, b ssa.Instruction) bool {
	if a.Block() == b.Block() {
		return instrIndex(a) < instrIndex(b)
	}
	seen := map[*ssa.BasicBlock]bool{}
	var walk func(x *ssa.BasicBlock) bool
	walk = func(x *ssa.BasicBlock) bool {
		if x == b.Block() {
			return true
		}
		if seen[x] {
			return false
		}
		seen[x] = true
		for _, s := range x.Succs {
			if walk(s) {
				return true
			}
		}
		return false
	}
	return walk(a.Block())
}

// concreteCount executes fn on concrete integer arguments and counts the calls selected by target.
// Only integer/boolean computation on the arguments and constants is interpreted; any branch that
// depends on something else makes the result unknown (ok=false).
func concreteCount(fn *ssa.Function, args map[ssa.Value]int64, target func(*ssa.CallCommon) bool) (int, bool) {
	vals := map[ssa.Value]int64{}
	for k, v := range args {
		vals[k] = v
	}
	var eval func(v ssa.Value) (int64, bool)
	trunc := func(x int64, t types.Type) int64 {
		b, ok := t.Underlying().(*types.Basic)
		if !ok {
			return x
		}
		switch b.Kind() {
		case types.Int8:
			return int64(int8(x))
		case types.Int16:
			return int64(int16(x))
		case types.Int32:
			return int64(int32(x))
		case types.Uint8:
			return int64(uint8(x))
		case types.Uint16:
			return int64(uint16(x))
		case types.Uint32:
			return int64(uint32(x))
		}
		return x
	}
	eval = func(v ssa.Value) (int64, bool) {
		if x, ok := vals[v]; ok {
			return x, true
		}
		if k, ok := constInt(v); ok {
			return k, true
		}
		if b, ok := constBool(v); ok {
			if b {
				return 1, true
			}
			return 0, true
		}
		return 0, false
	}
	b := fn.Blocks[0]
	var prev *ssa.BasicBlock
	count := 0
	for steps := 0; steps < 4096; steps++ {
		for _, in := range b.Instrs {
			switch x := in.(type) {
			case *ssa.Phi:
				for i, p := range b.Preds {
					if p == prev {
						if v, ok := eval(x.Edges[i]); ok {
							vals[x] = v
						} else {
							delete(vals, x)
						}
					}
				}
			case *ssa.BinOp:
				a, ok1 := eval(x.X)
				c, ok2 := eval(x.Y)
				if !ok1 || !ok2 {
					delete(vals, x)
					continue
				}
				var rr int64
				bl := func(t bool) int64 {
					if t {
						return 1
					}
					return 0
				}
				switch x.Op {
				case token.ADD:
					rr = trunc(a+c, x.Type())
				case token.SUB:
					rr = trunc(a-c, x.Type())
				case token.MUL:
					rr = trunc(a*c, x.Type())
				case token.AND:
					rr = a & c
				case token.OR:
					rr = a | c
				case token.SHL:
					rr = trunc(a<<uint(c&63), x.Type())
				case token.SHR:
					rr = a >> uint(c&63)
				case token.EQL:
					rr = bl(a == c)
				case token.NEQ:
					rr = bl(a != c)
				case token.LSS:
					rr = bl(a < c)
				case token.LEQ:
					rr = bl(a <= c)
				case token.GTR:
					rr = bl(a > c)
				case token.GEQ:
					rr = bl(a >= c)
				default:
					delete(vals, x)
					continue
				}
				vals[x] = rr
			case *ssa.UnOp:
				if a, ok := eval(x.X); ok && x.Op == token.NOT {
					vals[x] = 1 - a
				} else if ok && x.Op == token.SUB {
					vals[x] = trunc(-a, x.Type())
				} else {
					delete(vals, x)
				}
			case *ssa.Convert:
				if a, ok := eval(x.X); ok {
					vals[x] = trunc(a, x.Type())
				} else {
					delete(vals, x)
				}
			case *ssa.ChangeType:
				if a, ok := eval(x.X); ok {
					vals[x] = a
				}
			case *ssa.Call:
				if target(&x.Call) {
					count++
				}
			case *ssa.Defer, *ssa.Go:
				return 0, false
			}
		}
		switch t := b.Instrs[len(b.Instrs)-1].(type) {
		case *ssa.Return:
			return count, true
		case *ssa.If:
			cv, ok := eval(t.Cond)
			if !ok {
				return 0, false
			}
			prev = b
			if cv != 0 {
				b = b.Succs[0]
			} else {
				b = b.Succs[1]
			}
		case *ssa.Jump:
			prev = b
			b = b.Succs[0]
		default:
			return 0, false
		}
	}
	return 0, false
}

// retPoint: one way a function result is produced: the value and the block control comes from when it
// is chosen (a result merged by phis is split into its incoming edges).
type retPoint struct {
	ret  *ssa.Return
	val  ssa.Value
	from *ssa.BasicBlock
}

func returnPoints(fn *ssa.Function, idx int) []retPoint {
	var out []retPoint
	for _, b := range fn.Blocks {
		ret, ok := b.Instrs[len(b.Instrs)-1].(*ssa.Return)
		if !ok || idx >= len(ret.Results) {
			continue
		}
		var expand func(v ssa.Value, from *ssa.BasicBlock, depth int)
		expand = func(v ssa.Value, from *ssa.BasicBlock, depth int) {
			if phi, ok := v.(*ssa.Phi); ok && depth < 4 && (phi.Block() == from || phi.Block().Dominates(from)) {
				for i, e := range phi.Edges {
					expand(e, phi.Block().Preds[i], depth+1)
				}
				return
			}
			out = append(out, retPoint{ret, v, from})
		}
		expand(ret.Results[idx], b, 0)
	}
	return out
}
