package main

import (
	"go/types"
	"sort"

	"golang.org/x/tools/go/ssa"
)

// A8: lockset for struct types embedding sync.RWMutex / sync.Mutex.

type lockState int

const (
	lkNone lockState = iota
	lkR
	lkW
	lkUnknown // not yet computed (top for the meet)
)

func (s lockState) String() string {
	return [...]string{"no lock", "read lock", "write lock", "?"}[s]
}

func meetLock(a, b lockState) lockState {
	if a == lkUnknown {
		return b
	}
	if b == lkUnknown {
		return a
	}
	if a < b {
		return a
	}
	return b
}

// lockOpOn: call is Lock/RLock/Unlock/RUnlock on the mutex embedded in (or a field of) recv.
func lockOpOn(c *ssa.CallCommon, isRecv func(ssa.Value) bool) string {
	o := calleeObj(c)
	if o == nil || o.Pkg() == nil || o.Pkg().Path() != "sync" {
		return ""
	}
	n := o.Name()
	if n != "Lock" && n != "RLock" && n != "Unlock" && n != "RUnlock" {
		return ""
	}
	if len(c.Args) == 0 {
		return ""
	}
	a := c.Args[0]
	// &recv.RWMutex
	if fa, ok := a.(*ssa.FieldAddr); ok && isRecv(fa.X) {
		return n
	}
	return ""
}

type lockAnalysis struct {
	w       *World
	nt      *types.Named
	methods []*ssa.Function
	entry   map[*ssa.Function]lockState
	at      map[ssa.Instruction]lockState
}

func recvOf(fn *ssa.Function) ssa.Value {
	root := fn
	for root.Parent() != nil {
		root = root.Parent()
	}
	if root.Signature.Recv() == nil || len(root.Params) == 0 {
		return nil
	}
	return root.Params[0]
}

// isRecvValue: v denotes the receiver of the (root) method fn belongs to: the parameter, a load of
// its spill, or the corresponding free variable in a closure.
func isRecvValue(fn *ssa.Function, v ssa.Value) bool {
	root := fn
	for root.Parent() != nil {
		root = root.Parent()
	}
	if root.Signature.Recv() == nil || len(root.Params) == 0 {
		return false
	}
	name := root.Params[0].Name()
	v = strip(v, false)
	switch x := v.(type) {
	case *ssa.Parameter:
		return x == root.Params[0]
	case *ssa.FreeVar:
		return x.Name() == name
	case *ssa.UnOp:
		if fv, ok := x.X.(*ssa.FreeVar); ok {
			return fv.Name() == name
		}
		if a, ok := x.X.(*ssa.Alloc); ok {
			if sv, ok := singleStore(a); ok {
				return sv == ssa.Value(root.Params[0])
			}
		}
	}
	return false
}

func newLockAnalysis(w *World, sp *ssa.Package, nt *types.Named) *lockAnalysis {
	la := &lockAnalysis{w: w, nt: nt, entry: map[*ssa.Function]lockState{}, at: map[ssa.Instruction]lockState{}}
	for _, fn := range w.Funcs(sp) {
		root := fn
		for root.Parent() != nil {
			root = root.Parent()
		}
		if root.Signature.Recv() != nil && namedOf(root.Signature.Recv().Type()) == nt {
			la.methods = append(la.methods, fn)
		}
	}
	sort.Slice(la.methods, func(i, j int) bool { return fname(la.methods[i]) < fname(la.methods[j]) })
	for _, fn := range la.methods {
		if fn.Parent() == nil && fn.Object() != nil && fn.Object().Exported() {
			la.entry[fn] = lkNone
		} else {
			la.entry[fn] = lkUnknown
		}
	}
	// iterate: helpers and closures inherit the state of their call / creation sites
	for iter := 0; iter < 6; iter++ {
		next := map[*ssa.Function]lockState{}
		for _, fn := range la.methods {
			if la.entry[fn] == lkUnknown {
				continue
			}
			la.flow(fn, func(in ssa.Instruction, st lockState) {
				var callee *ssa.Function
				if c := callCommon(in); c != nil {
					if _, isGo := in.(*ssa.Go); !isGo {
						callee = c.StaticCallee()
					}
				}
				if mc, ok := in.(*ssa.MakeClosure); ok {
					callee = mc.Fn.(*ssa.Function)
				}
				if callee == nil {
					return
				}
				if _, ours := la.entry[callee]; !ours {
					return
				}
				if callee.Parent() == nil && callee.Object() != nil && callee.Object().Exported() {
					return
				}
				if cur, ok := next[callee]; ok {
					next[callee] = meetLock(cur, st)
				} else {
					next[callee] = st
				}
			})
		}
		changed := false
		for f, st := range next {
			if la.entry[f] != st {
				la.entry[f] = st
				changed = true
			}
		}
		if !changed {
			break
		}
	}
	for _, fn := range la.methods {
		if la.entry[fn] == lkUnknown {
			continue // unreachable helper
		}
		la.flow(fn, func(in ssa.Instruction, st lockState) { la.at[in] = st })
	}
	return la
}

// flow runs the forward lock-state dataflow over fn and reports the state before each instruction.
func (la *lockAnalysis) flow(fn *ssa.Function, visit func(ssa.Instruction, lockState)) {
	if len(fn.Blocks) == 0 {
		return
	}
	in := map[*ssa.BasicBlock]lockState{}
	for _, b := range fn.Blocks {
		in[b] = lkUnknown
	}
	in[fn.Blocks[0]] = la.entry[fn]
	isRecv := func(v ssa.Value) bool { return isRecvValue(fn, v) }
	transfer := func(b *ssa.BasicBlock, st lockState, emit bool) lockState {
		for _, i := range b.Instrs {
			if emit {
				visit(i, st)
			}
			if _, isDefer := i.(*ssa.Defer); isDefer {
				continue // deferred unlock: lock stays held until the function exits
			}
			if c := callCommon(i); c != nil {
				switch lockOpOn(c, isRecv) {
				case "Lock":
					st = lkW
				case "RLock":
					st = lkR
				case "Unlock", "RUnlock":
					st = lkNone
				}
			}
		}
		return st
	}
	work := []*ssa.BasicBlock{fn.Blocks[0]}
	for len(work) > 0 {
		b := work[len(work)-1]
		work = work[:len(work)-1]
		out := transfer(b, in[b], false)
		for _, s := range b.Succs {
			nw := meetLock(in[s], out)
			if nw != in[s] {
				in[s] = nw
				work = append(work, s)
			}
		}
	}
	for _, b := range fn.Blocks {
		if in[b] != lkUnknown {
			transfer(b, in[b], true)
		}
	}
}
