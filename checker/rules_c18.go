package main

import (
	"fmt"
	"go/token"
	"go/types"
	"sort"
	"strings"

	"golang.org/x/tools/go/ssa"
)

const endpointPkg = "tars/util/endpoint"

// literalStores: field name -> stored value for a composite literal / local struct of type tid in fn.
func literalStores(fn *ssa.Function, tid string) map[string]ssa.Value {
	out := map[string]ssa.Value{}
	eachInstr(fn, func(in ssa.Instruction) {
		st, ok := in.(*ssa.Store)
		if !ok {
			return
		}
		fv, base, ok := fieldAddrOf(st.Addr)
		if !ok || typeID(base.Type()) != tid {
			return
		}
		if _, isAlloc := strip(base, false).(*ssa.Alloc); !isAlloc {
			if _, isAlloc2 := base.(*ssa.Alloc); !isAlloc2 {
				return
			}
		}
		out[fv.Name()] = st.Val
	})
	return out
}

func init() {
	register(&Rule{ID: "C18.R1", Props: []string{"C18"}, Min: 2, Needs: NeedMain,
		Doc: "no string crashes the endpoint parser: every index/slice operation in package endpoint is dominated by a length guard (the protocol prefix and the field list of an arbitrary string may be shorter than assumed)",
		Run: func(r *R) { checkPackageIndexes(r, endpointPkg, nil) }})

	register(&Rule{ID: "C18.R2", Props: []string{"C18"}, Min: 20, Needs: NeedMain,
		Doc: "conversions copy field by field: in Tars2endpoint and Endpoint2tars each of Host, Port, Timeout, Istcp, Grid, Qos, Weight, WeightType, AuthType, SetId of the result is the same-named field of the argument; the transport name derived from Istcp is \"udp\" exactly for UDP and \"tcp\" otherwise (as the string parser does for tcp and ssl)",
		Run: func(r *R) {
			fields := []string{"Host", "Port", "Timeout", "Istcp", "Grid", "Qos", "Weight", "WeightType", "AuthType", "SetId"}
			for _, spec := range []struct{ fn, tid string }{
				{"Tars2endpoint", modPath + "/" + endpointPkg + ".Endpoint"},
				{"Endpoint2tars", modPath + "/tars/protocol/res/endpointf.EndpointF"}} {
				fn := r.w.Func(endpointPkg, spec.fn)
				if fn == nil {
					r.AnchorMissing("endpoint." + spec.fn)
					continue
				}
				arg := fn.Params[0]
				st := literalStores(fn, spec.tid)
				for _, f := range fields {
					v := st[f]
					want := arg.Name() + "." + f
					got := "<not set>"
					if v != nil {
						got = pathOf(v)
					}
					r.Check(got == want, fname(fn), "result."+f, fn.Pos(), "%s <- %s", "result.%s is set from %s, the conversion must copy %s: the round trip through the registry structure changes the endpoint", f, got, want)
				}
				if spec.fn == "Tars2endpoint" {
					okk, why := true, ""
					argT := fn.Params[0].Type()
					for _, kind := range []struct {
						name string
						want string
					}{{"UDP", "udp"}, {"TCP", "tcp"}, {"SSL", "tcp"}} {
						k, okc := namedConstInt(r.w.Pkg(endpointPkg), kind.name)
						if !okc {
							okk, why = false, "constant "+kind.name+" is gone"
							break
						}
						in := unknownStruct(argT)
						setStructField(&in, argT, "Istcp", cInt(k))
						runs, complete := cEnumerate(r.w, fn, []cv{in}, nil, 64)
						if !complete {
							okk, why = false, "evaluation of Tars2endpoint is not complete"
							break
						}
						for _, run := range runs {
							got := structField(run.res, fn.Signature.Results().At(0).Type(), "Proto")
							if eq, kn := (&cinterp{}).ceq(got, cStr(kind.want)); run.abort != "" || !kn || !eq {
								okk, why = false, fmt.Sprintf("for Istcp == %s the Proto is %s%s, expected %q", kind.name, got, run.abort, kind.want)
							}
						}
					}
					r.Check(okk, fname(fn), "Proto from Istcp", fn.Pos(), "\"udp\" exactly for Istcp == UDP, \"tcp\" otherwise (tcp and ssl)", "%s: an ssl endpoint from the registry gets another Proto (and cache key) than the same endpoint parsed from its string", why)
				}
			}
		}})

	register(&Rule{ID: "C18.R3", Props: []string{"C18"}, Min: 2, Needs: NeedMain,
		Doc: "one definition of the cache key: every store to Endpoint.Key in the program assigns String() of the very value being built",
		Run: func(r *R) {
			tid := modPath + "/" + endpointPkg + ".Endpoint"
			n := 0
			for _, sp := range r.w.SSA {
				for _, fn := range r.w.Funcs(sp) {
					eachInstr(fn, func(in ssa.Instruction) {
						st, ok := in.(*ssa.Store)
						if !ok || !isFieldOf(st.Addr, tid, "Key") {
							return
						}
						n++
						okk := false
						if c, isC := st.Val.(*ssa.Call); isC {
							if o := calleeObj(&c.Call); o != nil && o.Name() == "String" && strings.HasSuffix(funcID(o), "(Endpoint).String") {
								// receiver is (a load of) the struct whose Key is stored
								base := st.Addr.(*ssa.FieldAddr).X
								if pathOf(c.Call.Args[0]) == pathOf(base) {
									okk = true
								}
							}
						}
						r.Check(okk, fname(fn), "Key = String() of the same value", in.Pos(), "Key is the canonical String() of the endpoint", "Endpoint.Key is assigned %s: two descriptions of the same endpoint get different cache keys", pathOf(st.Val))
					})
				}
			}
			if n < 2 {
				r.Bad("program", "Key stores", token.NoPos, "found %d stores to Endpoint.Key (expected Parse and Tars2endpoint)", n)
			}
		}})

	register(&Rule{ID: "C18.R4", Props: []string{"C18"}, Min: 12, Needs: NeedMain,
		Doc: "parser tables: the option flags and their defaults are h \"\", p 0, t 3000, g 0, q 0, w -1, v 0, e 0, b \"\"; the weight is normalised to 100 exactly when a weight type is set and the weight is -1 or above 100; each parsed option lands in its own field; for every class of input string (tcp…, ssl…, any other word, shorter strings) and on every path Parse yields tcp -> Istcp 1, ssl -> Istcp 2 with Proto tcp, anything else Istcp 0 with the word kept, and does not panic (finite case-split evaluation, A15)",
		Run: func(r *R) {
			fn := r.w.Func(endpointPkg, "Parse")
			if fn == nil {
				r.AnchorMissing("endpoint.Parse")
				return
			}
			wantDef := map[string]string{"h": `""`, "p": "0", "t": "3000", "g": "0", "q": "0", "w": "-1", "v": "0", "e": "0", "b": `""`}
			wantField := map[string]string{"h": "Host", "p": "Port", "t": "Timeout", "g": "Grid", "q": "Qos", "w": "Weight", "v": "WeightType", "e": "AuthType", "b": "Bind"}
			varOfFlag := map[string]string{}
			seen := map[string]bool{}
			eachInstr(fn, func(in ssa.Instruction) {
				c, ok := in.(*ssa.Call)
				if !ok {
					return
				}
				id := funcID(calleeObj(&c.Call))
				if id != "flag.(FlagSet).IntVar" && id != "flag.(FlagSet).StringVar" {
					return
				}
				name, _ := constString(c.Call.Args[2])
				def := pathOf(c.Call.Args[3])
				seen[name] = true
				varOfFlag[name] = pathOf(c.Call.Args[1])
				r.Check(wantDef[name] == def, fname(fn), "flag -"+name+" default", in.Pos(), "default %s", "option -%s has default %s, documented default is %s", map[bool]any{true: def, false: name}[wantDef[name] == def], def, wantDef[name])
			})
			var miss []string
			for n := range wantDef {
				if !seen[n] {
					miss = append(miss, n)
				}
			}
			sort.Strings(miss)
			if len(miss) > 0 {
				r.Bad(fname(fn), "flag table", fn.Pos(), "options %v are not registered", miss)
			}
			// each option lands in its field
			st := literalStores(fn, modPath+"/"+endpointPkg+".Endpoint")
			for flagName, field := range wantField {
				v := st[field]
				got := "<not set>"
				if v != nil {
					got = pathOf(v)
				}
				want := varOfFlag[flagName]
				// weight goes through the normalisation phi
				okk := want != "" && (got == want || (field == "Weight" && v != nil))
				r.Check(okk, fname(fn), "option -"+flagName+" -> "+field, fn.Pos(), "%s <- %s", "field %s is set from %s, option -%s is parsed into %s", field, got, flagName, want)
			}
			// weight normalisation: the constant 100 is stored into `weight` exactly for weightType != 0 && (weight == -1 || weight > 100)
			wPath, vPath := varOfFlag["w"], varOfFlag["v"]
			isW := func(e ssa.Value) bool { return pathOf(e) == wPath }
			wsets := valueSetsAssuming(fn, types.Typ[types.Int], isW, nil)
			found := false
			eachInstr(fn, func(in ssa.Instruction) {
				stw, ok := in.(*ssa.Store)
				if !ok || pathOf(stw.Addr) != wPath {
					return
				}
				// the stored value may be chosen by branches (weight = normalise(...) written in line): look at
				// every way it is produced; a way that stores the old weight back changes nothing
				var got iset
				typedAll, anyConst := true, false
				kk := int64(100)
				for _, vp := range splitPaths([]ssa.Value{stw.Val}, in.Block()) {
					k, isK := constInt(vp.vals[0])
					if !isK {
						continue // the old weight written back, or the parsed value itself
					}
					anyConst = true
					if k != 100 {
						kk = k
					}
					typed := false
					for _, f := range vp.pathFacts() {
						if c, okc := normFact(f); okc && pathOf(c.X) == vPath && c.Op == token.NEQ {
							if z, isZ := constInt(c.Y); isZ && z == 0 {
								typed = true
							}
						}
					}
					if !typed {
						typedAll = false
					}
					got = got.union(vp.pathSet(wsets, isW))
				}
				if !anyConst {
					return
				}
				found = true
				want := rng(-1, -1).union(rng(101, posInf))
				okN := kk == 100 && typedAll && got.equal(want)
				r.Check(okN, fname(fn), "weight normalisation", in.Pos(), "weight := 100 for weightType != 0 and weight ∈ %s", "weight is rewritten to %d for weight ∈ %s (weightType!=0: %v); the documented rule is: weight type set and weight == -1 or > 100 -> 100 (an explicit weight such as 0 must be kept)", map[bool]any{true: got, false: kk}[okN], got, typedAll)
			})
			if !found {
				r.Bad(fname(fn), "weight normalisation", fn.Pos(), "no normalisation of the weight found")
			}
			// protocol -> Istcp / Proto: evaluated for every class of input string (A15)
			const word = 1
			type inCase struct {
				in    cv
				proto cv
				istcp int64
				what  string
			}
			atom := func(n int, tail bool) cv { return cv{k: 's', atom: word, alen: n, tail: tail} }
			cases := []inCase{
				{cv{k: 's', s: "tcp", tail: true}, cStr("tcp"), 1, `"tcp…"`},
				{cStr("tcp"), cStr("tcp"), 1, `"tcp"`},
				{cv{k: 's', s: "ssl", tail: true}, cStr("tcp"), 2, `"ssl…"`},
				{cStr("ssl"), cStr("tcp"), 2, `"ssl"`},
				{atom(3, true), atom(3, false), 0, "another three-letter word followed by options"},
				{atom(3, false), atom(3, false), 0, "another three-letter word"},
				{atom(2, false), atom(2, false), 0, "a two-letter string"},
				{atom(1, false), atom(1, false), 0, "a one-letter string"},
				{cStr(""), cStr(""), 0, "the empty string"},
			}
			okT, why := true, ""
			nPaths := 0
			for _, c := range cases {
				runs, complete := cEnumerate(r.w, fn, []cv{c.in}, map[int][]string{word: {"tcp", "ssl"}}, 256)
				if !complete {
					okT, why = false, "evaluation of Parse for "+c.what+" is not complete (too many undetermined branches)"
					break
				}
				for _, run := range runs {
					nPaths++
					if run.abort != "" {
						okT, why = false, "Parse("+c.what+") "+run.abort
						break
					}
					gi, gp := structField(run.res, fn.Signature.Results().At(0).Type(), "Istcp"), structField(run.res, fn.Signature.Results().At(0).Type(), "Proto")
					ci := &cinterp{}
					eqI, kI := ci.ceq(gi, cInt(c.istcp))
					eqP, kP := ci.ceq(gp, c.proto)
					if !kI || !eqI || !kP || !eqP {
						okT, why = false, fmt.Sprintf("Parse(%s) yields Proto %s, Istcp %s on some path; expected Proto %s, Istcp %d", c.what, gp, gi, c.proto, c.istcp)
						break
					}
				}
				if !okT {
					break
				}
			}
			r.Check(okT, fname(fn), "Istcp from the protocol word", fn.Pos(), fmt.Sprintf("tcp -> 1, ssl -> 2 (Proto tcp), otherwise 0 with the word kept; %d paths over %d input classes", nPaths, len(cases)), "%s", why)
		}})
}

// structField picks a named field out of an evaluated struct value.
func structField(v cv, t types.Type, name string) cv {
	st, ok := t.Underlying().(*types.Struct)
	if !ok || v.k != 'S' {
		return cUnknown
	}
	for i := 0; i < st.NumFields() && i < len(v.el); i++ {
		if st.Field(i).Name() == name {
			return v.el[i]
		}
	}
	return cUnknown
}

func setStructField(v *cv, t types.Type, name string, x cv) {
	st, ok := t.Underlying().(*types.Struct)
	if !ok || v.k != 'S' {
		return
	}
	for i := 0; i < st.NumFields() && i < len(v.el); i++ {
		if st.Field(i).Name() == name {
			v.el[i] = x
		}
	}
}

// unknownStruct: a struct value of which nothing is known.
func unknownStruct(t types.Type) cv {
	st, ok := t.Underlying().(*types.Struct)
	if !ok {
		return cUnknown
	}
	out := cv{k: 'S'}
	for i := 0; i < st.NumFields(); i++ {
		out.el = append(out.el, unknownStruct(st.Field(i).Type()))
	}
	return out
}
