package main

import (
	"go/token"
	"go/types"
	"strings"

	"golang.org/x/tools/go/ssa"
)

const codecPkg = "tars/protocol/codec"

// packages whose decoding code is checked by the C05/C06 rules
var decodePkgs = []string{"tars/protocol/codec", "tars/protocol/tup"}

func isBytesReader(t types.Type) bool {
	if typeID(t) == "bytes.Reader" {
		return true
	}
	// an interface of the codec's own that a *bytes.Reader is used through
	if n, ok := t.(*types.Named); ok && n.Obj().Pkg() != nil && strings.HasSuffix(n.Obj().Pkg().Path(), codecPkg) {
		if it, ok := n.Underlying().(*types.Interface); ok {
			for i := 0; i < it.NumMethods(); i++ {
				if m := it.Method(i).Name(); m == "Read" || m == "ReadByte" {
					return true
				}
			}
		}
	}
	return false
}

// lenMatches: does value y denote the length of slice p? (len(p), cap of an array slice, or the
// constant array length when p = slice of a fixed array)
func lenMatches(y ssa.Value, p ssa.Value) bool {
	if c, ok := y.(*ssa.Call); ok && builtinName(&c.Call) == "len" {
		return sameValue(c.Call.Args[0], p) || sameValue(strip(c.Call.Args[0], false), strip(p, false))
	}
	if k, ok := constInt(y); ok {
		if n, ok := fixedLen(p); ok && n == k {
			return true
		}
	}
	return false
}

// fixedLen: p is `arr[:]` of a [N]T array (no bounds) → N.
func fixedLen(p ssa.Value) (int64, bool) {
	p = strip(p, false)
	sl, ok := p.(*ssa.Slice)
	if !ok || sl.Low != nil || sl.High != nil {
		return 0, false
	}
	t := sl.X.Type()
	if pt, ok := t.Underlying().(*types.Pointer); ok {
		t = pt.Elem()
	}
	if at, ok := t.Underlying().(*types.Array); ok {
		return at.Len(), true
	}
	return 0, false
}

func init() {
	register(&Rule{ID: "C06.R1", Props: []string{"C06", "C05"}, Min: 6, Needs: NeedMain,
		Doc: "every fixed-size read from the underlying bytes.Reader in the codec is complete or an error: io.ReadFull/ReadAtLeast with the error propagated, or the byte count compared with len(p) with the short branch returning a non-nil error, or a dominating remaining>=len(p) guard",
		Run: func(r *R) {
			for _, rel := range decodePkgs {
				sp := r.w.Pkg(rel)
				if sp == nil {
					r.AnchorMissing("package " + rel)
					continue
				}
				for _, fn := range r.w.Funcs(sp) {
					eachInstr(fn, func(in ssa.Instruction) {
						call, ok := in.(*ssa.Call)
						if !ok {
							return
						}
						id := funcID(calleeObj(&call.Call))
						switch id {
						case "bytes.(Reader).Read":
							p := call.Call.Args[1]
							var n ssa.Value
							for _, ref := range *call.Referrers() {
								if e, ok := ref.(*ssa.Extract); ok && e.Index == 0 {
									n = e
								}
							}
							isFull := func(c cmpNorm) bool {
								// n == len(p), n >= len(p), len(p) == n, len(p) <= n
								if n == nil {
									return false
								}
								if c.X == n && lenMatches(c.Y, p) && (c.Op == token.EQL || c.Op == token.GEQ) {
									return true
								}
								if c.Y == n && lenMatches(c.X, p) && (c.Op == token.EQL || c.Op == token.LEQ) {
									return true
								}
								return false
							}
							// dominating guard: reader.Len() >= len(p)
							guarded := false
							for _, f := range facts(call.Block()) {
								if c, ok := normFact(f); ok {
									if isRemainCall(c.X, call.Call.Args[0]) && lenMatches(c.Y, p) && (c.Op == token.GEQ) {
										guarded = true
									}
									if isRemainCall(c.Y, call.Call.Args[0]) && lenMatches(c.X, p) && (c.Op == token.LEQ) {
										guarded = true
									}
								}
							}
							if guarded {
								r.OK(fname(fn), "bytes.Reader.Read", call.Pos(), "dominated by a remaining-length guard")
								return
							}
							pc := &propCtx{holds: isFull}
							ok2, why := mustErrorUnless(fn, call, pc)
							if ok2 {
								r.OK(fname(fn), "bytes.Reader.Read", call.Pos(), "byte count is compared with len(p); every short-read path returns a non-nil error")
							} else {
								r.Bad(fname(fn), "bytes.Reader.Read", call.Pos(),
									"(*bytes.Reader).Read returns n<len(p) with a nil error on a short input, and the count is not checked: a truncated field is zero-padded instead of rejected; %s", why)
							}
						case "io.ReadFull", "io.ReadAtLeast":
							if !isBytesReader(strip(call.Call.Args[0], false).Type()) {
								return
							}
							ev, _, found := errResult(call)
							if !found {
								r.Bad(fname(fn), id, call.Pos(), "error result of %s is dropped", id)
								return
							}
							ok2, why := errPropagated(fn, call, ev)
							if ok2 {
								r.OK(fname(fn), id, call.Pos(), "%s with its error propagated to the caller", id)
							} else {
								r.Bad(fname(fn), id, call.Pos(), "error of %s is not propagated: %s", id, why)
							}
						}
					})
				}
			}
		}})

	register(&Rule{ID: "C06.R2", Props: []string{"C06"}, Min: 2, Needs: NeedMain,
		Doc: "every use of Reader.Next(n) as data is guarded: n<=remaining before, or len(result)==n after, with the failing branch returning a non-nil error; and n cannot be negative there (no sign-changing narrowing of the announced length, Next(n<=0) reads nothing)",
		Run: func(r *R) {
			next := r.w.Func(codecPkg, "Reader.Next")
			if next == nil {
				r.AnchorMissing("codec.(*Reader).Next")
				return
			}
			for _, sp := range r.w.SSA {
				for _, fn := range r.w.Funcs(sp) {
					eachInstr(fn, func(in ssa.Instruction) {
						call, ok := in.(*ssa.Call)
						if !ok || call.Call.StaticCallee() != next {
							return
						}
						n := call.Call.Args[1]
						// uses of the result other than len()
						var dataUses []ssa.Instruction
						for _, ref := range *call.Referrers() {
							if c, ok := ref.(*ssa.Call); ok && builtinName(&c.Call) == "len" {
								continue
							}
							if _, ok := ref.(*ssa.DebugRef); ok {
								continue
							}
							dataUses = append(dataUses, ref)
						}
						if len(dataUses) == 0 {
							r.OKLookup(fname(fn), "Reader.Next", call.Pos(), "result not used as data")
							return
						}
						holds := func(c cmpNorm) bool {
							// pre-guard: n <= remaining
							if sameNum(c.X, n) && isRemainCall(c.Y, nil) && (c.Op == token.LEQ) {
								return true
							}
							if sameNum(c.Y, n) && isRemainCall(c.X, nil) && (c.Op == token.GEQ) {
								return true
							}
							// post-check: len(res) == n / len(res) >= n
							if isLenOf(c.X, call) && sameNum(c.Y, n) && (c.Op == token.EQL || c.Op == token.GEQ) {
								return true
							}
							if isLenOf(c.Y, call) && sameNum(c.X, n) && (c.Op == token.EQL || c.Op == token.LEQ) {
								return true
							}
							return false
						}
						pc := &propCtx{holds: holds}
						good := pc.safe
						allOK := true
						for _, u := range dataUses {
							if !good(u.Block()) {
								allOK = false
							}
						}
						// and the failing branch must be an error: every path from the call on which the
						// guard does not hold returns non-nil error
						ok2, why := mustErrorUnless(fn, call, pc)
						// the announced length must not have gone through a sign-changing narrowing: Next treats
						// n <= 0 as "nothing to read", so a length word with the top bit set would yield an empty
						// string and leave the content bytes to be parsed as the following fields
						core := stripWiden(n)
						if cs := setAt(fn, core, call).intersect(defRange(core, 0)); !cs.subsetOf(rng(0, posInf)) {
							r.Bad(fname(fn), "Reader.Next length is non-negative", call.Pos(), "the length passed to Next can be negative here (%s, values %s): Next(n<=0) returns an empty slice without consuming the announced content", pathOf(core), cs)
						} else {
							r.OK(fname(fn), "Reader.Next length is non-negative", call.Pos(), "length in %s", setAt(fn, core, call).intersect(defRange(core, 0)))
						}
						if allOK && ok2 {
							r.OK(fname(fn), "Reader.Next", call.Pos(), "data use is dominated by a length guard whose failing branch returns an error")
						} else {
							r.Bad(fname(fn), "Reader.Next", call.Pos(),
								"Next(n) silently returns fewer than n bytes at end of input and its result is used as data without a length check (partial string instead of an error) %s", why)
						}
					})
				}
			}
		}})

	register(&Rule{ID: "C06.R6", Props: []string{"C06", "C04"}, Min: 3, Needs: NeedMain,
		Doc: "a field that fits exactly is accepted: wherever the decoders compare an announced length with the bytes remaining, the rejecting branch is taken only for length > remaining (never for length == remaining), so a well-formed field that ends exactly at the end of its buffer is neither rejected when read nor when skipped",
		Run: func(r *R) {
			for _, rel := range decodePkgs {
				sp := r.w.Pkg(rel)
				if sp == nil {
					continue
				}
				for _, fn := range r.w.Funcs(sp) {
					idx := errorIndex(fn.Signature)
					if idx < 0 {
						continue
					}
					for _, b := range fn.Blocks {
						iff, ok := b.Instrs[len(b.Instrs)-1].(*ssa.If)
						if !ok || b.Succs[0] == b.Succs[1] {
							continue
						}
						for si := 0; si < 2; si++ {
							c, ok := normFact(EdgeFact{Cond: iff.Cond, Taken: si == 0})
							if !ok {
								continue
							}
							x, y, op := c.X, c.Y, c.Op
							if isInputSize(x) {
								x, y, op = y, x, swapOp(op)
							}
							if !isInputSize(y) || isInputSize(x) {
								continue
							}
							// does this edge lead straight to an error return?
							succ := b.Succs[si]
							if !rejectingBlock(succ, idx) {
								continue
							}
							cons := "reject when " + pathOf(x) + " " + op.String() + " remaining"
							r.Check(op == token.GTR, fname(fn), cons, iff.Pos(), "rejected only when the announced length exceeds the bytes remaining", "the field is rejected when %s %s the bytes remaining: a field that ends exactly at the end of the buffer (length == remaining) is well-formed and must be accepted / skipped", pathOf(x), op)
						}
					}
				}
			}
		}})

	register(&Rule{ID: "C06.R7", Props: []string{"C06"}, Min: 1, Needs: NeedMain,
		Doc: "typed skip: SkipTo reports a present field (have == true) without error only when its wire type equals the requested one — for required and optional fields alike",
		Run: func(r *R) {
			fn := r.w.Func(codecPkg, "Reader.SkipTo")
			if fn == nil {
				r.AnchorMissing("codec.(*Reader).SkipTo")
				return
			}
			ty := fn.Params[1]
			var have, tyCur ssa.Value
			eachInstr(fn, func(in ssa.Instruction) {
				if ex, ok := in.(*ssa.Extract); ok {
					if c, ok := ex.Tuple.(*ssa.Call); ok && callIs(&c.Call, "~/"+codecPkg+".(Reader).SkipToNoCheck") {
						if ex.Index == 0 {
							have = ex
						}
						if ex.Index == 1 {
							tyCur = ex
						}
					}
				}
			})
			if have == nil || tyCur == nil {
				r.Undecided(fname(fn), "type check", fn.Pos(), "SkipTo does not go through SkipToNoCheck")
				return
			}
			// the mismatch branch: a non-nil error under `ty != tyCur`; it must be governed by `have` alone
			okk, n := true, 0
			for _, b := range fn.Blocks {
				ret, ok := b.Instrs[len(b.Instrs)-1].(*ssa.Return)
				if !ok || len(ret.Results) != 2 || !definitelyNonNilErr(ret.Results[1], b) {
					continue
				}
				mismatch, present, extra := false, false, ""
				for _, f := range facts(b) {
					c, okc := normFact(f)
					if !okc {
						continue
					}
					if c.Op == token.NEQ && ((c.X == ssa.Value(ty) && c.Y == tyCur) || (c.Y == ssa.Value(ty) && c.X == tyCur)) {
						mismatch = true
						continue
					}
					if c.boolIs(have, true) {
						present = true
						continue
					}
					for _, p := range fn.Params {
						if c.X == ssa.Value(p) {
							extra = p.Name()
						}
					}
				}
				if !mismatch {
					continue
				}
				n++
				if !present || extra != "" {
					okk = false
				}
			}
			r.Check(okk && n > 0, fname(fn), "present field has the requested wire type", fn.Pos(), "every nil-error return is on the `type matches` or `field absent` edge", "SkipTo can return (have, nil) for a present field of another wire type (e.g. only required fields are type-checked): an optional map/struct field substituted by another type is reinterpreted instead of rejected")
		}})

	register(&Rule{ID: "C06.R5", Props: []string{"C06"}, Min: 20, Needs: NeedMain,
		Doc: "inside the codec and tup packages every error returned by a read primitive (bReadU*, Read*, ReadByte, SkipTo*) is propagated to the caller (never dropped, never overwritten by nil)",
		Run: func(r *R) {
			for _, rel := range decodePkgs {
				sp := r.w.Pkg(rel)
				if sp == nil {
					r.AnchorMissing("package " + rel)
					continue
				}
				for _, fn := range r.w.Funcs(sp) {
					if errorIndex(fn.Signature) < 0 {
						continue
					}
					eachInstr(fn, func(in ssa.Instruction) {
						call, ok := in.(*ssa.Call)
						if !ok || !isReadPrimitive(&call.Call) {
							return
						}
						name := calleeShort(&call.Call)
						ev, hasErr, found := errResult(call)
						if !hasErr {
							return
						}
						if !found {
							r.Bad(fname(fn), name, call.Pos(), "the error result of %s is discarded", name)
							return
						}
						pc := &propCtx{errv: ev, holds: func(c cmpNorm) bool {
							if nilCmp(c, ev, token.EQL) {
								return true
							}
							// scanning for an optional field: a failing head read at the end of the input means
							// "field absent" when the function's own bool parameter (require) is false (C04.R5
							// checks that side); only accepted for the head reader
							if name == "codec.(Reader).readHead" {
								for _, p := range fn.Params {
									if c.boolIs(p, false) {
										return true
									}
								}
							}
							return false
						}}
						if ok2, why := mustErrorUnless(fn, call, pc); ok2 {
							r.OK(fname(fn), name, call.Pos(), "error of %s reaches every return that follows it", name)
						} else {
							r.Bad(fname(fn), name, call.Pos(), "error of %s is lost: %s", name, why)
						}
					})
				}
			}
		}})
}

func calleeShort(c *ssa.CallCommon) string {
	id := funcID(calleeObj(c))
	id = strings.TrimPrefix(id, modPath+"/")
	if i := strings.LastIndex(id, "/"); i >= 0 {
		id = id[i+1:]
	}
	return id
}

// isReadPrimitive: the callee consumes input and reports failure through an error: helper
// functions taking *bytes.Reader; methods of *codec.Reader named Read*/SkipTo*; bytes.Reader.ReadByte.
func isReadPrimitive(c *ssa.CallCommon) bool {
	o := calleeObj(c)
	if o == nil {
		return false
	}
	id := funcID(o)
	if id == "bytes.(Reader).ReadByte" {
		return true
	}
	sig := o.Type().(*types.Signature)
	if errorIndex(sig) < 0 {
		return false
	}
	if o.Pkg() == nil || !strings.HasPrefix(o.Pkg().Path(), modPath+"/tars/protocol") {
		return false
	}
	if recv := sig.Recv(); recv != nil {
		if typeID(recv.Type()) == modPath+"/"+codecPkg+".Reader" {
			return strings.HasPrefix(o.Name(), "Read") || strings.HasPrefix(o.Name(), "SkipTo") || o.Name() == "readHead"
		}
		// generated structs: ReadFrom / ReadBlock
		if o.Name() == "ReadFrom" || o.Name() == "ReadBlock" {
			return true
		}
		return false
	}
	// package-level helper with a *bytes.Reader parameter
	for i := 0; i < sig.Params().Len(); i++ {
		if isBytesReader(sig.Params().At(i).Type()) {
			return true
		}
	}
	return false
}

// isRemainCall: v is a call of (*bytes.Reader).Len (on reader rd when given).
func isRemainCall(v ssa.Value, rd ssa.Value) bool {
	v = strip(v, true)
	c, ok := v.(*ssa.Call)
	if !ok {
		return false
	}
	if funcID(calleeObj(&c.Call)) != "bytes.(Reader).Len" {
		return false
	}
	return rd == nil || sameValue(c.Call.Args[0], rd)
}

func isLenOf(v ssa.Value, of ssa.Value) bool {
	c, ok := v.(*ssa.Call)
	return ok && builtinName(&c.Call) == "len" && strip(c.Call.Args[0], false) == of
}

// rejectingBlock: control entering b ends in an error: b returns a definitely non-nil error, or b
// only builds an error (fmt.Errorf / errors.New) and jumps to a merge point where that error is one of
// the values of an error-typed phi (the shape of an in-line expanded checking helper).
func rejectingBlock(b *ssa.BasicBlock, idx int) bool {
	switch t := b.Instrs[len(b.Instrs)-1].(type) {
	case *ssa.Return:
		return idx < len(t.Results) && definitelyNonNilErr(t.Results[idx], b)
	case *ssa.Jump:
		var made ssa.Value
		for _, in := range b.Instrs {
			if c, ok := in.(*ssa.Call); ok {
				id := funcID(calleeObj(&c.Call))
				if id == "fmt.Errorf" || id == "errors.New" {
					made = c
				}
			}
		}
		if made == nil {
			return false
		}
		for _, in := range b.Succs[0].Instrs {
			phi, ok := in.(*ssa.Phi)
			if !ok {
				break
			}
			for i, e := range phi.Edges {
				if b.Succs[0].Preds[i] == b && e == made && isErrorType(phi.Type()) {
					return true
				}
			}
		}
	}
	return false
}
