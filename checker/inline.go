package main

// Helper normalisation.
//
// The rules are intraprocedural for the most part: they look at the body of the function that
// implements a behaviour. The single most common behaviour-preserving edit that defeats such rules is
// "extract a helper": a block of the function moves into a new unexported function and is replaced by a
// call. To be insensitive to that edit the loader compares the functions declared in the tree with the
// list recorded for the pinned tree (baseline_funcs.txt). Every function that is NOT in that list and is
// only ever called statically from its own package is expanded in place at its call sites — at the
// source level, through a go/packages overlay — before the program is type-checked and converted to
// SSA. The expansion keeps Go semantics:
//
//	x, err := h(a, b)        var __i1a0 T0 = a; var __i1a1 T1 = b; var __i1r0 R0; var __i1r1 R1
//	                         { p, q := __i1a0, __i1a1
//	                           __i1L: for { <body of h, `return e, f` -> { __i1r0, __i1r1 = e, f; break __i1L }> ; break __i1L } }
//	                         x, err := __i1r0, __i1r1
//
// (arguments are evaluated once, in order, before the body; parameters get their declared types;
// returns leave the one-iteration loop; the loop has no back edge). //line directives keep the
// positions of the expanded body on the helper's own source lines and the positions of the code that
// follows on its original lines. Call sites in expression position, helpers with defer/recover/goto/
// labels, variadic, generic or recursive helpers are left alone. If the overlay does not type-check the
// loader falls back to the unmodified source and says so. A change that introduces a defect inside a new
// helper is analysed in the context of its callers exactly as if it had been written in line, so the
// normalisation does not hide anything from the rules.

import (
	"bytes"
	_ "embed"
	"fmt"
	"go/ast"
	"go/parser"
	"go/token"
	"go/types"
	"os"
	"path/filepath"
	"sort"
	"strings"

	"golang.org/x/tools/go/packages"
)

//go:embed baseline_funcs.txt
var baselineFuncsTxt string

// baselineSet: function key -> number of function literals in its body, for the pinned tree.
func baselineSet() map[string]int {
	m := map[string]int{}
	for _, l := range strings.Split(baselineFuncsTxt, "\n") {
		if l = strings.TrimSpace(l); l != "" && !strings.HasPrefix(l, "#") {
			k, n, _ := strings.Cut(l, "\t")
			c := 0
			fmt.Sscanf(n, "%d", &c)
			m[k] = c
		}
	}
	return m
}

func countFuncLits(fd *ast.FuncDecl) int {
	n := 0
	if fd.Body != nil {
		ast.Inspect(fd.Body, func(m ast.Node) bool {
			if _, ok := m.(*ast.FuncLit); ok {
				n++
			}
			return true
		})
	}
	return n
}

func recvTypeName(fd *ast.FuncDecl) string {
	if fd.Recv == nil || len(fd.Recv.List) == 0 {
		return ""
	}
	t := fd.Recv.List[0].Type
	for {
		switch x := t.(type) {
		case *ast.StarExpr:
			t = x.X
			continue
		case *ast.ParenExpr:
			t = x.X
			continue
		case *ast.IndexExpr:
			t = x.X
			continue
		case *ast.IndexListExpr:
			t = x.X
			continue
		case *ast.Ident:
			return x.Name
		}
		return "?"
	}
}

func funcKey(relDir string, fd *ast.FuncDecl) string {
	return relDir + "|" + recvTypeName(fd) + "|" + fd.Name.Name
}

// listFuncKeys parses (no type checking) every non-test .go file below root/sub and returns the keys
// of all function declarations, relative to root.
func listFuncKeys(root, sub string) ([]string, error) {
	m, err := listFuncLits(root, sub)
	var keys []string
	for k := range m {
		keys = append(keys, k)
	}
	sort.Strings(keys)
	return keys, err
}

// listFuncLits: function key -> number of function literals in the body (summed over same-named keys).
func listFuncLits(root, sub string) (map[string]int, error) { return listFuncLitsOv(root, sub, nil) }

func listFuncLitsOv(root, sub string, overlay map[string][]byte) (map[string]int, error) {
	keys := map[string]int{}
	fset := token.NewFileSet()
	err := filepath.Walk(filepath.Join(root, sub), func(p string, fi os.FileInfo, err error) error {
		if err != nil {
			return err
		}
		if fi.IsDir() {
			if n := fi.Name(); n == "testdata" || n == "vendor" || (strings.HasPrefix(n, ".") && n != ".") {
				return filepath.SkipDir
			}
			return nil
		}
		if !strings.HasSuffix(p, ".go") || strings.HasSuffix(p, "_test.go") {
			return nil
		}
		var osrc any
		if b, ok := overlay[p]; ok {
			osrc = b
		}
		f, perr := parser.ParseFile(fset, p, osrc, parser.SkipObjectResolution)
		if perr != nil {
			return nil // the typed load reports syntax errors
		}
		rel, _ := filepath.Rel(root, filepath.Dir(p))
		for _, d := range f.Decls {
			if fd, ok := d.(*ast.FuncDecl); ok {
				keys[funcKey(filepath.ToSlash(rel), fd)] += countFuncLits(fd)
			}
		}
		return nil
	})
	return keys, err
}

// newFuncKeys: function keys present in the tree but not in the recorded baseline.
// forcedHelpers: helpers of the pinned tree that are expanded into their callers as well, so that the
// rules see one canonical shape whether such a helper exists, was merged with a sibling, or was written
// in line (each entry is named by a rule that analyses the caller's region instead of the helper).
var forcedHelpers = []string{
	"tars/protocol/codec|Reader|skipFieldMap",
	"tars/protocol/codec|Reader|skipFieldList",
	"tars/protocol/codec|Reader|skipFieldSimpleList",
	// conf: the one-statement mutators of elem; the line-grammar rule looks at their effects
	"tars/util/conf|elem|setValue",
	"tars/util/conf|elem|addChild",
	"tars/util/conf|elem|addLine",
}

func newFuncKeys(repo string, nameOv map[string][]byte) map[string]bool {
	out := newFuncKeys0(repo, nameOv)
	if out == nil {
		return nil
	}
	for _, k := range forcedHelpers {
		out[k] = true
	}
	return out
}

func newFuncKeys0(repo string, nameOv map[string][]byte) map[string]bool {
	base := baselineSet()
	if len(base) == 0 {
		return nil
	}
	keys, err := listFuncLitsOv(repo, "tars", nameOv)
	if err != nil {
		return nil
	}
	out := map[string]bool{}
	for k, n := range keys {
		if bn, ok := base[k]; !ok {
			out[k] = true
		} else if n > bn {
			// an existing function that gained function literals: its directly called closures are expanded
			out["lits:"+k] = true
		}
	}
	return out
}

type sub struct {
	a, b int // byte offsets in the file
	text string
}

type ilFile struct {
	name string
	src  []byte
	file *ast.File
	pkg  *packages.Package
	tf   *token.File
}

type ilHelper struct {
	fn       *types.Func
	decl     *ast.FuncDecl
	f        *ilFile
	tailOnly bool // contains defer: only expanded where the call is the last statement of the enclosing function
}

type retCtx struct {
	vars  []string // result temporaries of the expansion the text belongs to
	named []string // names of named results ("" when unnamed)
	label string
}

type inliner struct {
	litOK     bool                       // inside a function whose directly called closures are expanded
	litVars   map[types.Object]*ilHelper // local variables bound once to a function literal and only ever called
	fset      *token.FileSet
	files     map[*ast.File]*ilFile
	helpers   map[*types.Func]*ilHelper
	expanding map[*types.Func]bool
	n         int
	sites     int
	notes     []string
}

func (f *ilFile) off(p token.Pos) int  { return f.tf.Offset(p) }
func (f *ilFile) line(p token.Pos) int { return f.tf.Line(p) }
func (f *ilFile) text(a, b token.Pos) string {
	return string(f.src[f.off(a):f.off(b)])
}

func applySubs(src []byte, a, b int, subs []sub) string {
	sort.Slice(subs, func(i, j int) bool { return subs[i].a < subs[j].a })
	var sb strings.Builder
	cur := a
	for _, s := range subs {
		if s.a < cur || s.b > b {
			continue
		}
		sb.Write(src[cur:s.a])
		sb.WriteString(s.text)
		cur = s.b
	}
	sb.Write(src[cur:b])
	return sb.String()
}

// inlinable checks the declaration-level conditions.
func inlinableDecl(fd *ast.FuncDecl, f *ilFile) (ok bool, why string, tailOnly bool) {
	ok, why = inlinableDecl0(fd, f)
	if !ok && why == "defer" {
		// a helper with defer statements can still be expanded where its call is the last thing the
		// enclosing function does: its deferred calls then run at the same moment and in the same order.
		// Named results that a deferred closure could modify are excluded.
		if fd.Type.Results != nil {
			for _, fld := range fd.Type.Results.List {
				if len(fld.Names) > 0 {
					return false, "defer with named results", false
				}
			}
		}
		return true, "", true
	}
	return ok, why, false
}

func inlinableDecl0(fd *ast.FuncDecl, f *ilFile) (bool, string) {
	if fd.Body == nil {
		return false, "no body"
	}
	if fd.Type.TypeParams != nil && len(fd.Type.TypeParams.List) > 0 {
		return false, "generic"
	}
	if fd.Recv != nil {
		for _, fld := range fd.Recv.List {
			switch t := fld.Type.(type) {
			case *ast.IndexExpr, *ast.IndexListExpr:
				_ = t
				return false, "generic receiver"
			case *ast.StarExpr:
				if _, ok := t.X.(*ast.IndexExpr); ok {
					return false, "generic receiver"
				}
			}
		}
	}
	if ps := fd.Type.Params; ps != nil {
		for _, p := range ps.List {
			if _, ok := p.Type.(*ast.Ellipsis); ok {
				return false, "variadic"
			}
		}
	}
	if f.line(fd.Body.Rbrace)-f.line(fd.Body.Lbrace) > 400 {
		return false, "too long"
	}
	bad := ""
	var walk func(n ast.Node, top bool)
	walk = func(n ast.Node, top bool) {
		ast.Inspect(n, func(m ast.Node) bool {
			switch x := m.(type) {
			case *ast.FuncLit:
				walk(x.Body, false)
				return false
			case *ast.DeferStmt:
				if top && bad == "" {
					bad = "defer"
				}
			case *ast.LabeledStmt:
				bad = "label"
			case *ast.BranchStmt:
				if x.Tok == token.GOTO {
					bad = "goto"
				}
			case *ast.CallExpr:
				if id, ok := x.Fun.(*ast.Ident); ok && id.Name == "recover" {
					bad = "recover"
				}
			}
			return true
		})
	}
	walk(fd.Body, true)
	if bad != "" {
		return false, bad
	}
	return true, ""
}

// pkgNamesIn: local names of imported packages referenced in node (name -> import path).
func pkgNamesIn(info *types.Info, n ast.Node) map[string]string {
	out := map[string]string{}
	ast.Inspect(n, func(m ast.Node) bool {
		if id, ok := m.(*ast.Ident); ok {
			if pn, ok := info.Uses[id].(*types.PkgName); ok {
				out[id.Name] = pn.Imported().Path()
			}
		}
		return true
	})
	return out
}

func fileImports(info *types.Info, f *ast.File) map[string]string {
	out := map[string]string{}
	for _, is := range f.Imports {
		var pn *types.PkgName
		if is.Name != nil {
			pn, _ = info.Defs[is.Name].(*types.PkgName)
		} else {
			pn, _ = info.Implicits[is].(*types.PkgName)
		}
		if pn != nil {
			out[pn.Name()] = pn.Imported().Path()
		}
	}
	return out
}

// siteCall: the call expression if statement-level expression e is a call of an inlinable helper.
func (il *inliner) siteCall(f *ilFile, e ast.Expr, tail bool) (*ast.CallExpr, *ilHelper) {
	call, ok := e.(*ast.CallExpr)
	if !ok || call.Ellipsis.IsValid() {
		return nil, nil
	}
	fun := call.Fun
	for {
		if p, ok := fun.(*ast.ParenExpr); ok {
			fun = p.X
			continue
		}
		break
	}
	if fl, isLit := fun.(*ast.FuncLit); isLit {
		if !il.litOK || !tail && false {
			return nil, nil
		}
		fd := &ast.FuncDecl{Name: ast.NewIdent("func"), Type: fl.Type, Body: fl.Body}
		ok, _, tailOnly := inlinableDecl(fd, f)
		if !ok || (tailOnly && !tail) {
			return nil, nil
		}
		return call, &ilHelper{decl: fd, f: f, tailOnly: tailOnly}
	}
	var id *ast.Ident
	switch x := fun.(type) {
	case *ast.Ident:
		id = x
		if h := il.litVars[f.pkg.TypesInfo.Uses[x]]; h != nil && il.litOK {
			if h.tailOnly && !tail {
				return nil, nil
			}
			return call, h
		}
	case *ast.SelectorExpr:
		id = x.Sel
		if sel := f.pkg.TypesInfo.Selections[x]; sel != nil {
			if sel.Kind() != types.MethodVal || len(sel.Index()) != 1 {
				return nil, nil
			}
		} else {
			return nil, nil // qualified identifier of another package
		}
	default:
		return nil, nil
	}
	fn, ok := f.pkg.TypesInfo.Uses[id].(*types.Func)
	if !ok {
		return nil, nil
	}
	h := il.helpers[fn]
	if h == nil || il.expanding[fn] || (h.tailOnly && !tail) {
		return nil, nil
	}
	// imports the body and the signature need must be available under the same names in this file
	if h.f != f {
		have := fileImports(f.pkg.TypesInfo, f.file)
		for n, p := range pkgNamesIn(h.f.pkg.TypesInfo, h.decl) {
			if have[n] != p {
				return nil, nil
			}
		}
	}
	return call, h
}

type siteKind int

const (
	kExpr siteKind = iota
	kAssign
	kReturn
	kDefer
	kGo
)

// expand renders the expansion of `call` to helper h. lhs/tok describe an assignment target; ret is the
// return context of the text the statement lives in (nil at the top level of a real function).
func (il *inliner) expand(f *ilFile, call *ast.CallExpr, h *ilHelper, kind siteKind, lhs, tok string, ret *retCtx, endLine int) string {
	il.n++
	il.sites++
	P := fmt.Sprintf("__i%d", il.n)
	hf := h.f
	sig := h.decl.Type
	var pre, stage2a, stage2b, uses []string
	// receiver
	if h.decl.Recv != nil && len(h.decl.Recv.List) == 1 {
		rf := h.decl.Recv.List[0]
		se := call.Fun
		for {
			if p, ok := se.(*ast.ParenExpr); ok {
				se = p.X
				continue
			}
			break
		}
		sx := se.(*ast.SelectorExpr)
		recvText := "(" + f.text(sx.X.Pos(), sx.X.End()) + ")"
		_, wantPtr := rf.Type.(*ast.StarExpr)
		xt := f.pkg.TypesInfo.TypeOf(sx.X)
		_, havePtr := xt.Underlying().(*types.Pointer)
		if wantPtr && !havePtr {
			recvText = "&" + recvText
		} else if !wantPtr && havePtr {
			recvText = "*" + recvText
		}
		pre = append(pre, fmt.Sprintf("var %srecv %s = %s", P, hf.text(rf.Type.Pos(), rf.Type.End()), recvText))
		if len(rf.Names) == 1 && rf.Names[0].Name != "_" {
			stage2a = append(stage2a, rf.Names[0].Name)
			stage2b = append(stage2b, P+"recv")
			uses = append(uses, rf.Names[0].Name)
		} else {
			uses = append(uses, P+"recv")
		}
	}
	// parameters
	ai := 0
	if sig.Params != nil {
		for _, fld := range sig.Params.List {
			tt := hf.text(fld.Type.Pos(), fld.Type.End())
			names := fld.Names
			if len(names) == 0 {
				names = []*ast.Ident{nil}
			}
			for _, nm := range names {
				if ai >= len(call.Args) {
					return "" // f(g()) with a tuple argument: leave alone
				}
				arg := call.Args[ai]
				tmp := fmt.Sprintf("%sa%d", P, ai)
				pre = append(pre, fmt.Sprintf("var %s %s = %s", tmp, tt, f.text(arg.Pos(), arg.End())))
				if nm != nil && nm.Name != "_" {
					stage2a = append(stage2a, nm.Name)
					stage2b = append(stage2b, tmp)
					uses = append(uses, nm.Name)
				} else {
					uses = append(uses, tmp)
				}
				ai++
			}
		}
	}
	if ai != len(call.Args) {
		return ""
	}
	// results
	rc := &retCtx{label: P + "L"}
	var namedDecl []string
	if sig.Results != nil {
		ri := 0
		for _, fld := range sig.Results.List {
			tt := hf.text(fld.Type.Pos(), fld.Type.End())
			names := fld.Names
			if len(names) == 0 {
				names = []*ast.Ident{nil}
			}
			for _, nm := range names {
				v := fmt.Sprintf("%sr%d", P, ri)
				pre = append(pre, fmt.Sprintf("var %s %s", v, tt))
				rc.vars = append(rc.vars, v)
				if nm != nil && nm.Name != "_" {
					rc.named = append(rc.named, nm.Name)
					namedDecl = append(namedDecl, fmt.Sprintf("var %s %s; _ = %s", nm.Name, tt, nm.Name))
				} else if nm != nil {
					// blank named result: give it a private name so that a bare return has something to copy
					bn := fmt.Sprintf("%sn%d", P, ri)
					rc.named = append(rc.named, bn)
					namedDecl = append(namedDecl, fmt.Sprintf("var %s %s; _ = %s", bn, tt, bn))
				} else {
					rc.named = append(rc.named, "")
				}
				ri++
			}
		}
	}
	// body
	savedLit := il.litOK
	if h.fn != nil {
		il.expanding[h.fn] = true
		il.litOK = true
		il.findLitVars(hf, h.decl)
	}
	bodySubs := il.collectStmts(hf, h.decl.Body.List, rc)
	if h.fn != nil {
		delete(il.expanding, h.fn)
	}
	il.litOK = savedLit
	body := applySubs(hf.src, hf.off(h.decl.Body.Lbrace)+1, hf.off(h.decl.Body.Rbrace), bodySubs)

	var sb strings.Builder
	sb.WriteString(strings.Join(pre, "; "))
	if len(pre) > 0 {
		sb.WriteString("; ")
	}
	for _, v := range rc.vars {
		sb.WriteString("_ = " + v + "; ")
	}
	switch kind {
	case kDefer:
		sb.WriteString("defer func() ")
	case kGo:
		sb.WriteString("go func() ")
	}
	sb.WriteString("{ ")
	if len(stage2a) > 0 {
		sb.WriteString(strings.Join(stage2a, ", ") + " := " + strings.Join(stage2b, ", ") + "; ")
	}
	for _, u := range uses {
		sb.WriteString("_ = " + u + "; ")
	}
	for _, d := range namedDecl {
		sb.WriteString(d + "; ")
	}
	sb.WriteString(rc.label + ": for {")
	fmt.Fprintf(&sb, "\n//line %s:%d\n", hf.name, hf.line(h.decl.Body.Lbrace))
	sb.WriteString(body)
	fmt.Fprintf(&sb, "\n//line %s:%d\n", f.name, endLine)
	// falling off the end of a helper with named results is impossible (it must return); void helpers just leave
	sb.WriteString("; break " + rc.label + " } }")
	switch kind {
	case kDefer, kGo:
		sb.WriteString("()")
	case kAssign:
		sb.WriteString("; " + lhs + " " + tok + " " + strings.Join(rc.vars, ", "))
	case kReturn:
		sb.WriteString("; " + renderReturn(ret, strings.Join(rc.vars, ", "), len(rc.vars)))
	}
	return sb.String()
}

// renderReturn renders `return <vals>` for the context the statement lives in.
func renderReturn(ret *retCtx, vals string, n int) string {
	if ret == nil {
		if n == 0 {
			return "return"
		}
		return "return " + vals
	}
	if n == 0 {
		// bare return
		var from []string
		for _, nm := range ret.named {
			if nm == "" {
				return "{ break " + ret.label + " }"
			}
			from = append(from, nm)
		}
		if len(from) == 0 {
			return "{ break " + ret.label + " }"
		}
		return "{ " + strings.Join(ret.vars, ", ") + " = " + strings.Join(from, ", ") + "; break " + ret.label + " }"
	}
	return "{ " + strings.Join(ret.vars, ", ") + " = " + vals + "; break " + ret.label + " }"
}

func (il *inliner) collectStmts(f *ilFile, list []ast.Stmt, ret *retCtx) []sub {
	return il.collectStmtsT(f, list, ret, false)
}

// collectStmtsT: funcBody says that list is the whole body of a function (declaration or literal), so
// its last statement is in tail position.
func (il *inliner) collectStmtsT(f *ilFile, list []ast.Stmt, ret *retCtx, funcBody bool) []sub {
	var out []sub
	for i, s := range list {
		out = append(out, il.collectStmt(f, s, ret, funcBody && ret == nil && i == len(list)-1)...)
	}
	return out
}

// funcLitSubs: statement rewrites inside function literals occurring in the expressions of n
// (their returns belong to the literal, so the return context is dropped).
func (il *inliner) funcLitSubs(f *ilFile, n ast.Node) []sub {
	var out []sub
	if n == nil {
		return nil
	}
	ast.Inspect(n, func(m ast.Node) bool {
		switch x := m.(type) {
		case *ast.FuncLit:
			out = append(out, il.collectStmtsT(f, x.Body.List, nil, true)...)
			return false
		case *ast.BlockStmt:
			return false // statement bodies are walked by collectStmt
		}
		return true
	})
	return out
}

// nestedSites: helper calls nested inside expression e (not the expression itself being a site is not
// required), provided that hoisting them in front of the statement cannot change behaviour: apart from
// the helper calls the expression performs no calls (conversions and len/cap excepted), no channel
// operations and contains no function literal.
func (il *inliner) nestedSites(f *ilFile, e ast.Node) []*ast.CallExpr {
	if e == nil {
		return nil
	}
	var sites []*ast.CallExpr
	pure := true
	ast.Inspect(e, func(m ast.Node) bool {
		switch x := m.(type) {
		case *ast.FuncLit:
			pure = false
			return false
		case *ast.UnaryExpr:
			if x.Op == token.ARROW {
				pure = false
			}
		case *ast.CallExpr:
			if c, h := il.siteCall(f, x, false); h != nil && c != nil {
				// its own arguments must be call-free as well
				for _, a := range x.Args {
					ast.Inspect(a, func(k ast.Node) bool {
						if _, isCall := k.(*ast.CallExpr); isCall {
							pure = false
						}
						return true
					})
				}
				sites = append(sites, x)
				return false
			}
			if tv, ok := f.pkg.TypesInfo.Types[x.Fun]; ok && tv.IsType() {
				return true // conversion
			}
			if id, ok := x.Fun.(*ast.Ident); ok {
				if _, isB := f.pkg.TypesInfo.Uses[id].(*types.Builtin); isB && (id.Name == "len" || id.Name == "cap") {
					return true
				}
			}
			pure = false
		}
		return true
	})
	if !pure {
		return nil
	}
	return sites
}

// hoist renders `pre; <statement text with the helper calls replaced by temporaries>` for the source
// range [a,b) of a statement whose expressions contain the helper calls `sites`.
func (il *inliner) hoist(f *ilFile, a, b token.Pos, sites []*ast.CallExpr, ret *retCtx, endLine int) string {
	var pre []string
	var reps []sub
	for _, c := range sites {
		_, h := il.siteCall(f, c, false)
		if h == nil || h.decl.Type.Results == nil || len(h.decl.Type.Results.List) != 1 || len(h.decl.Type.Results.List[0].Names) > 1 {
			return ""
		}
		il.n++
		tmp := fmt.Sprintf("__h%d", il.n)
		t := il.expand(f, c, h, kAssign, tmp, ":=", ret, f.line(a))
		if t == "" {
			return ""
		}
		pre = append(pre, t)
		reps = append(reps, sub{f.off(c.Pos()), f.off(c.End()), tmp})
	}
	_ = endLine
	return strings.Join(pre, "; ") + "; " + applySubs(f.src, f.off(a), f.off(b), reps)
}

func (il *inliner) collectStmt(f *ilFile, s ast.Stmt, ret *retCtx, tail bool) []sub {
	mk := func(text string) []sub {
		if text == "" {
			return nil
		}
		return []sub{{f.off(s.Pos()), f.off(s.End()), text}}
	}
	endLine := f.line(s.End())
	switch x := s.(type) {
	case *ast.ExprStmt:
		if call, h := il.siteCall(f, x.X, tail); h != nil {
			return mk(il.expand(f, call, h, kExpr, "", "", ret, endLine))
		}
		if sites := il.nestedSites(f, x.X); len(sites) > 0 {
			if t := il.hoist(f, s.Pos(), s.End(), sites, ret, endLine); t != "" {
				return mk("{ " + t + " }")
			}
		}
		return il.funcLitSubs(f, x.X)
	case *ast.AssignStmt:
		if il.litOK && x.Tok == token.DEFINE && len(x.Lhs) == 1 && len(x.Rhs) == 1 {
			if id, ok := x.Lhs[0].(*ast.Ident); ok {
				if h := il.litVars[f.pkg.TypesInfo.Defs[id]]; h != nil {
					// every use is a call that is expanded in place: the definition goes away (if a call could
					// not be expanded the overlay does not compile and the loader falls back to the source as written)
					nl := strings.Count(f.text(s.Pos(), s.End()), "\n")
					return mk("{}" + strings.Repeat("\n", nl))
				}
			}
		}
		if len(x.Rhs) == 1 && (x.Tok == token.ASSIGN || x.Tok == token.DEFINE) {
			if call, h := il.siteCall(f, x.Rhs[0], false); h != nil {
				lhs := f.text(x.Lhs[0].Pos(), x.Lhs[len(x.Lhs)-1].End())
				return mk(il.expand(f, call, h, kAssign, lhs, x.Tok.String(), ret, endLine))
			}
		}
		{
			var sites []*ast.CallExpr
			okAll := true
			for _, e := range append(append([]ast.Expr{}, x.Lhs...), x.Rhs...) {
				ss := il.nestedSites(f, e)
				if ss == nil {
					// nil also means "impure": any call in e that is not a helper blocks hoisting
					hasCall := false
					ast.Inspect(e, func(k ast.Node) bool {
						switch k.(type) {
						case *ast.CallExpr, *ast.FuncLit:
							hasCall = true
						}
						return true
					})
					if hasCall {
						okAll = false
					}
				}
				sites = append(sites, ss...)
			}
			if okAll && len(sites) > 0 && x.Tok != token.DEFINE {
				if t := il.hoist(f, s.Pos(), s.End(), sites, ret, endLine); t != "" {
					return mk("{ " + t + " }")
				}
			}
			if okAll && len(sites) > 0 && x.Tok == token.DEFINE {
				// the declared names must stay visible after the statement: no enclosing block
				if t := il.hoist(f, s.Pos(), s.End(), sites, ret, endLine); t != "" {
					return mk(t)
				}
			}
		}
		var out []sub
		for _, e := range x.Rhs {
			out = append(out, il.funcLitSubs(f, e)...)
		}
		return out
	case *ast.ReturnStmt:
		if len(x.Results) == 1 {
			if call, h := il.siteCall(f, x.Results[0], tail); h != nil {
				return mk(il.expand(f, call, h, kReturn, "", "", ret, endLine))
			}
		}
		if ret == nil && len(x.Results) > 0 {
			// helper calls nested in the results of a real return: hoisted in front of it
			var sites []*ast.CallExpr
			okAll := true
			for _, e := range x.Results {
				ss := il.nestedSites(f, e)
				if ss == nil {
					hasCall := false
					ast.Inspect(e, func(k ast.Node) bool {
						switch k.(type) {
						case *ast.CallExpr, *ast.FuncLit:
							hasCall = true
						}
						return true
					})
					if hasCall {
						okAll = false
					}
				}
				sites = append(sites, ss...)
			}
			if okAll && len(sites) > 0 {
				if t := il.hoist(f, s.Pos(), s.End(), sites, ret, endLine); t != "" {
					return mk("{ " + t + " }")
				}
			}
		}
		if ret != nil {
			vals := ""
			if len(x.Results) > 0 {
				vals = f.text(x.Results[0].Pos(), x.Results[len(x.Results)-1].End())
			}
			n := len(x.Results)
			if n == 1 && len(ret.vars) > 1 {
				n = len(ret.vars)
			}
			return mk(renderReturn(ret, vals, n))
		}
		var out []sub
		for _, e := range x.Results {
			out = append(out, il.funcLitSubs(f, e)...)
		}
		return out
	case *ast.DeferStmt:
		if _, isLit := x.Call.Fun.(*ast.FuncLit); isLit {
			return il.funcLitSubs(f, x.Call)
		}
		if call, h := il.siteCall(f, x.Call, true); h != nil {
			return mk(il.expand(f, call, h, kDefer, "", "", ret, endLine))
		}
		return il.funcLitSubs(f, x.Call)
	case *ast.GoStmt:
		if _, isLit := x.Call.Fun.(*ast.FuncLit); isLit {
			return il.funcLitSubs(f, x.Call)
		}
		if call, h := il.siteCall(f, x.Call, true); h != nil {
			return mk(il.expand(f, call, h, kGo, "", "", ret, endLine))
		}
		return il.funcLitSubs(f, x.Call)
	case *ast.IfStmt:
		if x.Init != nil {
			var initText string
			switch in := x.Init.(type) {
			case *ast.ExprStmt:
				if call, h := il.siteCall(f, in.X, false); h != nil {
					initText = il.expand(f, call, h, kExpr, "", "", ret, f.line(x.Cond.Pos()))
				}
			case *ast.AssignStmt:
				if len(in.Rhs) == 1 && (in.Tok == token.ASSIGN || in.Tok == token.DEFINE) {
					if call, h := il.siteCall(f, in.Rhs[0], false); h != nil {
						lhs := f.text(in.Lhs[0].Pos(), in.Lhs[len(in.Lhs)-1].End())
						initText = il.expand(f, call, h, kAssign, lhs, in.Tok.String(), ret, f.line(x.Cond.Pos()))
					}
				}
			}
			if initText != "" {
				var inner []sub
				inner = append(inner, il.funcLitSubs(f, x.Cond)...)
				inner = append(inner, il.collectStmt(f, x.Body, ret, false)...)
				if x.Else != nil {
					inner = append(inner, il.collectStmt(f, x.Else, ret, false)...)
				}
				tail := applySubs(f.src, f.off(x.Cond.Pos()), f.off(x.End()), inner)
				return mk("{ " + initText + "; if " + tail + " }")
			}
		}
		if x.Init == nil {
			if sites := il.nestedSites(f, x.Cond); len(sites) > 0 {
				var inner []sub
				var pre []string
				okH := true
				for _, c := range sites {
					_, h := il.siteCall(f, c, false)
					if h == nil || h.decl.Type.Results == nil || len(h.decl.Type.Results.List) != 1 || len(h.decl.Type.Results.List[0].Names) > 1 {
						okH = false
						break
					}
					il.n++
					tmp := fmt.Sprintf("__h%d", il.n)
					t := il.expand(f, c, h, kAssign, tmp, ":=", ret, f.line(x.Cond.Pos()))
					if t == "" {
						okH = false
						break
					}
					pre = append(pre, t)
					inner = append(inner, sub{f.off(c.Pos()), f.off(c.End()), tmp})
				}
				if okH {
					inner = append(inner, il.collectStmt(f, x.Body, ret, false)...)
					if x.Else != nil {
						inner = append(inner, il.collectStmt(f, x.Else, ret, false)...)
					}
					tail := applySubs(f.src, f.off(x.Cond.Pos()), f.off(x.End()), inner)
					return mk("{ " + strings.Join(pre, "; ") + "; if " + tail + " }")
				}
			}
		}
		var out []sub
		out = append(out, il.funcLitSubs(f, x.Cond)...)
		out = append(out, il.collectStmt(f, x.Body, ret, false)...)
		if x.Else != nil {
			out = append(out, il.collectStmt(f, x.Else, ret, false)...)
		}
		return out
	case *ast.BlockStmt:
		return il.collectStmts(f, x.List, ret)
	case *ast.ForStmt:
		// for h() { body }  ==>  for { c := h(); if !(c) { break }; body }   (no init/post: `continue` still
		// re-evaluates the condition at the top of the loop)
		if x.Init == nil && x.Post == nil && x.Cond != nil {
			if sites := il.nestedSites(f, x.Cond); len(sites) > 0 {
				var pre []string
				var reps []sub
				okH := true
				for _, c := range sites {
					_, h := il.siteCall(f, c, false)
					if h == nil || h.decl.Type.Results == nil || len(h.decl.Type.Results.List) != 1 || len(h.decl.Type.Results.List[0].Names) > 1 {
						okH = false
						break
					}
					il.n++
					tmp := fmt.Sprintf("__h%d", il.n)
					t := il.expand(f, c, h, kAssign, tmp, ":=", ret, f.line(x.Cond.Pos()))
					if t == "" {
						okH = false
						break
					}
					pre = append(pre, t)
					reps = append(reps, sub{f.off(c.Pos()), f.off(c.End()), tmp})
				}
				// a labelled loop or unlabelled break/continue inside the body keep their meaning: the loop
				// statement itself stays the same `for`
				if okH {
					cond := applySubs(f.src, f.off(x.Cond.Pos()), f.off(x.Cond.End()), reps)
					body := applySubs(f.src, f.off(x.Body.Lbrace)+1, f.off(x.Body.Rbrace), il.collectStmts(f, x.Body.List, ret))
					return mk("for { " + strings.Join(pre, "; ") + "; if !(" + cond + ") { break }\n" + fmt.Sprintf("//line %s:%d\n", f.name, f.line(x.Body.Lbrace)) + body + "}")
				}
			}
		}
		out := il.funcLitSubs(f, x.Cond)
		return append(out, il.collectStmt(f, x.Body, ret, false)...)
	case *ast.RangeStmt:
		out := il.funcLitSubs(f, x.X)
		return append(out, il.collectStmt(f, x.Body, ret, false)...)
	case *ast.SwitchStmt:
		var out []sub
		for _, c := range x.Body.List {
			out = append(out, il.collectStmts(f, c.(*ast.CaseClause).Body, ret)...)
		}
		return out
	case *ast.TypeSwitchStmt:
		var out []sub
		for _, c := range x.Body.List {
			out = append(out, il.collectStmts(f, c.(*ast.CaseClause).Body, ret)...)
		}
		return out
	case *ast.SelectStmt:
		var out []sub
		for _, c := range x.Body.List {
			out = append(out, il.collectStmts(f, c.(*ast.CommClause).Body, ret)...)
		}
		return out
	case *ast.LabeledStmt:
		return il.collectStmt(f, x.Stmt, ret, false)
	case *ast.DeclStmt:
		return il.funcLitSubs(f, x.Decl)
	}
	return nil
}

// buildOverlay returns file contents in which every call statement of a new helper (see the file
// comment) is expanded. dir is the module directory to load, root the directory keys are relative to.
func buildOverlay(dir, root string, newKeys map[string]bool, base map[string][]byte, patterns ...string) (ov map[string][]byte, notes []string) {
	if len(newKeys) == 0 {
		return base, nil
	}
	// the normalisation is a convenience: whatever goes wrong in it, the source as written is analysed
	defer func() {
		if p := recover(); p != nil {
			ov, notes = base, []string{fmt.Sprintf("helper normalisation abandoned (internal error: %v); analysing the source as written", p)}
		}
	}()
	ov, notes = buildOverlay0(dir, root, newKeys, base, patterns...)
	if len(base) > 0 {
		merged := map[string][]byte{}
		for k, v := range base {
			merged[k] = v
		}
		for k, v := range ov {
			merged[k] = v
		}
		ov = merged
	}
	return ov, notes
}

func buildOverlay0(dir, root string, newKeys map[string]bool, base map[string][]byte, patterns ...string) (map[string][]byte, []string) {
	fset := token.NewFileSet()
	cfg := &packages.Config{
		Mode: packages.NeedName | packages.NeedFiles | packages.NeedCompiledGoFiles | packages.NeedSyntax | packages.NeedTypes | packages.NeedTypesInfo | packages.NeedImports | packages.NeedDeps,
		Dir:  dir, Fset: fset, Overlay: base,
		Env: append(os.Environ(), "GOFLAGS=-mod=mod", "GOPROXY=off", "GOSUMDB=off", "GOTOOLCHAIN=local", "GOWORK=off",
			"GOOS=linux", "GOARCH=amd64", "CGO_ENABLED=0"),
	}
	pkgs, err := packages.Load(cfg, patterns...)
	if err != nil {
		return nil, []string{"helper normalisation skipped: " + err.Error()}
	}
	il := &inliner{fset: fset, files: map[*ast.File]*ilFile{}, helpers: map[*types.Func]*ilHelper{}, expanding: map[*types.Func]bool{}, litVars: map[types.Object]*ilHelper{}}
	anyLits := false
	for k := range newKeys {
		if strings.HasPrefix(k, "lits:") {
			anyLits = true
		}
	}
	var roots []*packages.Package
	for _, p := range pkgs {
		if len(p.Errors) > 0 || p.TypesInfo == nil {
			continue
		}
		roots = append(roots, p)
		for i, af := range p.Syntax {
			if i >= len(p.CompiledGoFiles) {
				continue
			}
			name := p.CompiledGoFiles[i]
			src, err := os.ReadFile(name)
			if b, ok := base[name]; ok {
				src, err = b, nil
			}
			if err != nil {
				continue
			}
			il.files[af] = &ilFile{name: name, src: src, file: af, pkg: p, tf: fset.File(af.Pos())}
		}
	}
	// candidate helpers
	var names, forcedNames []string
	for af, f := range il.files {
		rel, _ := filepath.Rel(root, filepath.Dir(f.name))
		for _, d := range af.Decls {
			fd, ok := d.(*ast.FuncDecl)
			if !ok || !newKeys[funcKey(filepath.ToSlash(rel), fd)] {
				continue
			}
			fn, _ := f.pkg.TypesInfo.Defs[fd.Name].(*types.Func)
			if fn == nil || fd.Name.Name == "init" || fd.Name.Name == "main" {
				continue
			}
			ok, why, tailOnly := inlinableDecl(fd, f)
			if !ok {
				il.notes = append(il.notes, fmt.Sprintf("new function %s not expanded (%s)", fn.FullName(), why))
				continue
			}
			il.helpers[fn] = &ilHelper{fn: fn, decl: fd, f: f, tailOnly: tailOnly}
			forced := false
			for _, fk := range forcedHelpers {
				if fk == funcKey(filepath.ToSlash(rel), fd) {
					forced = true
				}
			}
			if forced {
				forcedNames = append(forcedNames, fn.FullName())
			} else {
				names = append(names, fn.FullName())
			}
		}
	}
	if len(il.helpers) == 0 && !anyLits {
		return nil, il.notes
	}
	// a helper that is used other than by a static call from its own package is an API, not a helper
	for _, p := range roots {
		for id, obj := range p.TypesInfo.Uses {
			fn, ok := obj.(*types.Func)
			if !ok || il.helpers[fn] == nil {
				continue
			}
			if fn.Pkg() != p.Types {
				delete(il.helpers, fn)
				continue
			}
			_ = id
		}
	}
	overlay := map[string][]byte{}
	var files []*ilFile
	for _, f := range il.files {
		files = append(files, f)
	}
	sort.Slice(files, func(i, j int) bool { return files[i].name < files[j].name })
	for _, f := range files {
		var subs []sub
		for _, d := range f.file.Decls {
			fd, ok := d.(*ast.FuncDecl)
			if !ok || fd.Body == nil {
				continue
			}
			rel, _ := filepath.Rel(root, filepath.Dir(f.name))
			key := funcKey(filepath.ToSlash(rel), fd)
			il.litOK = newKeys[key] || newKeys["lits:"+key]
			if il.litOK {
				il.findLitVars(f, fd)
			}
			if fn, _ := f.pkg.TypesInfo.Defs[fd.Name].(*types.Func); fn != nil && il.helpers[fn] != nil {
				// the helper's own body is expanded where it is used; inside itself only nested helpers are expanded
				il.expanding[fn] = true
				subs = append(subs, il.collectStmtsT(f, fd.Body.List, nil, true)...)
				delete(il.expanding, fn)
				il.litOK = false
				continue
			}
			subs = append(subs, il.collectStmtsT(f, fd.Body.List, nil, true)...)
			il.litOK = false
		}
		if len(subs) == 0 {
			continue
		}
		out := applySubs(f.src, 0, len(f.src), subs)
		if !bytes.Equal([]byte(out), f.src) {
			overlay[f.name] = []byte(out)
		}
	}
	sort.Strings(names)
	if len(overlay) > 0 {
		sort.Strings(forcedNames)
		if len(forcedNames) > 0 {
			il.notes = append(il.notes, "canonical in-line form: the calls of "+strings.Join(forcedNames, ", ")+" are analysed expanded into their callers (inline.go, forcedHelpers)")
		}
		what := strings.Join(names, ", ")
		if anyLits {
			if what != "" {
				what += "; "
			}
			what += "directly called function literals in functions that gained literals since the pinned tree"
		}
		if what != "" {
			il.notes = append(il.notes, fmt.Sprintf("helper normalisation: calls of functions that are not in the pinned tree / of local closures expanded in place before analysis: %s", what))
		}
	}
	return overlay, il.notes
}

// findLitVars records the local variables of fd that are bound exactly once (x := func...) to a function
// literal and are used only as the function of a call: such a closure is a local helper and its calls
// are expanded like those of a new named helper.
func (il *inliner) findLitVars(f *ilFile, fd *ast.FuncDecl) {
	if fd.Body == nil {
		return
	}
	info := f.pkg.TypesInfo
	cand := map[types.Object]*ast.FuncLit{}
	ast.Inspect(fd.Body, func(m ast.Node) bool {
		if as, ok := m.(*ast.AssignStmt); ok && as.Tok == token.DEFINE && len(as.Lhs) == 1 && len(as.Rhs) == 1 {
			if id, ok := as.Lhs[0].(*ast.Ident); ok {
				if fl, ok := as.Rhs[0].(*ast.FuncLit); ok {
					if obj := info.Defs[id]; obj != nil {
						cand[obj] = fl
					}
				}
			}
		}
		return true
	})
	if len(cand) == 0 {
		return
	}
	bad := map[types.Object]bool{}
	callFun := map[*ast.Ident]bool{}
	ast.Inspect(fd.Body, func(m ast.Node) bool {
		switch x := m.(type) {
		case *ast.CallExpr:
			if id, ok := x.Fun.(*ast.Ident); ok {
				callFun[id] = true
			}
		case *ast.GoStmt:
			if id, ok := x.Call.Fun.(*ast.Ident); ok {
				bad[info.Uses[id]] = true
			}
		case *ast.DeferStmt:
			if id, ok := x.Call.Fun.(*ast.Ident); ok {
				bad[info.Uses[id]] = true
			}
		case *ast.AssignStmt:
			if x.Tok != token.DEFINE {
				for _, l := range x.Lhs {
					if id, ok := l.(*ast.Ident); ok {
						bad[info.Uses[id]] = true
					}
				}
			}
		}
		return true
	})
	ast.Inspect(fd.Body, func(m ast.Node) bool {
		if id, ok := m.(*ast.Ident); ok {
			if obj := info.Uses[id]; obj != nil && cand[obj] != nil && !callFun[id] {
				bad[obj] = true
			}
		}
		return true
	})
	for obj, fl := range cand {
		if bad[obj] {
			continue
		}
		// a closure that calls itself cannot be expanded
		rec := false
		ast.Inspect(fl.Body, func(m ast.Node) bool {
			if id, ok := m.(*ast.Ident); ok && info.Uses[id] == obj {
				rec = true
			}
			return true
		})
		if rec {
			continue
		}
		d := &ast.FuncDecl{Name: ast.NewIdent(obj.Name()), Type: fl.Type, Body: fl.Body}
		ok, _, tailOnly := inlinableDecl(d, f)
		if !ok {
			continue
		}
		il.litVars[obj] = &ilHelper{decl: d, f: f, tailOnly: tailOnly}
	}
}
