package main

import (
	"go/token"
	"go/types"
	"sort"
	"strings"

	"golang.org/x/tools/go/ssa"
)

// globalConstValue: a package-level variable that is initialised with a constant and never assigned
// anywhere else in the program.
func globalConstValue(w *World, g *ssa.Global) (int64, bool) {
	var val int64
	n := 0
	okAll := true
	for _, sp := range w.SSA {
		fns := append([]*ssa.Function{}, w.Funcs(sp)...)
		if init := sp.Func("init"); init != nil {
			fns = append(fns, init)
		}
		for _, fn := range fns {
			eachInstr(fn, func(in ssa.Instruction) {
				st, ok := in.(*ssa.Store)
				if !ok || st.Addr != ssa.Value(g) {
					return
				}
				n++
				k, isC := constInt(st.Val)
				if !isC || fn.Name() != "init" {
					okAll = false
				}
				val = k
			})
		}
	}
	return val, n == 1 && okAll
}

// thresholdValue: v is a constant or a load of a constant-initialised global.
func thresholdValue(w *World, v ssa.Value) (int64, string, bool) {
	if k, ok := constInt(v); ok {
		return k, "const", true
	}
	if ld, ok := v.(*ssa.UnOp); ok && ld.Op == token.MUL {
		if g, ok := ld.X.(*ssa.Global); ok {
			if k, ok := globalConstValue(w, g); ok {
				return k, g.Name(), true
			}
			return 0, g.Name() + " (assigned at run time)", false
		}
	}
	return 0, pathOf(v), false
}

func init() {
	register(&Rule{ID: "C15.R1", Props: []string{"C15"}, Min: 2, Needs: NeedMain,
		Doc: "no block without failures: every store status=false of an adapter is dominated by the true edge of a comparison failCounter >= K with K >= 2 (K a constant or a never-reassigned package variable), where failCounter is lastFailCount or failCount",
		Run: func(r *R) {
			sp := r.w.Pkg("tars")
			n := 0
			for _, fn := range r.w.Funcs(sp) {
				eachInstr(fn, func(in ssa.Instruction) {
					st, ok := in.(*ssa.Store)
					if !ok || !isFieldOf(st.Addr, adapterT, "status") {
						return
					}
					if b, isB := constBool(st.Val); !isB || b {
						return
					}
					n++
					okk, desc := false, "no dominating failure-count guard"
					for _, f := range facts(in.Block()) {
						c, okc := normFact(f)
						if !okc {
							continue
						}
						_, name, _, isF := loadedField(c.X)
						if !isF || (name != "lastFailCount" && name != "failCount") {
							continue
						}
						k, src, isK := thresholdValue(r.w, c.Y)
						if !isK {
							desc = "threshold " + src + " is not a constant"
							continue
						}
						if (c.Op == token.GEQ && k >= 2) || (c.Op == token.GTR && k >= 1) {
							okk = true
							desc = name + " >= " + src
						} else {
							desc = name + " compared with " + src + " allows fewer than two failures"
						}
					}
					r.Check(okk, fname(fn), "status=false guarded by >= 2 failures", in.Pos(), "guard: %s", "an endpoint can be blocked with fewer than two failures since it was (re)instated: %s", desc)
				})
			}
			if n < 2 {
				r.Bad("tars", "status=false sites", token.NoPos, "found %d sites that block an adapter (expected the consecutive-failure and the ratio rule)", n)
			}
		}})

	register(&Rule{ID: "C15.R2", Props: []string{"C15"}, Min: 1, Needs: NeedMain,
		Doc: "probe spacing: the needCheck=true return of the health check is dominated by now - lastBlockTime >= tryTimeInterval (>= 30) and by a store lastBlockTime = now, so a blocked endpoint is probed at most once per interval",
		Run: func(r *R) {
			fn := r.w.Func("tars", "AdapterProxy.checkActive")
			if fn == nil {
				r.AnchorMissing("tars.(*AdapterProxy).checkActive")
				return
			}
			n := 0
			for _, rp := range returnPaths(fn) {
				ret, b := rp.ret, rp.from
				if len(rp.vals) != 2 {
					continue
				}
				// every way needCheck can come out true (the constant, or a computed condition such as
				// `ReConnect() == nil`)
				if v, isC := constBool(rp.vals[1]); isC && !v {
					continue
				}
				n++
				spaced, stamped, blocked := false, false, false
				for _, f := range rp.pathFacts() {
					c, okc := normFact(f)
					if !okc {
						continue
					}
					if bo, isB := c.X.(*ssa.BinOp); isB && bo.Op == token.SUB && strings.HasSuffix(pathOf(bo.Y), ".lastBlockTime") && c.Op == token.GEQ {
						if k, _, isK := thresholdValue(r.w, c.Y); isK && k >= 30 {
							spaced = true
						}
					}
					if _, name, _, isF := loadedField(c.X); isF && name == "status" && c.boolIs(c.X, false) {
						blocked = true
					}
				}
				eachInstr(fn, func(in ssa.Instruction) {
					if st, ok := in.(*ssa.Store); ok && isFieldOf(st.Addr, adapterT, "lastBlockTime") && (instrDominates(in, ret) || instrDominates(in, b.Instrs[len(b.Instrs)-1])) {
						for _, f := range facts(in.Block()) {
							if c, okc := normFact(f); okc && c.Op == token.GEQ {
								if bo, isB := c.X.(*ssa.BinOp); isB && bo.Op == token.SUB && strings.HasSuffix(pathOf(bo.Y), ".lastBlockTime") {
									stamped = true
								}
							}
						}
					}
				})
				r.Check(spaced && stamped && blocked, fname(fn), "probe at most every tryTimeInterval", ret.Pos(), "needCheck only for a blocked endpoint after >= 30 s, with lastBlockTime restamped", "needCheck=true is returned without (spacing>=30s:%v, restamp:%v, only-when-blocked:%v): a blocked endpoint is probed too often or an active one is probed", spaced, stamped, blocked)
			}
			if n < 1 {
				r.Bad(fname(fn), "needCheck returns", fn.Pos(), "found %d returns with needCheck=true (expected at least 1)", n)
			}
		}})

	register(&Rule{ID: "C15.R3", Props: []string{"C15"}, Min: 2, Needs: NeedMain,
		Doc: "reinstatement only after a reply: the calls that put an endpoint back into rotation (adapter reset / addAliveEp) are reachable from the exchange only on the reply branch of its select and under needCheck; success/failure accounting happens at exactly one layer (a function that calls failAdd/successAdd calls nothing that does so too)",
		Run: func(r *R) {
			ex := exchangeFunc(r.w)
			if ex == nil {
				r.AnchorMissing("client exchange function")
				return
			}
			sp := r.w.Pkg("tars")
			var sel *ssa.Select
			eachInstr(ex, func(in ssa.Instruction) {
				if s, ok := in.(*ssa.Select); ok && s.Blocking {
					sel = s
				}
			})
			if sel == nil {
				r.Undecided(fname(ex), "reply select", ex.Pos(), "no blocking select")
				return
			}
			var idx ssa.Value
			for _, ref := range *sel.Referrers() {
				if e, ok := ref.(*ssa.Extract); ok && e.Index == 0 {
					idx = e
				}
			}
			replyIdx := int64(-1)
			for i, st := range sel.States {
				if _, isMk := strip(st.Chan, false).(*ssa.MakeChan); isMk {
					replyIdx = int64(i)
				}
			}
			// where are addAliveEp / reset called (incl. closures of the exchange)?
			n := 0
			for _, fn := range r.w.Funcs(sp) {
				eachInstr(fn, func(in ssa.Instruction) {
					c := callCommon(in)
					if c == nil {
						return
					}
					o := calleeObj(c)
					if o == nil || (o.Name() != "addAliveEp" && !(o.Name() == "reset" && strings.HasSuffix(funcID(o), "(AdapterProxy).reset"))) {
						return
					}
					n++
					root := fn
					var mk ssa.Instruction
					for root.Parent() != nil {
						p := root.Parent()
						eachInstr(p, func(j ssa.Instruction) {
							if mc, ok := j.(*ssa.MakeClosure); ok && mc.Fn == ssa.Value(root) {
								mk = j
							}
						})
						root = p
					}
					okk := false
					// the calls may sit in a function of their own that the exchange starts (`go s.reinstate(adp,
					// msg)`, also through a method value): then the place that matters is that call
					if root != ex && root.Parent() == nil {
						var sites []ssa.Instruction
						all := true
						for _, g := range r.w.Funcs(sp) {
							eachInstr(g, func(j ssa.Instruction) {
								cc := callCommon(j)
								if cc == nil || resolveCallee(cc) != root {
									return
								}
								gr := g
								for gr.Parent() != nil {
									gr = gr.Parent()
								}
								if gr != ex || g != ex {
									all = false
								}
								sites = append(sites, j)
							})
						}
						if all && len(sites) == 1 {
							root, mk = ex, sites[0]
						}
					}
					if root == ex && mk != nil {
						onReply, underCheck := false, false
						for _, f := range facts(mk.Block()) {
							cm, okc := normFact(f)
							if !okc {
								continue
							}
							if cm.X == idx && cm.Op == token.EQL {
								if k, isK := constInt(cm.Y); isK && k == replyIdx {
									onReply = true
								}
							}
							if ex2, isEx := cm.X.(*ssa.Extract); isEx && ex2.Index == 1 && cm.boolIs(cm.X, true) {
								if cc, isC := ex2.Tuple.(*ssa.Call); isC {
									if o2 := calleeObj(&cc.Call); o2 != nil && o2.Name() == "SelectAdapterProxy" {
										underCheck = true
									}
								}
							}
						}
						// the default branch of a select chain: reply case is the last one tested → `index != others`
						if !onReply && replyIdx >= 0 {
							neq := 0
							for _, f := range facts(mk.Block()) {
								if cm, okc := normFact(f); okc && cm.X == idx && cm.Op == token.NEQ {
									neq++
								}
							}
							if neq == len(sel.States)-1 {
								onReply = true
							}
						}
						okk = onReply && underCheck
					}
					r.Check(okk, fname(fn), "reinstatement via "+o.Name(), in.Pos(), "only on the reply branch of the exchange, under needCheck", "%s can run without a reply having been received for a probe: a blocked endpoint returns to rotation although it never answered", o.Name())
				})
			}
			if n < 2 {
				r.Bad("tars", "reinstatement sites", ex.Pos(), "found %d reinstatement calls (expected reset and addAliveEp)", n)
			}
			// accounting at one layer
			counts := func(f *ssa.Function, name string) bool {
				found := false
				eachInstr(f, func(in ssa.Instruction) {
					if c := callCommon(in); c != nil {
						if o := calleeObj(c); o != nil && o.Name() == name && strings.Contains(funcID(o), "(AdapterProxy)") {
							found = true
						}
					}
				})
				return found
			}
			for _, name := range []string{"failAdd", "successAdd"} {
				for _, fn := range r.w.Funcs(sp) {
					if fn.Parent() != nil || !counts(fn, name) {
						continue
					}
					dup := ""
					for _, g := range staticCone(r.w, []*ssa.Function{fn}, map[*ssa.Package]bool{sp: true, r.w.Pkg("tars/transport"): true}) {
						if g != fn && g.Parent() == nil && counts(g, name) && g.Name() != name {
							dup = fname(g)
						}
					}
					r.Check(dup == "", fname(fn), name+" counted at one layer", fn.Pos(), "no callee counts the same outcome again", "%s is called here and again inside the callee %s: one failed call is counted twice, so a single failure can block an endpoint", name, dup)
				}
			}
		}})

	register(&Rule{ID: "C15.R6", Props: []string{"C15"}, Min: 2, Needs: NeedMain,
		Doc: "reinstatement clears the failure history: every failure/send counter that a blocking decision (a guard dominating status=false) reads is reset to 0 by the function that puts the adapter back (stores status=true after construction), so an endpoint is never blocked again for failures it had before it was reinstated",
		Run: func(r *R) {
			sp := r.w.Pkg("tars")
			counters := map[string]bool{}
			for _, fn := range r.w.Funcs(sp) {
				eachInstr(fn, func(in ssa.Instruction) {
					st, ok := in.(*ssa.Store)
					if !ok || !isFieldOf(st.Addr, adapterT, "status") {
						return
					}
					if b, isB := constBool(st.Val); !isB || b {
						return
					}
					var walk func(v ssa.Value, d int)
					walk = func(v ssa.Value, d int) {
						if d > 6 || v == nil {
							return
						}
						if owner, name, _, ok := loadedField(v); ok && owner == adapterT {
							if bk := basicKind(v.Type()); bk == types.Int32 || bk == types.Int64 {
								if strings.HasSuffix(strings.ToLower(name), "count") {
									counters[name] = true
								}
							}
							return
						}
						switch x := v.(type) {
						case *ssa.BinOp:
							walk(x.X, d+1)
							walk(x.Y, d+1)
						case *ssa.Convert:
							walk(x.X, d+1)
						case *ssa.Call:
							for _, a := range x.Call.Args {
								walk(a, d+1)
							}
						}
					}
					for _, f := range facts(in.Block()) {
						if c, okc := normFact(f); okc {
							walk(c.X, 0)
							walk(c.Y, 0)
						}
					}
				})
			}
			// reinstatement function: stores status=true and is a method (not the constructor)
			var reinst *ssa.Function
			for _, fn := range r.w.Funcs(sp) {
				if fn.Signature.Recv() == nil || typeID(fn.Signature.Recv().Type()) != adapterT {
					continue
				}
				eachInstr(fn, func(in ssa.Instruction) {
					if st, ok := in.(*ssa.Store); ok && isFieldOf(st.Addr, adapterT, "status") {
						if b, isB := constBool(st.Val); isB && b {
							reinst = fn
						}
					}
				})
			}
			if reinst == nil || len(counters) == 0 {
				r.Bad("tars", "reinstatement", token.NoPos, "reinstatement function or blocking counters not found (%d counters)", len(counters))
				return
			}
			zeroed := map[string]bool{}
			eachInstr(reinst, func(in ssa.Instruction) {
				if st, ok := in.(*ssa.Store); ok {
					if fv, _, ok := fieldAddrOf(st.Addr); ok {
						if k, isK := constInt(st.Val); isK && k == 0 {
							zeroed[fv.Name()] = true
						}
					}
				}
				if c := callCommon(in); c != nil && (strings.HasPrefix(atomicOp(c), "Swap") || strings.HasPrefix(atomicOp(c), "Store")) {
					if fv, _, ok := fieldAddrOf(c.Args[0]); ok {
						if k, isK := constInt(c.Args[1]); isK && k == 0 {
							zeroed[fv.Name()] = true
						}
					}
				}
			})
			var names []string
			for n := range counters {
				names = append(names, n)
			}
			sort.Strings(names)
			for _, n := range names {
				r.Check(zeroed[n], fname(reinst), "clears "+n, reinst.Pos(), "%s = 0 on reinstatement", "%s is read by a blocking decision but not reset when the endpoint is reinstated: stale failures from the previous outage block it again although every call since reinstatement succeeded", n)
			}
		}})

	register(&Rule{ID: "C15.R5", Props: []string{"C15"}, Min: 3, Needs: NeedMain,
		Doc: "never `no endpoint` while the registry knows one: every return of a nil adapter in the selection is on the edge where a direct proxy has no endpoint or the registry's list is empty; the random fallback over the registry's list exists on the not-direct path",
		Run: func(r *R) {
			fn := r.w.Func("tars", "endpointManager.SelectAdapterProxy")
			if fn == nil {
				r.AnchorMissing("tars.(*endpointManager).SelectAdapterProxy")
				return
			}
			n := 0
			for _, b := range fn.Blocks {
				ret, ok := b.Instrs[len(b.Instrs)-1].(*ssa.Return)
				if !ok || !isNilConst(ret.Results[0]) {
					continue
				}
				n++
				direct, regEmpty, directEmpty := false, false, false
				var lists []string
				for _, f := range facts(b) {
					c, okc := normFact(f)
					if !okc {
						continue
					}
					if strings.HasSuffix(pathOf(c.X), ".directProxy") {
						if c.boolIs(c.X, true) {
							direct = true
						}
					}
					if k, isK := constInt(c.Y); isK && k == 0 && c.Op == token.EQL && strings.HasPrefix(pathOf(c.X), "len(") {
						lists = append(lists, pathOf(c.X))
						if strings.Contains(pathOf(c.X), "activeEpf") {
							regEmpty = true
						} else {
							directEmpty = true
						}
					}
				}
				r.Check(regEmpty || (direct && directEmpty), fname(fn), "nil adapter only when nothing is known", ret.Pos(), "on the edge %v (direct=%v)", "`no adapter` is returned on the edge %v (direct=%v): for a registry servant the call fails outright although the registry still lists endpoints (all blocked)", lists, direct)
			}
			if n < 2 {
				r.Bad(fname(fn), "nil returns", fn.Pos(), "found %d explicit nil-adapter returns (expected the direct and the registry guard)", n)
			}
			fallback := false
			eachInstr(fn, func(in ssa.Instruction) {
				if c, ok := in.(*ssa.Call); ok {
					if o := calleeObj(&c.Call); o != nil && o.Name() == "Intn" && strings.Contains(pathOf(c.Call.Args[len(c.Call.Args)-1]), "activeEpf") {
						for _, f := range facts(in.Block()) {
							if cm, okc := normFact(f); okc && strings.HasSuffix(pathOf(cm.X), ".directProxy") && cm.boolIs(cm.X, false) {
								fallback = true
							}
						}
					}
				}
			})
			r.Check(fallback, fname(fn), "random fallback over the registry's list", fn.Pos(), "when no active endpoint is selected, a random registry endpoint is tried", "there is no fallback over the registry's endpoint list when nothing is active")
		}})
}

func init() {
	register(&Rule{ID: "C15.R7", Props: []string{"C15"}, Min: 1, Needs: NeedMain,
		Doc: "one probe per blocked endpoint: every hand-over of an adapter to the probe queue (a send on endpointManager.checkAdapter) is dominated by a failed lookup of that endpoint in checkAdapterList (the set of endpoints already queued) and records the endpoint there — otherwise an endpoint is queued once per status check while nobody calls, and all those probes hit the dead endpoint in a row when traffic resumes",
		Run: func(r *R) {
			sp := r.w.Pkg("tars")
			if sp == nil {
				r.AnchorMissing("package tars")
				return
			}
			for _, fn := range r.w.Funcs(sp) {
				eachInstr(fn, func(in ssa.Instruction) {
					var ch ssa.Value
					switch x := in.(type) {
					case *ssa.Send:
						ch = x.Chan
					case *ssa.Select:
						for _, st := range x.States {
							if st.Dir == types.SendOnly {
								ch = st.Chan
							}
						}
					}
					if ch == nil || !strings.HasSuffix(pathOf(ch), ".checkAdapter") {
						return
					}
					absent, storedAtomically := false, false
					for _, f := range facts(in.Block()) {
						c, taken := f.Cond, f.Taken
						for {
							if u, ok := c.(*ssa.UnOp); ok && u.Op == token.NOT {
								c, taken = u.X, !taken
								continue
							}
							break
						}
						ex, ok := c.(*ssa.Extract)
						if !ok || ex.Index != 1 || taken {
							continue
						}
						if call, ok := ex.Tuple.(*ssa.Call); ok && funcID(calleeObj(&call.Call)) == "sync.(Map).Load" && strings.HasSuffix(pathOf(call.Call.Args[0]), ".checkAdapterList") {
							absent = true
						}
						// LoadOrStore does the test and the recording in one step
						if call, ok := ex.Tuple.(*ssa.Call); ok && funcID(calleeObj(&call.Call)) == "sync.(Map).LoadOrStore" && strings.HasSuffix(pathOf(call.Call.Args[0]), ".checkAdapterList") {
							absent, storedAtomically = true, true
						}
					}
					stored := storedAtomically
					eachInstr(fn, func(j ssa.Instruction) {
						if c := callCommon(j); c != nil && funcID(calleeObj(c)) == "sync.(Map).Store" && strings.HasSuffix(pathOf(c.Args[0]), ".checkAdapterList") {
							if j.Block() == in.Block() || instrDominates(j, in) || instrDominates(in, j) {
								stored = true
							}
						}
					})
					r.Check(absent && stored, fname(fn), "probe queued once", in.Pos(), "queued only when not yet in checkAdapterList, and recorded there", "an adapter is handed to the probe queue without the `not yet queued` test on checkAdapterList (test:%v recorded:%v): a blocked endpoint is queued at every status check and then probed many times in a row", absent, stored)
				})
			}
		}})
}
