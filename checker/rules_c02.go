package main

import (
	"fmt"
	"go/token"
	"go/types"
	"sort"
	"strings"

	"golang.org/x/tools/go/ssa"
)

// ---- the Tars wire-format table (the oracle of C02/C04) ----------------------------------------

const (
	wBYTE, wSHORT, wINT, wLONG, wFLOAT, wDOUBLE, wSTRING1, wSTRING4 = 0, 1, 2, 3, 4, 5, 6, 7
	wMAP, wLIST, wStructBegin, wStructEnd, wZeroTag, wSimpleList    = 8, 9, 10, 11, 12, 13
)

var wireNames = []string{"BYTE", "SHORT", "INT", "LONG", "FLOAT", "DOUBLE", "STRING1", "STRING4", "MAP", "LIST", "StructBegin", "StructEnd", "ZeroTag", "SimpleList"}

func wname(k int64) string {
	if k >= 0 && int(k) < len(wireNames) {
		return wireNames[k]
	}
	return fmt.Sprint(k)
}

// fixed payload bytes following the head (for strings: width of the length field)
var wirePayload = map[int64]int64{wBYTE: 1, wSHORT: 2, wINT: 4, wLONG: 8, wFLOAT: 4, wDOUBLE: 8, wSTRING1: 1, wSTRING4: 4, wZeroTag: 0, wStructEnd: 0}
var wireVariable = map[int64]bool{wSTRING1: true, wSTRING4: true} // followed by `length` more bytes

// admissible wire types per Go schema type (by basic kind)
var admissible = map[types.BasicKind][]int64{
	types.Int8:    {wZeroTag, wBYTE},
	types.Int16:   {wZeroTag, wBYTE, wSHORT},
	types.Int32:   {wZeroTag, wBYTE, wSHORT, wINT},
	types.Int64:   {wZeroTag, wBYTE, wSHORT, wINT, wLONG},
	types.Float32: {wZeroTag, wFLOAT},
	types.Float64: {wZeroTag, wFLOAT, wDOUBLE},
	types.String:  {wSTRING1, wSTRING4},
}

// the codec's own constants must agree with the table
func checkWireConsts(r *R) bool {
	sp := r.w.Pkg(codecPkg)
	ok := true
	for k, n := range wireNames {
		c, found := sp.Members[n].(*ssa.NamedConst)
		if !found {
			r.AnchorMissing("codec." + n)
			ok = false
			continue
		}
		v, _ := constInt(c.Value)
		if v != int64(k) {
			r.Bad("codec", "const "+n, c.Pos(), "wire type constant %s = %d, the Tars wire format says %d", n, v, k)
			ok = false
		}
	}
	return ok
}

// ---- widths --------------------------------------------------------------------------------------

type width struct {
	fixed    int64
	variable int // number of variable-length transfers
	calls    []string
}

func (w *width) add(o width) {
	w.fixed += o.fixed
	w.variable += o.variable
	w.calls = append(w.calls, o.calls...)
}

// widthOfCall: bytes a call appends to / consumes from the underlying buffer.
func widthOfCall(c *ssa.CallCommon, depth int) (width, bool) {
	id := funcID(calleeObj(c))
	short := calleeShort(c)
	switch id {
	case "bytes.(Buffer).WriteByte", "bytes.(Reader).ReadByte":
		return width{fixed: 1, calls: []string{short}}, true
	case "bytes.(Buffer).Write", "bytes.(Reader).Read":
		if n, ok := fixedLen(c.Args[1]); ok {
			return width{fixed: n, calls: []string{short}}, true
		}
		return width{variable: 1, calls: []string{short}}, true
	case "io.ReadFull":
		if n, ok := fixedLen(c.Args[1]); ok {
			return width{fixed: n, calls: []string{short}}, true
		}
		return width{variable: 1, calls: []string{short}}, true
	case "bytes.(Buffer).WriteString":
		return width{variable: 1, calls: []string{short}}, true
	case modPath + "/" + codecPkg + ".(Reader).Skip", modPath + "/" + codecPkg + ".(Reader).Next":
		if n, ok := constInt(c.Args[1]); ok {
			return width{fixed: n, calls: []string{short}}, true
		}
		return width{variable: 1, calls: []string{short}}, true
	}
	// package-level helper of codec taking *bytes.Buffer / *bytes.Reader
	if sc := c.StaticCallee(); sc != nil && depth < 3 && sc.Signature.Recv() == nil && sc.Pkg != nil && sc.Pkg.Pkg.Path() == modPath+"/"+codecPkg {
		hasBuf := false
		for _, p := range sc.Params {
			if id := typeID(p.Type()); id == "bytes.Buffer" || id == "bytes.Reader" {
				hasBuf = true
			}
			// or an interface over it (`type byteSource interface{ io.Reader; io.ByteReader }`)
			if it, ok := p.Type().Underlying().(*types.Interface); ok {
				for i := 0; i < it.NumMethods(); i++ {
					switch it.Method(i).Name() {
					case "Read", "ReadByte", "Write", "WriteByte":
						hasBuf = true
					}
				}
			}
		}
		if !hasBuf {
			return width{}, false
		}
		var w width
		eachInstr(sc, func(in ssa.Instruction) {
			if cc := callCommon(in); cc != nil {
				if ww, ok := widthOfCall(cc, depth+1); ok {
					w.add(ww)
				}
			}
		})
		w.calls = []string{short}
		return w, true
	}
	return width{}, false
}

// wireTypeValue returns the value holding the wire type in a reader-side function: the byte
// parameter named by position (skipField(ty)) or the byte result of SkipToNoCheck.
func wireTypeValue(fn *ssa.Function) ssa.Value {
	var v ssa.Value
	eachInstr(fn, func(in ssa.Instruction) {
		if ex, ok := in.(*ssa.Extract); ok && ex.Index == 1 {
			if c, ok := ex.Tuple.(*ssa.Call); ok && callIs(&c.Call, "~/"+codecPkg+".(Reader).SkipToNoCheck") {
				v = ex
			}
		}
	})
	return v
}

func singleton(s iset) (int64, bool) {
	if len(s) == 1 && s[0].lo == s[0].hi {
		return s[0].lo, true
	}
	return 0, false
}

// readerMethods: methods of *codec.Reader with signature (*T, byte, bool) error.
func readerMethods(w *World) map[string]*ssa.Function {
	out := map[string]*ssa.Function{}
	sp := w.Pkg(codecPkg)
	for _, fn := range w.Funcs(sp) {
		sig := fn.Signature
		if sig.Recv() == nil || typeID(sig.Recv().Type()) != modPath+"/"+codecPkg+".Reader" || sig.Params().Len() != 3 || fn.Parent() != nil {
			continue
		}
		pt, ok := sig.Params().At(0).Type().(*types.Pointer)
		if !ok {
			continue
		}
		if _, ok := pt.Elem().Underlying().(*types.Basic); !ok {
			continue
		}
		if b, ok := sig.Params().At(2).Type().Underlying().(*types.Basic); !ok || b.Kind() != types.Bool {
			continue
		}
		out[fn.Name()] = fn
	}
	return out
}

// writerMethods: methods of *codec.Buffer with signature (T, byte) error, T basic.
func writerMethods(w *World) map[string]*ssa.Function {
	out := map[string]*ssa.Function{}
	sp := w.Pkg(codecPkg)
	for _, fn := range w.Funcs(sp) {
		sig := fn.Signature
		if sig.Recv() == nil || typeID(sig.Recv().Type()) != modPath+"/"+codecPkg+".Buffer" || sig.Params().Len() != 2 || fn.Parent() != nil {
			continue
		}
		if _, ok := sig.Params().At(0).Type().Underlying().(*types.Basic); !ok {
			continue
		}
		if b, ok := sig.Params().At(1).Type().Underlying().(*types.Basic); !ok || b.Kind() != types.Uint8 {
			continue
		}
		if fn.Name() == "WriteHead" {
			continue
		}
		out[fn.Name()] = fn
	}
	return out
}

func basicKind(t types.Type) types.BasicKind {
	if p, ok := t.(*types.Pointer); ok {
		t = p.Elem()
	}
	if b, ok := t.Underlying().(*types.Basic); ok {
		return b.Kind()
	}
	return types.Invalid
}

func sortedKeys(m map[string]*ssa.Function) []string {
	var ks []string
	for k := range m {
		ks = append(ks, k)
	}
	sort.Strings(ks)
	return ks
}

func init() {
	register(&Rule{ID: "C02.R1", Props: []string{"C02"}, Min: 8, Needs: NeedMain,
		Doc: "head layout: WriteHead emits one byte tag<<4|ty for tag in [0,14] and 0xF0|ty then tag for [15,255]; readHead extracts ty=b0[3:0], tag=b0[7:4] or b1 exactly when the high nibble is 15 (bit-provenance comparison of writer and reader with the wire table); every WriteHead call passes a constant type in [0,13]",
		Run: ruleHeadLayout})

	register(&Rule{ID: "C02.R2", Props: []string{"C02", "C04"}, Min: 30, Needs: NeedMain,
		Doc: "payload width agrees three ways and with the wire table: bytes appended after WriteHead(K) in each writer = bytes consumed in case K of each reader = bytes skipped in skipField's case K",
		Run: rulePayloadWidths})

	register(&Rule{ID: "C02.R3", Props: []string{"C02", "C03"}, Min: 14, Needs: NeedMain,
		Doc: "narrowest width: the set of values reaching each narrower-writer call / each WriteHead(K) equals the table (interval analysis), narrowing conversions are to exactly the narrower type, unsigned writers widen by one zero-extending conversion, strings switch to STRING4 exactly above 255 bytes, the zero marker is used exactly for 0",
		Run: ruleNarrowest})

	register(&Rule{ID: "C02.R4", Props: []string{"C02", "C06"}, Min: 16, Needs: NeedMain,
		Doc: "widening reads sign-extend and transport bits: in every reader case the stored value is the payload temporary converted uint_m -> int_m -> int_w (floats: math.FloatNNfrombits, float32->float64 widening), the zero marker stores constant 0, unsigned readers go through the signed reader of twice the width",
		Run: ruleReadConversions})

	register(&Rule{ID: "C02.R5", Props: []string{"C02"}, Min: 9, Needs: NeedMain,
		Doc: "float payloads are the IEEE bit patterns (math.Float32bits/Float64bits), multi-byte helpers use encoding/binary.BigEndian with the width of their array, string length fields are byte(len)/uint32(len) of the same string",
		Run: ruleBitsAndOrder})

	register(&Rule{ID: "C02.R8", Props: []string{"C02", "C06"}, Min: 7, Needs: NeedMain,
		Doc: "admissible wire types: for every reader the set of wire types that can lead to a nil-error return equals the table row of its schema type; every other type returns a non-nil error",
		Run: ruleAdmissible})
}

// ---- R1 -----------------------------------------------------------------------------------------

func ruleHeadLayout(r *R) {
	if !checkWireConsts(r) {
		return
	}
	wh := r.w.Func(codecPkg, "Buffer.WriteHead")
	rh := r.w.Func(codecPkg, "Reader.readHead")
	if wh == nil || rh == nil {
		r.AnchorMissing("codec.(*Buffer).WriteHead / (*Reader).readHead")
		return
	}
	tyP, tagP := wh.Params[1], wh.Params[2]
	names := map[ssa.Value]string{tyP: "ty", tagP: "tag"}
	sets := valueSets(wh, tagP, nil)
	short, long := rng(0, 14), rng(15, 255)
	type wb struct {
		call *ssa.Call
		set  iset
	}
	var shortW, longW []wb
	bad := false
	eachInstr(wh, func(in ssa.Instruction) {
		c, ok := in.(*ssa.Call)
		if !ok || funcID(calleeObj(&c.Call)) != "bytes.(Buffer).WriteByte" {
			return
		}
		s := sets[c.Block()]
		switch {
		case s.subsetOf(short) && !s.empty():
			shortW = append(shortW, wb{c, s})
		case s.subsetOf(long) && !s.empty():
			longW = append(longW, wb{c, s})
		default:
			bad = true
			r.Bad(fname(wh), "WriteByte under tag set "+s.String(), c.Pos(), "a head byte is written for a tag set %s that straddles the one-byte [0,14] / two-byte [15,255] forms", s)
		}
	})
	if bad {
		return
	}
	// partition
	var su, lu iset
	for _, x := range shortW {
		su = su.union(x.set)
	}
	for _, x := range longW {
		lu = lu.union(x.set)
	}
	r.Check(su.equal(short), fname(wh), "one-byte form tag set", wh.Pos(), "tags reaching the one-byte form = %s", "tags reaching the one-byte form = %s, wire format says [0,14] (tag 15 is the escape value)", su)
	r.Check(lu.equal(long), fname(wh), "two-byte form tag set", wh.Pos(), "tags reaching the two-byte form = %s", "tags reaching the two-byte form = %s, wire format says [15,255]", lu)
	tyIn := rng(0, 13)
	// expected vectors
	expShort := bitVec{}
	expLong1 := bitVec{}
	expLong2 := bitVec{}
	for i := 0; i < 4; i++ {
		expShort[i] = bitCell{k: 'i', src: tyP, bit: i}
		expShort[i+4] = bitCell{k: 'i', src: tagP, bit: i}
		expLong1[i] = bitCell{k: 'i', src: tyP, bit: i}
		expLong1[i+4] = bitCell{k: '1'}
	}
	for i := 0; i < 8; i++ {
		expLong2[i] = bitCell{k: 'i', src: tagP, bit: i}
	}
	if len(shortW) == 1 {
		env := &bitEnv{inputs: map[ssa.Value]iset{tyP: tyIn, tagP: short}}
		got := env.eval(shortW[0].call.Call.Args[1], 0)
		r.Check(got.equal(expShort), fname(wh), "one-byte head bits", shortW[0].call.Pos(), "byte = %s", "byte = %s, wire format says [tag3 tag2 tag1 tag0 ty3 ty2 ty1 ty0]", got.String(names))
	} else {
		r.Bad(fname(wh), "one-byte head bits", wh.Pos(), "%d bytes are written for tags [0,14], the wire format says 1", len(shortW))
	}
	if len(longW) == 2 {
		a, b := longW[0], longW[1]
		if instrDominates(b.call, a.call) {
			a, b = b, a
		}
		env := &bitEnv{inputs: map[ssa.Value]iset{tyP: tyIn, tagP: long}}
		g1 := env.eval(a.call.Call.Args[1], 0)
		g2 := env.eval(b.call.Call.Args[1], 0)
		r.Check(instrDominates(a.call, b.call) && g1.equal(expLong1), fname(wh), "two-byte head first byte", a.call.Pos(), "first byte = %s", "first byte = %s, wire format says [1 1 1 1 ty3 ty2 ty1 ty0]", g1.String(names))
		r.Check(g2.equal(expLong2), fname(wh), "two-byte head second byte", b.call.Pos(), "second byte = %s", "second byte = %s, wire format says the full tag", g2.String(names))
	} else {
		r.Bad(fname(wh), "two-byte head bits", wh.Pos(), "%d bytes are written for tags [15,255], the wire format says 2", len(longW))
	}

	// who-may-call: constant type in [0,13] at every call site in the program
	nsites, badSites := 0, 0
	for _, sp := range r.w.SSA {
		for _, fn := range r.w.Funcs(sp) {
			eachInstr(fn, func(in ssa.Instruction) {
				c := callCommon(in)
				if c == nil || c.StaticCallee() != wh {
					return
				}
				nsites++
				k, ok := constInt(c.Args[1])
				if !ok || k < 0 || k > 13 {
					badSites++
					r.Bad(fname(fn), "WriteHead type argument", in.Pos(), "WriteHead is called with a type that is not a constant in [0,13]; the head layout relies on ty[7:4]=0")
				}
			})
		}
	}
	if badSites == 0 {
		r.OKLookup("program", "WriteHead call sites", wh.Pos(), "all %d call sites pass a constant wire type in [0,13]", nsites)
	}
	if nsites < 100 {
		r.Bad("program", "WriteHead call sites count", wh.Pos(), "only %d WriteHead call sites found (expected >= 100 incl. generated code): the analysis does not cover what the build covers", nsites)
	}

	// reader side
	var reads []*ssa.Call
	eachInstr(rh, func(in ssa.Instruction) {
		if c, ok := in.(*ssa.Call); ok && funcID(calleeObj(&c.Call)) == "bytes.(Reader).ReadByte" {
			reads = append(reads, c)
		}
	})
	if len(reads) != 2 {
		r.Undecided(fname(rh), "head reads", rh.Pos(), "%d ReadByte calls in readHead (expected 2)", len(reads))
		return
	}
	if !instrDominates(reads[0], reads[1]) {
		reads[0], reads[1] = reads[1], reads[0]
	}
	ext := func(c *ssa.Call) ssa.Value {
		for _, ref := range *c.Referrers() {
			if e, ok := ref.(*ssa.Extract); ok && e.Index == 0 {
				return e
			}
		}
		return nil
	}
	b0, b1 := ext(reads[0]), ext(reads[1])
	if b0 == nil || b1 == nil {
		r.Undecided(fname(rh), "head reads", rh.Pos(), "byte results not extracted")
		return
	}
	rnames := map[ssa.Value]string{b0: "b0_", b1: "b1_"}
	env := &bitEnv{inputs: map[ssa.Value]iset{b0: rng(0, 255), b1: rng(0, 255)}}
	var expTy, expNib, expB1 bitVec
	for i := 0; i < 8; i++ {
		expTy[i] = bitCell{k: '0'}
		expNib[i] = bitCell{k: '0'}
		expB1[i] = bitCell{k: 'i', src: b1, bit: i}
	}
	for i := 0; i < 4; i++ {
		expTy[i] = bitCell{k: 'i', src: b0, bit: i}
		expNib[i] = bitCell{k: 'i', src: b0, bit: i + 4}
	}
	// the high-nibble value tested for the escape
	var nib ssa.Value
	eachInstr(rh, func(in ssa.Instruction) {
		if v, ok := in.(ssa.Value); ok {
			if _, isBin := in.(*ssa.BinOp); isBin && env.eval(v, 0).equal(expNib) {
				for _, ref := range *v.Referrers() {
					if bo, ok := ref.(*ssa.BinOp); ok && (bo.Op == token.EQL || bo.Op == token.NEQ || bo.Op == token.GEQ || bo.Op == token.LSS || bo.Op == token.GTR || bo.Op == token.LEQ) {
						nib = v
					}
				}
			}
		}
	})
	if nib == nil {
		r.Bad(fname(rh), "escape test", rh.Pos(), "no value equal to the high nibble b0[7:4] is tested; the wire format selects the two-byte form by b0[7:4] == 15")
		return
	}
	nsets := valueSets(rh, nib, nil)
	nsetsFull := map[*ssa.BasicBlock]iset{}
	for b, s := range nsets {
		nsetsFull[b] = s.intersect(rng(0, 15))
	}
	esc := nsetsFull[reads[1].Block()]
	r.Check(esc.equal(rng(15, 15)), fname(rh), "escape set", reads[1].Pos(), "second head byte is read exactly when b0[7:4] ∈ %s", "second head byte is read when b0[7:4] ∈ %s; the wire format says exactly {15}", esc)
	// returns
	idx := 0
	for _, b := range rh.Blocks {
		ret, ok := b.Instrs[len(b.Instrs)-1].(*ssa.Return)
		if !ok || len(ret.Results) != 3 {
			continue
		}
		if definitelyNonNilErr(ret.Results[2], b) {
			continue // failure return: ty/tag are not used by callers' success paths
		}
		idx++
		gotTy := env.eval(ret.Results[0], 0)
		r.Check(gotTy.equal(expTy), fname(rh), fmt.Sprintf("type bits (return %d)", idx), ret.Pos(), "ty = %s", "ty = %s, wire format says [0 0 0 0 b0_3 b0_2 b0_1 b0_0]", gotTy.String(rnames))
		type leaf struct {
			v   ssa.Value
			set iset
		}
		var leaves []leaf
		if phi, ok := ret.Results[1].(*ssa.Phi); ok && phi.Block() == b {
			for i, e := range phi.Edges {
				p := b.Preds[i]
				si := 0
				if len(p.Succs) == 2 && p.Succs[1] == b {
					si = 1
				}
				s := nsetsFull[p].intersect(constraintOnEdge(p, si, trackValue(nib)))
				leaves = append(leaves, leaf{e, s})
			}
		} else {
			leaves = append(leaves, leaf{ret.Results[1], nsetsFull[b]})
		}
		for li, l := range leaves {
			got := env.eval(l.v, 0)
			cons := fmt.Sprintf("tag bits (return %d, path %d, nibble∈%s)", idx, li+1, l.set)
			switch {
			case l.set.empty():
				continue
			case l.set.subsetOf(rng(0, 14)):
				r.Check(got.equal(expNib), fname(rh), cons, ret.Pos(), "tag = %s", "tag = %s, wire format says b0[7:4] for the one-byte form", got.String(rnames))
			case l.set.equal(rng(15, 15)):
				r.Check(got.equal(expB1), fname(rh), cons, ret.Pos(), "tag = %s", "tag = %s, wire format says the second byte for the two-byte form", got.String(rnames))
			default:
				r.Bad(fname(rh), cons, ret.Pos(), "tag is produced for a nibble set that mixes the one-byte and two-byte forms")
			}
		}
	}
}

// ---- R2 -----------------------------------------------------------------------------------------

func rulePayloadWidths(r *R) {
	if !checkWireConsts(r) {
		return
	}
	wh := r.w.Func(codecPkg, "Buffer.WriteHead")
	if wh == nil {
		r.AnchorMissing("codec.(*Buffer).WriteHead")
		return
	}
	sp := r.w.Pkg(codecPkg)
	cmp := func(where, cons string, pos token.Pos, k int64, w width, side string) {
		want, known := wirePayload[k]
		if !known {
			return
		}
		wantVar := 0
		if wireVariable[k] {
			wantVar = 1
		}
		if w.fixed == want && (side == "W" && !wireVariable[k] && w.variable == 0 || side == "W" && wireVariable[k] || side != "W" && w.variable == wantVar) {
			r.OK(where, cons, pos, "%s(%s) = %d fixed byte(s)%s via %s — equals the wire table", side, wname(k), w.fixed, map[bool]string{true: " + length-prefixed content", false: ""}[wireVariable[k]], strings.Join(w.calls, "+"))
		} else {
			r.Bad(where, cons, pos, "%s(%s) = %d fixed byte(s), %d variable transfer(s) via [%s]; the wire table says %d fixed%s: the reader/skipper is left mid-field",
				side, wname(k), w.fixed, w.variable, strings.Join(w.calls, "+"), want, map[bool]string{true: " + content of the announced length", false: ""}[wireVariable[k]])
		}
	}
	// writers: bytes appended by calls dominated by each WriteHead(K) call, in the same function
	for _, fn := range r.w.Funcs(sp) {
		if fn.Signature.Recv() == nil || typeID(fn.Signature.Recv().Type()) != modPath+"/"+codecPkg+".Buffer" {
			continue
		}
		eachInstr(fn, func(in ssa.Instruction) {
			c, ok := in.(*ssa.Call)
			if !ok || c.Call.StaticCallee() != wh {
				return
			}
			k, ok := constInt(c.Call.Args[1])
			if !ok {
				return
			}
			var w width
			eachInstr(fn, func(j ssa.Instruction) {
				cc := callCommon(j)
				if cc == nil || j == in || !instrDominates(in, j) {
					return
				}
				if ww, ok := widthOfCall(cc, 0); ok {
					w.add(ww)
				}
			})
			cmp(fname(fn), "W("+wname(k)+")", c.Pos(), k, w, "W")
		})
	}
	// readers and the skipper: bytes consumed in blocks where the wire type is exactly K
	var fns []*ssa.Function
	rm := readerMethods(r.w)
	for _, n := range sortedKeys(rm) {
		fns = append(fns, rm[n])
	}
	skip := r.w.Func(codecPkg, "Reader.skipField")
	if skip == nil {
		r.AnchorMissing("codec.(*Reader).skipField")
	} else {
		fns = append(fns, skip)
	}
	for _, fn := range fns {
		var ty ssa.Value
		side := "R"
		if fn == skip {
			ty = fn.Params[1]
			side = "S"
		} else {
			ty = wireTypeValue(fn)
		}
		if ty == nil {
			continue // delegating reader (ReadUint8 ...)
		}
		sets := valueSets(fn, ty, nil)
		per := map[int64]*width{}
		pos := map[int64]token.Pos{}
		for _, b := range fn.Blocks {
			k, ok := singleton(sets[b].intersect(rng(0, 255)))
			if !ok {
				continue
			}
			if per[k] == nil {
				per[k] = &width{}
			}
			for _, in := range b.Instrs {
				if cc := callCommon(in); cc != nil {
					if ww, ok := widthOfCall(cc, 0); ok {
						per[k].add(ww)
						if pos[k] == token.NoPos {
							pos[k] = in.Pos()
						}
					}
				}
			}
		}
		// a tail shared by several cases (the cases only decode their own length prefix and the content is
		// read once after the switch) belongs to each of them: add the transfers of the blocks that are
		// reachable from the case's own blocks and are not private to another case
		for k := range per {
			own := map[*ssa.BasicBlock]bool{}
			for _, b := range fn.Blocks {
				if kk, ok := singleton(sets[b].intersect(rng(0, 255))); ok && kk == k {
					own[b] = true
				}
			}
			seenT := map[*ssa.BasicBlock]bool{}
			var walk func(b *ssa.BasicBlock)
			walk = func(b *ssa.BasicBlock) {
				for _, sc := range b.Succs {
					if seenT[sc] || own[sc] {
						continue
					}
					if _, private := singleton(sets[sc].intersect(rng(0, 255))); private {
						continue
					}
					seenT[sc] = true
					for _, in := range sc.Instrs {
						if cc := callCommon(in); cc != nil {
							if ww, ok := widthOfCall(cc, 0); ok {
								per[k].add(ww)
							}
						}
					}
					walk(sc)
				}
			}
			for b := range own {
				walk(b)
			}
		}
		var ks []int64
		for k := range per {
			ks = append(ks, k)
		}
		sort.Slice(ks, func(i, j int) bool { return ks[i] < ks[j] })
		for _, k := range ks {
			if fn != skip {
				// only types with a payload matter for readers (the default branch has no singleton set)
				if _, known := wirePayload[k]; !known {
					continue
				}
			}
			cmp(fname(fn), side+"("+wname(k)+")", pos[k], k, *per[k], side)
		}
	}
}

// ---- R3 -----------------------------------------------------------------------------------------

func ruleNarrowest(r *R) {
	if !checkWireConsts(r) {
		return
	}
	wh := r.w.Func(codecPkg, "Buffer.WriteHead")
	wm := writerMethods(r.w)
	// expected emit sets per schema kind: list of (target, set)
	type exp struct {
		target string // "head:K" or "call:WriteIntN"
		set    iset
	}
	i8, i16, i32 := typeRange(types.Typ[types.Int8]), typeRange(types.Typ[types.Int16]), typeRange(types.Typ[types.Int32])
	table := map[types.BasicKind][]exp{
		types.Int8:  {{"head:ZeroTag", rng(0, 0)}, {"head:BYTE", rng(0, 0).complementIn(i8)}},
		types.Int16: {{"call:int8", i8}, {"head:SHORT", i8.complementIn(i16)}},
		types.Int32: {{"call:int16", i16}, {"head:INT", i16.complementIn(i32)}},
		types.Int64: {{"call:int32", i32}, {"head:LONG", i32.complementIn(full())}},
	}
	widen := map[types.BasicKind]types.BasicKind{types.Uint8: types.Int16, types.Uint16: types.Int32, types.Uint32: types.Int64}
	for _, name := range sortedKeys(wm) {
		fn := wm[name]
		data := fn.Params[1]
		kind := basicKind(data.Type())
		where := fname(fn)
		type emit struct {
			target string
			set    iset
			in     *ssa.Call
		}
		collect := func(sets map[*ssa.BasicBlock]iset) []emit {
			var out []emit
			eachInstr(fn, func(in ssa.Instruction) {
				c, ok := in.(*ssa.Call)
				if !ok {
					return
				}
				sc := c.Call.StaticCallee()
				if sc == wh {
					if k, ok := constInt(c.Call.Args[1]); ok {
						out = append(out, emit{"head:" + wname(k), sets[c.Block()], c})
					}
					return
				}
				if sc != nil && wm[sc.Name()] == sc {
					out = append(out, emit{"call:" + types.Typ[basicKind(sc.Params[1].Type())].Name(), sets[c.Block()], c})
				}
			})
			return out
		}
		switch kind {
		case types.Int8, types.Int16, types.Int32, types.Int64:
			ems := collect(valueSets(fn, data, nil))
			want := table[kind]
			seen := map[string]bool{}
			for _, e := range ems {
				var w *exp
				for i := range want {
					if want[i].target == e.target {
						w = &want[i]
					}
				}
				if w == nil {
					r.Bad(where, "emit "+e.target, e.in.Pos(), "%s emits %s, which the wire table does not allow for this type", fn.Name(), e.target)
					continue
				}
				seen[e.target] = true
				ok := r.Check(e.set.equal(w.set), where, "value set at "+e.target, e.in.Pos(), "values reaching %s = %s", "values reaching %s = %s; the narrowest-width rule says "+w.set.String(), e.target, e.set)
				if ok && strings.HasPrefix(e.target, "call:") {
					// the argument is data converted to exactly the narrower type
					arg := e.in.Call.Args[1]
					cv, isC := arg.(*ssa.Convert)
					r.Check(isC && cv.X == data, where, "narrowing conversion at "+e.target, e.in.Pos(), "argument is %s(data)", "argument of the narrower writer is not a single conversion of data (%s)", arg.Type())
				}
			}
			for _, w := range want {
				if !seen[w.target] {
					r.Bad(where, "emit "+w.target, fn.Pos(), "%s never emits %s; values %s have no encoding", fn.Name(), w.target, w.set)
				}
			}
		case types.Uint8, types.Uint16, types.Uint32:
			ems := collect(valueSets(fn, data, nil))
			wantK := widen[kind]
			ok := len(ems) == 1 && ems[0].target == "call:"+types.Typ[wantK].Name() && ems[0].set.equal(typeRange(data.Type()))
			if ok {
				arg := ems[0].in.Call.Args[1]
				cv, isC := arg.(*ssa.Convert)
				ok = isC && cv.X == data
			}
			r.Check(ok, where, "zero-extending delegation", fn.Pos(), "all values go to the signed writer of twice the width through one conversion", "an unsigned writer must pass every value through exactly one conversion to %s (zero extension); found %d emit sites", types.Typ[wantK].Name(), len(ems))
		case types.Bool:
			ems := collect(map[*ssa.BasicBlock]iset{})
			ok := len(ems) == 1 && ems[0].target == "call:int8"
			if ok {
				phi, isPhi := ems[0].in.Call.Args[1].(*ssa.Phi)
				ok = isPhi && len(phi.Edges) == 2
				if ok {
					// the edge on which data is true must carry 1, the other 0
					for i, e := range phi.Edges {
						k, isC := constInt(e)
						p := phi.Block().Preds[i]
						val := false
						known := false
						for _, f := range append(facts(p), edgeFactOf(p, phi.Block())...) {
							if c, okc := normFact(f); okc {
								if c.boolIs(data, true) {
									val, known = true, true
								}
								if c.boolIs(data, false) {
									val, known = false, true
								}
							}
						}
						if !isC || !known || (val && k != 1) || (!val && k != 0) {
							ok = false
						}
					}
				}
			}
			r.Check(ok, where, "bool mapping", fn.Pos(), "false->0, true->1 through WriteInt8", "bool must be written as int8 0/1 selected by the value")
		case types.Float32, types.Float64:
			ems := collect(map[*ssa.BasicBlock]iset{})
			wantHead := map[types.BasicKind]string{types.Float32: "head:FLOAT", types.Float64: "head:DOUBLE"}[kind]
			ok := len(ems) == 1 && ems[0].target == wantHead && ems[0].in.Block() == fn.Blocks[0]
			r.Check(ok, where, "float head", fn.Pos(), "every value is written under %s", "every float value must be written under %s unconditionally (bit-exact: -0, NaN payloads); found %v", wantHead, emitNames(ems))
		case types.String:
			// track len(data)
			isLen := func(e ssa.Value) bool {
				c, ok := strip(e, false).(*ssa.Call)
				return ok && builtinName(&c.Call) == "len" && c.Call.Args[0] == data
			}
			var anyLen ssa.Value
			eachInstr(fn, func(in ssa.Instruction) {
				if v, ok := in.(ssa.Value); ok && isLen(v) && anyLen == nil {
					anyLen = v
				}
			})
			if anyLen == nil {
				r.Undecided(where, "string length split", fn.Pos(), "len(data) is never computed")
				continue
			}
			sets := valueSets(fn, anyLen, isLen)
			for b, s := range sets {
				sets[b] = s.intersect(rng(0, posInf))
			}
			ems := collect(sets)
			want := map[string]iset{"head:STRING1": rng(0, 255), "head:STRING4": rng(256, posInf)}
			seen := map[string]bool{}
			for _, e := range ems {
				w, okw := want[e.target]
				if !okw {
					r.Bad(where, "emit "+e.target, e.in.Pos(), "WriteString emits %s", e.target)
					continue
				}
				seen[e.target] = true
				r.Check(e.set.equal(w), where, "length set at "+e.target, e.in.Pos(), "lengths reaching %s = %s", "lengths reaching %s = %s; the wire format says "+w.String(), e.target, e.set)
			}
			for t := range want {
				if !seen[t] {
					r.Bad(where, "emit "+t, fn.Pos(), "WriteString never emits %s", t)
				}
			}
		}
	}
}

func emitNames[T any](e []T) string { return fmt.Sprint(len(e), " emit site(s)") }

// edgeFactOf: the fact established by the edge pred->succ itself.
func edgeFactOf(pred, succ *ssa.BasicBlock) []EdgeFact {
	if len(pred.Instrs) == 0 {
		return nil
	}
	iff, ok := pred.Instrs[len(pred.Instrs)-1].(*ssa.If)
	if !ok || pred.Succs[0] == pred.Succs[1] {
		return nil
	}
	return []EdgeFact{{Cond: iff.Cond, Taken: pred.Succs[0] == succ, If: iff}}
}

// ---- R4 -----------------------------------------------------------------------------------------

func uintOfWidth(w int64) types.BasicKind {
	return map[int64]types.BasicKind{1: types.Uint8, 2: types.Uint16, 4: types.Uint32, 8: types.Uint64}[w]
}
func intOfWidth(w int64) types.BasicKind {
	return map[int64]types.BasicKind{1: types.Int8, 2: types.Int16, 4: types.Int32, 8: types.Int64}[w]
}
func kindWidth(k types.BasicKind) int64 {
	switch k {
	case types.Int8, types.Uint8:
		return 1
	case types.Int16, types.Uint16:
		return 2
	case types.Int32, types.Uint32, types.Float32:
		return 4
	case types.Int64, types.Uint64, types.Float64:
		return 8
	}
	return 0
}

// convChain unrolls conversions: returns the innermost value and the list of types from the
// innermost value's type outwards.
func convChain(v ssa.Value) (ssa.Value, []types.BasicKind) {
	var rev []types.BasicKind
	for {
		c, ok := v.(*ssa.Convert)
		if !ok {
			break
		}
		rev = append(rev, basicKind(c.Type()))
		v = c.X
	}
	out := []types.BasicKind{basicKind(v.Type())}
	for i := len(rev) - 1; i >= 0; i-- {
		out = append(out, rev[i])
	}
	return v, out
}

func kindsEqual(a, b []types.BasicKind) bool {
	if len(a) != len(b) {
		return false
	}
	for i := range a {
		if a[i] != b[i] {
			return false
		}
	}
	return true
}

func kindNames(a []types.BasicKind) string {
	var s []string
	for _, k := range a {
		s = append(s, types.Typ[k].Name())
	}
	return strings.Join(s, "->")
}

// payloadTemp: v is a load of a local whose address is passed to a read helper in block b; returns
// the helper's width.
func payloadTemp(v ssa.Value, b *ssa.BasicBlock) (int64, bool) {
	// the payload returned by value: x, err := r.ReadByte() / x, err := readU16(r)
	if ex, ok := v.(*ssa.Extract); ok && ex.Index == 0 {
		if c, ok := ex.Tuple.(*ssa.Call); ok {
			if w, ok := widthOfCall(&c.Call, 0); ok && w.variable == 0 {
				return w.fixed, true
			}
		}
	}
	ld, ok := v.(*ssa.UnOp)
	if !ok || ld.Op != token.MUL {
		return 0, false
	}
	for _, in := range b.Instrs {
		c, ok := in.(*ssa.Call)
		if !ok {
			continue
		}
		for _, a := range c.Call.Args {
			if a == ld.X {
				if w, ok := widthOfCall(&c.Call, 0); ok && instrDominates(c, ld) {
					return w.fixed, true
				}
			}
		}
	}
	return 0, false
}

func ruleReadConversions(r *R) {
	if !checkWireConsts(r) {
		return
	}
	rm := readerMethods(r.w)
	signedTwice := map[types.BasicKind]types.BasicKind{types.Uint8: types.Int16, types.Uint16: types.Int32, types.Uint32: types.Int64}
	for _, name := range sortedKeys(rm) {
		fn := rm[name]
		data := fn.Params[1]
		kind := basicKind(data.Type())
		where := fname(fn)
		ty := wireTypeValue(fn)
		if ty == nil {
			// delegating readers
			switch kind {
			case types.Uint8, types.Uint16, types.Uint32:
				want := signedTwice[kind]
				var call *ssa.Call
				eachInstr(fn, func(in ssa.Instruction) {
					if c, ok := in.(*ssa.Call); ok {
						if sc := c.Call.StaticCallee(); sc != nil && rm[sc.Name()] == sc {
							call = c
						}
					}
				})
				ok := call != nil && basicKind(call.Call.StaticCallee().Params[1].Type()) == want
				var stOK bool
				if ok {
					tmp := call.Call.Args[1]
					eachInstr(fn, func(in ssa.Instruction) {
						st, isSt := in.(*ssa.Store)
						if !isSt || st.Addr != data || !instrDominates(call, st) {
							return
						}
						base, chain := convChain(st.Val)
						if ld, isLd := base.(*ssa.UnOp); isLd && ld.X == tmp && kindsEqual(chain, []types.BasicKind{want, kind}) {
							stOK = true
						}
					})
				}
				r.Check(ok && stOK, where, "unsigned read via signed reader", fn.Pos(), "reads through %s and stores one truncating conversion", "an unsigned reader must read through the signed reader of twice the width (%s) and store exactly one truncating conversion of that temporary", types.Typ[want].Name())
			case types.Bool:
				var call *ssa.Call
				eachInstr(fn, func(in ssa.Instruction) {
					if c, ok := in.(*ssa.Call); ok {
						if sc := c.Call.StaticCallee(); sc != nil && rm[sc.Name()] == sc {
							call = c
						}
					}
				})
				ok := call != nil && basicKind(call.Call.StaticCallee().Params[1].Type()) == types.Int8
				if ok {
					// stores to *data: false under tmp==0, true otherwise
					tmpAddr := call.Call.Args[1]
					nst, direct := 0, 0
					eachInstr(fn, func(in ssa.Instruction) {
						st, isSt := in.(*ssa.Store)
						if !isSt || st.Addr != data {
							return
						}
						// direct form: *data = tmp != 0
						if bo, isB := st.Val.(*ssa.BinOp); isB && bo.Op == token.NEQ {
							if ld, isLd := bo.X.(*ssa.UnOp); isLd && ld.Op == token.MUL && ld.X == tmpAddr {
								if k, okk := constInt(bo.Y); okk && k == 0 {
									direct++
									return
								}
							}
						}
						nst++
						val, isC := constBool(st.Val)
						var isZero, known bool
						for _, f := range facts(st.Block()) {
							if c, okc := normFact(f); okc {
								if ld, isLd := c.X.(*ssa.UnOp); isLd && ld.X == tmpAddr {
									if k, okk := constInt(c.Y); okk && k == 0 {
										if c.Op == token.EQL {
											isZero, known = true, true
										} else if c.Op == token.NEQ {
											isZero, known = false, true
										}
									}
								}
							}
						}
						if !isC || !known || val == isZero {
							ok = false
						}
					})
					if !(nst == 2 && direct == 0) && !(nst == 0 && direct >= 1) {
						ok = false
					}
				}
				r.Check(ok, where, "bool read", fn.Pos(), "0 -> false, non-zero -> true through ReadInt8", "ReadBool must read an int8 and map 0 to false and everything else to true")
			}
			continue
		}
		sets := valueSets(fn, ty, nil)
		for _, b := range fn.Blocks {
			for _, in := range b.Instrs {
				st, ok := in.(*ssa.Store)
				if !ok || st.Addr != data {
					continue
				}
				k, single := singleton(sets[b].intersect(rng(0, 255)))
				if !single && kind == types.String {
					// the cases only decode their own length prefix and the content is taken once after the
					// switch: the length is a phi with one edge per case
					done := false
					if cv, isC := st.Val.(*ssa.Convert); isC {
						if call, isCall := cv.X.(*ssa.Call); isCall && callIs(&call.Call, "~/"+codecPkg+".(Reader).Next") {
							lb, _ := convChain(call.Call.Args[1])
							if phi, isPhi := lb.(*ssa.Phi); isPhi {
								done = true
								for i, e := range phi.Edges {
									pred := phi.Block().Preds[i]
									kk, okK := int64(0), false
									for d := pred; d != nil && !okK; d = d.Idom() {
										kk, okK = singleton(sets[d].intersect(rng(0, 255)))
									}
									eb, _ := convChain(e)
									okk := false
									if okK {
										m := wirePayload[kk]
										if _, isLd := eb.(*ssa.UnOp); isLd {
											for d := pred; d != nil && !okk; d = d.Idom() {
												if tw, isTmp := payloadTemp(eb, d); isTmp && tw == m {
													okk = true
												}
											}
										} else if tw, isTmp := payloadTemp(eb, pred); isTmp && tw == m {
											okk = true
										}
										r.Check(okk, where, "store in case "+wname(kk), st.Pos(), "string = the next `length` bytes, length read from the %d-byte length field", "the string content must be Next(length) with length read from the %d-byte length field", m)
									} else {
										r.Undecided(where, "store to *data", st.Pos(), "a length reaches the shared content read from a block that belongs to no single wire type")
									}
								}
							}
						}
					}
					if done {
						continue
					}
				}
				if !single {
					r.Undecided(where, "store to *data", st.Pos(), "the store is not inside a single wire-type case")
					continue
				}
				cons := "store in case " + wname(k)
				if k == wZeroTag {
					kk, isC := constInt(st.Val)
					if !isC {
						if c, okc := st.Val.(*ssa.Const); okc && c.Value != nil {
							isC = c.Value.String() == "0"
							kk = 0
						}
					}
					r.Check(isC && kk == 0, where, cons, st.Pos(), "zero marker stores constant 0", "the zero marker must store the constant 0")
					continue
				}
				m := wirePayload[k]
				base, chain := convChain(st.Val)
				switch kind {
				case types.Int8, types.Int16, types.Int32, types.Int64:
					w := kindWidth(kind)
					var want []types.BasicKind
					if m < w {
						want = []types.BasicKind{uintOfWidth(m), intOfWidth(m), kind}
					} else {
						want = []types.BasicKind{uintOfWidth(m), kind}
					}
					tw, isTmp := payloadTemp(base, b)
					r.Check(isTmp && tw == m && kindsEqual(chain, want), where, cons, st.Pos(), "value = %s of the %d-byte payload (sign-extending)", "value chain is %s of a %d-byte temporary; sign extension requires "+kindNames(want), kindNames(chain), tw)
				case types.Float32, types.Float64:
					// peel float32->float64 widening
					inner := st.Val
					widened := false
					if cv, isC := inner.(*ssa.Convert); isC && kind == types.Float64 && basicKind(cv.X.Type()) == types.Float32 {
						inner = cv.X
						widened = true
					}
					call, isCall := inner.(*ssa.Call)
					okk := false
					if isCall {
						id := funcID(calleeObj(&call.Call))
						tw, isTmp := payloadTemp(call.Call.Args[0], b)
						switch k {
						case wFLOAT:
							okk = id == "math.Float32frombits" && isTmp && tw == 4 && widened == (kind == types.Float64)
						case wDOUBLE:
							okk = id == "math.Float64frombits" && isTmp && tw == 8 && !widened
						}
					}
					r.Check(okk, where, cons, st.Pos(), "payload bits are reinterpreted with math.Float*frombits (exact)", "a float payload must be reinterpreted bit-for-bit with math.Float32frombits/Float64frombits of the payload temporary (float32->float64 widening only for FLOAT)")
				case types.String:
					// string(Next(int(length))) with length the temporary read by the length helper
					cv, isC := st.Val.(*ssa.Convert)
					okk := false
					if isC {
						if call, isCall := cv.X.(*ssa.Call); isCall && callIs(&call.Call, "~/"+codecPkg+".(Reader).Next") {
							lb, _ := convChain(call.Call.Args[1])
							// the length temp may be read in a dominating block
							if ld, isLd := lb.(*ssa.UnOp); isLd {
								for d := b; d != nil; d = d.Idom() {
									if tw, isTmp := payloadTemp(ld, d); isTmp && tw == m {
										okk = true
									}
									if okk {
										break
									}
								}
								_ = ld
							} else if tw, isTmp := payloadTemp(lb, b); isTmp && tw == m {
								okk = true // length returned by value (ReadByte / a value-returning helper)
							}
						}
					}
					r.Check(okk, where, cons, st.Pos(), "string = the next `length` bytes, length read from the %d-byte length field", "the string content must be Next(length) with length read from the %d-byte length field", m)
				}
			}
		}
	}
}

// ---- R5 -----------------------------------------------------------------------------------------

func ruleBitsAndOrder(r *R) {
	sp := r.w.Pkg(codecPkg)
	// helpers: package-level functions with *bytes.Buffer / *bytes.Reader and a multi-byte array
	for _, fn := range r.w.Funcs(sp) {
		if fn.Signature.Recv() != nil || fn.Parent() != nil || len(fn.Params) == 0 {
			continue
		}
		// the byte sink/source may be the concrete type or an interface over it
		id := ""
		for _, p := range fn.Params {
			switch t := typeID(p.Type()); t {
			case "bytes.Buffer", "bytes.Reader":
				id = t
			}
			if it, ok := p.Type().Underlying().(*types.Interface); ok && id == "" {
				for i := 0; i < it.NumMethods(); i++ {
					switch it.Method(i).Name() {
					case "Read", "ReadByte":
						id = "bytes.Reader"
					case "Write", "WriteByte":
						id = "bytes.Buffer"
					}
				}
			}
		}
		if id == "" {
			continue
		}
		var arrLen int64
		eachInstr(fn, func(in ssa.Instruction) {
			if a, ok := in.(*ssa.Alloc); ok {
				if at, ok := a.Type().(*types.Pointer).Elem().Underlying().(*types.Array); ok {
					arrLen = at.Len()
				}
			}
		})
		if arrLen <= 1 {
			continue
		}
		n := int(arrLen)
		// decided by executing the helper symbolically at bit level (A13): whatever it is written with —
		// encoding/binary, shifts, a loop — the bytes on the wire must be the big-endian bytes of the value
		st, ran := symRun(fn, 4000)
		okk, why := false, ""
		switch {
		case !ran:
			why = "the helper could not be executed symbolically (" + st.why + ")"
		case id == "bytes.Buffer":
			var data *ssa.Parameter
			for _, p := range fn.Params {
				if w, _, isInt := intWidth(p.Type()); isInt && w == 8*n {
					data = p
				}
			}
			if data == nil || len(st.out) != n {
				why = fmt.Sprintf("%d byte(s) written for a %d-byte value", len(st.out), n)
				break
			}
			okk = true
			for j := 0; j < n; j++ {
				if !svalEqual(st.out[j], bigEndianByte(data.Name(), n, j)) {
					okk = false
					why = fmt.Sprintf("byte %d on the wire is [%s], big-endian order requires bits %d..%d of %s", j, st.out[j], 8*(n-1-j)+7, 8*(n-1-j), data.Name())
					break
				}
			}
		default:
			var got sval
			for _, p := range fn.Params {
				if v, ok := st.pstores[p]; ok {
					got = v
				}
			}
			if got.b == nil {
				for _, rv := range st.rets {
					if len(rv.b) == 8*n {
						got = rv
					}
				}
			}
			if got.b == nil || len(got.b) != 8*n || st.nread != n {
				why = fmt.Sprintf("%d byte(s) read, no %d-bit value delivered", st.nread, 8*n)
				break
			}
			okk = true
			for j := 0; j < n && okk; j++ {
				for k := 0; k < 8; k++ {
					if got.b[8*(n-1-j)+k] != sbit(fmt.Sprintf("in%d.%d", j, k)) {
						okk = false
						why = fmt.Sprintf("bit %d of the value is %s, big-endian order requires bit %d of input byte %d", 8*(n-1-j)+k, got.b[8*(n-1-j)+k], k, j)
						break
					}
				}
			}
		}
		r.Check(okk, fname(fn), "byte order", fn.Pos(), sprintfLoose("the %d bytes are the big-endian bytes of the value (executed symbolically)", []any{n}), "multi-byte payloads are big-endian: %s", why)
	}
	wm := writerMethods(r.w)
	for _, name := range sortedKeys(wm) {
		fn := wm[name]
		data := fn.Params[1]
		switch basicKind(data.Type()) {
		case types.Float32, types.Float64:
			want := map[types.BasicKind]string{types.Float32: "math.Float32bits", types.Float64: "math.Float64bits"}[basicKind(data.Type())]
			ok := false
			eachInstr(fn, func(in ssa.Instruction) {
				c := callCommon(in)
				if c == nil {
					return
				}
				if w, isW := widthOfCall(c, 0); isW && w.fixed == kindWidth(basicKind(data.Type())) {
					if bc, isC := c.Args[len(c.Args)-1].(*ssa.Call); isC && funcID(calleeObj(&bc.Call)) == want && bc.Call.Args[0] == data {
						ok = true
					}
				}
			})
			r.Check(ok, fname(fn), "float payload", fn.Pos(), "payload = %s(data)", "the float payload must be %s(data) (bit transport: NaN payloads, -0)", want)
		case types.String:
			// the length fields: byte(len(data)) for the 1-byte form, uint32(len(data)) for the 4-byte form
			n := 0
			eachInstr(fn, func(in ssa.Instruction) {
				c := callCommon(in)
				if c == nil {
					return
				}
				w, isW := widthOfCall(c, 0)
				if !isW || w.variable != 0 || (w.fixed != 1 && w.fixed != 4) || c.StaticCallee() == nil {
					return
				}
				if c.StaticCallee().Signature.Recv() != nil && !strings.HasPrefix(funcID(calleeObj(c)), "bytes.(Buffer).Write") {
					return
				}
				arg := c.Args[len(c.Args)-1]
				base, chain := convChain(arg)
				lc, isL := base.(*ssa.Call)
				okk := isL && builtinName(&lc.Call) == "len" && lc.Call.Args[0] == data && len(chain) == 2 && chain[1] == uintOfWidth(w.fixed)
				n++
				r.Check(okk, fname(fn), fmt.Sprintf("%d-byte length field", w.fixed), in.Pos(), "length field = %s(len(data))", "the length field must be %s(len(data)) of the string being written", types.Typ[uintOfWidth(w.fixed)].Name())
			})
			if n != 2 {
				r.Bad(fname(fn), "length fields", fn.Pos(), "%d length-field writes found (expected the 1-byte and the 4-byte form)", n)
			}
			// content: WriteString(data) on every path to the success return
			var content *ssa.Call
			eachInstr(fn, func(in ssa.Instruction) {
				if c, ok := in.(*ssa.Call); ok && funcID(calleeObj(&c.Call)) == "bytes.(Buffer).WriteString" && c.Call.Args[1] == data {
					content = c
				}
			})
			r.Check(content != nil, fname(fn), "string content", fn.Pos(), "content written with WriteString(data)", "the string bytes are never written")
		}
	}
}

// ---- R8 -----------------------------------------------------------------------------------------

func ruleAdmissible(r *R) {
	if !checkWireConsts(r) {
		return
	}
	rm := readerMethods(r.w)
	for _, name := range sortedKeys(rm) {
		fn := rm[name]
		kind := basicKind(fn.Params[1].Type())
		want, ok := admissible[kind]
		ty := wireTypeValue(fn)
		if ty == nil || !ok {
			continue
		}
		// `have` result
		var have ssa.Value
		for _, ref := range *ty.(*ssa.Extract).Tuple.(*ssa.Call).Referrers() {
			if e, ok := ref.(*ssa.Extract); ok && e.Index == 0 {
				have = e
			}
		}
		sets := valueSets(fn, ty, nil)
		idx := errorIndex(fn.Signature)
		acc := iset{}
		for _, b := range fn.Blocks {
			ret, ok := b.Instrs[len(b.Instrs)-1].(*ssa.Return)
			if !ok {
				continue
			}
			// region after have == true
			inRegion := false
			for _, f := range facts(b) {
				if c, ok := normFact(f); ok && have != nil && c.boolIs(have, true) {
					inRegion = true
				}
			}
			if !inRegion {
				continue
			}
			if definitelyNonNilErr(ret.Results[idx], b) {
				continue
			}
			acc = acc.union(sets[b].intersect(rng(0, 255)))
		}
		var wantSet iset
		for _, k := range want {
			wantSet = wantSet.union(rng(k, k))
		}
		var names []string
		for _, k := range want {
			names = append(names, wname(k))
		}
		r.Check(acc.equal(wantSet), fname(fn), "admissible wire types", fn.Pos(),
			"wire types that can decode without error = %s = {"+strings.Join(names, ",")+"}",
			"wire types that can decode without error = %s; the schema type admits exactly {"+strings.Join(names, ",")+"} — any other type must be rejected, not reinterpreted", acc)
	}
}
