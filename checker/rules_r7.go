package main

// Round-7 rule (seed C16-r7m1 and the defect D16 it led to).

import (
	"go/ast"
	"go/token"
	"go/types"
	"sort"

	"golang.org/x/tools/go/ssa"
)

func init() {
	register(&Rule{ID: "C16.R13", Props: []string{"C16"}, Min: 4, Needs: NeedTool,
		Doc: "the type resolver visits every child type the parser builds: in the tars2go parser, for every kind K of ast.VarType and every child field F (a field of type *VarType: TypeK, TypeV) that the parser fills for a type of kind K — in a `case token.K:` clause of the type parser or in a composite literal `VarType{Type: token.K, F: …}` — the function that resolves named types (the one that assigns VarType.CType) reads `ty.F` under the condition `ty.Type == token.K` (if/else-if chain, `||`, switch on ty.Type; or under no kind condition at all) in a branch in which it calls itself — directly on `ty.F`, through a local, or in a loop over a list of the children; a child that is not visited keeps CType unset, so an enum or a struct of another module used there is emitted as a local struct (ReadBlock/WriteBlock on an enum does not compile, no import, no `not find define` diagnostic)",
		Run: func(r *R) {
			pp := r.w.PPkg("parse")
			if pp == nil || pp.TypesInfo == nil {
				r.AnchorMissing("tars2go package parse")
				return
			}
			info := pp.TypesInfo
			isVarType := func(t types.Type) bool {
				if p, ok := t.(*types.Pointer); ok {
					t = p.Elem()
				}
				n, ok := t.(*types.Named)
				return ok && n.Obj().Name() == "VarType" && n.Obj().Pkg() != nil && n.Obj().Pkg().Name() == "ast"
			}
			// the name of the child field a selector denotes ("" otherwise)
			childField := func(e ast.Expr) string {
				se, ok := ast.Unparen(e).(*ast.SelectorExpr)
				if !ok {
					return ""
				}
				v, ok := info.Uses[se.Sel].(*types.Var)
				if !ok || !v.IsField() {
					return ""
				}
				if _, isPtr := v.Type().(*types.Pointer); !isPtr || !isVarType(v.Type()) {
					return ""
				}
				if tv, ok := info.Types[se.X]; !ok || !isVarType(tv.Type) {
					return ""
				}
				return v.Name()
			}
			kindConst := func(e ast.Expr) string {
				var id *ast.Ident
				switch x := ast.Unparen(e).(type) {
				case *ast.SelectorExpr:
					id = x.Sel
				case *ast.Ident:
					id = x
				}
				if id == nil {
					return ""
				}
				c, ok := info.Uses[id].(*types.Const)
				if !ok || c.Pkg() == nil || c.Pkg().Name() != "token" {
					return ""
				}
				return c.Name()
			}
			// is e `<VarType>.Type`
			isKindSel := func(e ast.Expr) bool {
				se, ok := ast.Unparen(e).(*ast.SelectorExpr)
				if !ok || se.Sel.Name != "Type" {
					return false
				}
				tv, ok := info.Types[se.X]
				return ok && isVarType(tv.Type)
			}
			// the kinds a condition establishes: x.Type == token.K, joined by ||
			var condKinds func(e ast.Expr) []string
			condKinds = func(e ast.Expr) []string {
				be, ok := ast.Unparen(e).(*ast.BinaryExpr)
				if !ok {
					return nil
				}
				switch be.Op {
				case token.LOR:
					return append(condKinds(be.X), condKinds(be.Y)...)
				case token.EQL:
					if isKindSel(be.X) {
						if k := kindConst(be.Y); k != "" {
							return []string{k}
						}
					}
					if isKindSel(be.Y) {
						if k := kindConst(be.X); k != "" {
							return []string{k}
						}
					}
				}
				return nil
			}
			// kinds in force at a node, from its enclosing case clauses / if statements (innermost first)
			kindsAt := func(stack []ast.Node) []string {
				for i := len(stack) - 1; i >= 0; i-- {
					switch x := stack[i].(type) {
					case *ast.CaseClause:
						var ks []string
						for _, e := range x.List {
							if k := kindConst(e); k != "" {
								ks = append(ks, k)
							}
						}
						if len(ks) > 0 {
							// the switch tag must be a VarType kind
							if i > 1 {
								if sw, ok := stack[i-2].(*ast.SwitchStmt); ok && sw.Tag != nil && isKindSel(sw.Tag) {
									return ks
								}
							}
						}
					case *ast.IfStmt:
						// only when the node is in the then-branch
						if i+1 < len(stack) && stack[i+1] == ast.Node(x.Body) {
							if ks := condKinds(x.Cond); len(ks) > 0 {
								return ks
							}
						}
					}
				}
				return nil
			}
			type pair struct{ k, f string }
			built := map[pair]token.Pos{}
			reads := map[pair]bool{}
			recIn := map[string]bool{}
			visited := func(p pair) bool {
				return (reads[p] && recIn[p.k]) || (reads[pair{"*", p.f}] && recIn["*"])
			}
			var resolver *ast.FuncDecl
			// find the resolver: the function that assigns VarType.CType
			for _, f := range pp.Syntax {
				for _, d := range f.Decls {
					fd, ok := d.(*ast.FuncDecl)
					if !ok || fd.Body == nil {
						continue
					}
					ast.Inspect(fd.Body, func(n ast.Node) bool {
						as, ok := n.(*ast.AssignStmt)
						if !ok {
							return true
						}
						for _, l := range as.Lhs {
							if se, ok := ast.Unparen(l).(*ast.SelectorExpr); ok && se.Sel.Name == "CType" {
								if tv, ok := info.Types[se.X]; ok && isVarType(tv.Type) {
									resolver = fd
								}
							}
						}
						return true
					})
				}
			}
			if resolver == nil {
				r.AnchorMissing("parse: the function that assigns VarType.CType")
				return
			}
			resObj := info.Defs[resolver.Name]
			walk := func(fd *ast.FuncDecl, fn func(n ast.Node, stack []ast.Node)) {
				var stack []ast.Node
				ast.Inspect(fd.Body, func(n ast.Node) bool {
					if n == nil {
						stack = stack[:len(stack)-1]
						return true
					}
					fn(n, stack)
					stack = append(stack, n)
					return true
				})
			}
			for _, f := range pp.Syntax {
				for _, d := range f.Decls {
					fd, ok := d.(*ast.FuncDecl)
					if !ok || fd.Body == nil {
						continue
					}
					walk(fd, func(n ast.Node, stack []ast.Node) {
						switch x := n.(type) {
						case *ast.CompositeLit:
							tv, ok := info.Types[x]
							if !ok || !isVarType(tv.Type) {
								return
							}
							kind := ""
							var fields []string
							for _, el := range x.Elts {
								kv, ok := el.(*ast.KeyValueExpr)
								if !ok {
									continue
								}
								id, ok := kv.Key.(*ast.Ident)
								if !ok {
									continue
								}
								if id.Name == "Type" {
									kind = kindConst(kv.Value)
								} else if v, ok := info.Uses[id].(*types.Var); ok && v.IsField() && isVarType(v.Type()) {
									if _, isPtr := v.Type().(*types.Pointer); isPtr {
										fields = append(fields, v.Name())
									}
								}
							}
							for _, fl := range fields {
								if kind == "" {
									r.Undecided("tars2go/parse."+fd.Name.Name, "VarType literal with child "+fl, x.Pos(), "the kind of a VarType literal that carries a child type is not a token constant")
									continue
								}
								if _, ok := built[pair{kind, fl}]; !ok {
									built[pair{kind, fl}] = x.Pos()
								}
							}
						case *ast.AssignStmt:
							for _, l := range x.Lhs {
								fl := childField(l)
								if fl == "" {
									continue
								}
								ks := kindsAt(append(stack, n))
								if len(ks) == 0 {
									r.Undecided("tars2go/parse."+fd.Name.Name, "assignment to VarType."+fl, x.Pos(), "a child type is stored outside a `case token.K` / `if ty.Type == token.K` context: the kind it belongs to is not determined")
									continue
								}
								for _, k := range ks {
									if _, ok := built[pair{k, fl}]; !ok {
										built[pair{k, fl}] = x.Pos()
									}
								}
							}
						case *ast.CallExpr:
							if fd != resolver {
								return
							}
							var callee types.Object
							switch fx := ast.Unparen(x.Fun).(type) {
							case *ast.SelectorExpr:
								callee = info.Uses[fx.Sel]
							case *ast.Ident:
								callee = info.Uses[fx]
							}
							if callee == nil || callee != resObj {
								return
							}
							ks := kindsAt(append(stack, n))
							if len(ks) == 0 {
								ks = []string{"*"}
							}
							for _, k := range ks {
								recIn[k] = true
							}
						case *ast.SelectorExpr:
							// a read of ty.F in the resolver (directly as argument, through a local, or as
							// element of a list that is looped over), under the kind in force
							if fd != resolver {
								return
							}
							if fl := childField(x); fl != "" {
								ks := kindsAt(append(stack, n))
								if len(ks) == 0 {
									ks = []string{"*"}
								}
								for _, k := range ks {
									reads[pair{k, fl}] = true
								}
							}
						}
					})
				}
			}
			var keys []pair
			for p := range built {
				keys = append(keys, p)
			}
			sort.Slice(keys, func(i, j int) bool {
				if keys[i].k != keys[j].k {
					return keys[i].k < keys[j].k
				}
				return keys[i].f < keys[j].f
			})
			for _, p := range keys {
				r.Check(visited(p), "tars2go/parse."+resolver.Name.Name, "child "+p.f+" of kind "+p.k, built[p], "the resolver calls itself on ty."+p.f+" under ty.Type == token."+p.k, "the parser builds a %s type with child %s, but %s does not visit ty.%s when ty.Type == token.%s: a named type used there is never resolved (an enum is emitted as a struct: the generated code does not compile; a type of another module gets no import; an undefined name gets no diagnostic)", p.k, p.f, resolver.Name.Name, p.f, p.k)
			}
		}})
}

func init() {
	register(&Rule{ID: "C13.R11", Props: []string{"C13", "C14", "C15"}, Min: 8, Needs: NeedMain,
		Doc: "Refresh installs the set it is given on every path: in the Refresh method of every selector, each receiver field that Refresh assigns (the membership map, the member list / ring) is assigned on EVERY path from the entry to a return — there is no path that returns with the previous member state left in place (a `nothing changed` shortcut that compares only part of an endpoint keeps the old weights, ports and static-weight cycle: Select then returns endpoints that are not in the current set, or with the previous proportions)",
		Run: func(r *R) {
			for sp, nts := range selectorTypes(r.w) {
				for _, nt := range nts {
					var fn *ssa.Function
					for _, f := range r.w.Funcs(sp) {
						if f.Parent() == nil && f.Name() == "Refresh" && f.Signature.Recv() != nil && namedOf(f.Signature.Recv().Type()) == nt {
							fn = f
						}
					}
					if fn == nil || len(fn.Blocks) == 0 {
						r.AnchorMissing(nt.Obj().Pkg().Name() + "." + nt.Obj().Name() + ".Refresh")
						continue
					}
					recv := fn.Params[0]
					// receiver fields stored directly in Refresh, and the blocks that store them
					stores := map[string]map[*ssa.BasicBlock]bool{}
					pos := map[string]token.Pos{}
					eachInstr(fn, func(in ssa.Instruction) {
						st, ok := in.(*ssa.Store)
						if !ok {
							return
						}
						fa, ok := st.Addr.(*ssa.FieldAddr)
						if !ok || strip(fa.X, false) != ssa.Value(recv) {
							return
						}
						name := fa.X.Type().Underlying().(*types.Pointer).Elem().Underlying().(*types.Struct).Field(fa.Field).Name()
						if stores[name] == nil {
							stores[name] = map[*ssa.BasicBlock]bool{}
							pos[name] = st.Pos()
						}
						stores[name][in.Block()] = true
					})
					var names []string
					for n := range stores {
						names = append(names, n)
					}
					sort.Strings(names)
					if len(names) == 0 {
						r.Bad(fname(fn), "member state", fn.Pos(), "Refresh assigns no field of the selector: the set it is given is not installed")
						continue
					}
					for _, n := range names {
						// is a return reachable from the entry without passing a block that stores n?
						seen := map[*ssa.BasicBlock]bool{}
						var escape *ssa.BasicBlock
						var walk func(b *ssa.BasicBlock)
						walk = func(b *ssa.BasicBlock) {
							if seen[b] || stores[n][b] || escape != nil {
								return
							}
							seen[b] = true
							if len(b.Instrs) > 0 {
								if _, isRet := b.Instrs[len(b.Instrs)-1].(*ssa.Return); isRet {
									escape = b
									return
								}
							}
							for _, s := range b.Succs {
								walk(s)
							}
						}
						walk(fn.Blocks[0])
						p := pos[n]
						if escape != nil && len(escape.Instrs) > 0 && escape.Instrs[len(escape.Instrs)-1].Pos().IsValid() {
							p = escape.Instrs[len(escape.Instrs)-1].Pos()
						}
						r.Check(escape == nil, fname(fn), "field "+n+" assigned on every path", p, "every path from the entry to a return passes an assignment of "+n, "a path through Refresh returns without assigning %s: the previous member state stays in place for a set that Refresh only partly compared (endpoints, weights or ports of the old set are still selected)", n)
					}
				}
			}
		}})
}
