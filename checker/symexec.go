package main

// A13: symbolic execution of small leaf functions at bit level.
//
// The wire helpers of the codec (the big-endian readers/writers of 2, 4 and 8 bytes, the header
// decode of the framing function) are straight-line code or loops with constant bounds over fixed
// arrays. symRun executes such a function once with symbolic inputs: every integer is a vector of
// bits, each bit 0, 1 or an atom ("data.17" = bit 17 of parameter data, "in3.5" = bit 5 of the
// fourth byte read). Control flow must be decidable from constants (loop counters), memory is the
// function's own local arrays and scalars, and the I/O calls are modelled: io.ReadFull / ReadByte
// produce fresh input bytes, Write / WriteByte record output bytes, encoding/binary's BigEndian and
// LittleEndian PutUintNN / UintNN have their documented meaning. The result is exact for the function
// as written — whether it uses encoding/binary, shifts, or a loop — and anything outside the model
// (a data-dependent branch, an unknown call whose result matters) makes the run fail, which the
// caller reports as undecided.

import (
	"fmt"
	"go/token"
	"go/types"
	"strings"

	"golang.org/x/tools/go/ssa"
)

type sbit string // "0", "1" or an atom

type sval struct {
	b []sbit // little-endian: b[0] is the least significant bit
}

func symConst(c uint64, w int) sval {
	v := sval{b: make([]sbit, w)}
	for i := 0; i < w; i++ {
		if c>>uint(i)&1 == 1 {
			v.b[i] = "1"
		} else {
			v.b[i] = "0"
		}
	}
	return v
}

func symAtoms(name string, w int) sval {
	v := sval{b: make([]sbit, w)}
	for i := 0; i < w; i++ {
		v.b[i] = sbit(fmt.Sprintf("%s.%d", name, i))
	}
	return v
}

// konst: the value if all bits are constant (interpreted as unsigned, or signed when signed is set).
func (v sval) konst(signed bool) (int64, bool) {
	var r uint64
	for i, x := range v.b {
		switch x {
		case "1":
			if i < 64 {
				r |= 1 << uint(i)
			}
		case "0":
		default:
			return 0, false
		}
	}
	if signed && len(v.b) > 0 && len(v.b) < 64 && v.b[len(v.b)-1] == "1" {
		return int64(r) - (1 << uint(len(v.b))), true
	}
	return int64(r), true
}

func (v sval) resize(w int, signed bool) (sval, bool) {
	out := sval{b: make([]sbit, w)}
	for i := 0; i < w; i++ {
		switch {
		case i < len(v.b):
			out.b[i] = v.b[i]
		case signed:
			top := v.b[len(v.b)-1]
			if top != "0" && top != "1" {
				return out, false // sign extension of an unknown sign bit: representable, but not needed
			}
			out.b[i] = top
		default:
			out.b[i] = "0"
		}
	}
	return out, true
}

func (v sval) String() string {
	s := ""
	for i := len(v.b) - 1; i >= 0; i-- {
		s += string(v.b[i]) + " "
	}
	return s
}

type symPtr struct {
	base *ssa.Alloc
	idx  int
	elem bool // points to an element of an array alloc
}

type symSlice struct {
	base   *ssa.Alloc
	lo, hi int
}

type symState struct {
	fn        *ssa.Function
	ints      map[ssa.Value]sval
	ptrs      map[ssa.Value]symPtr
	slices    map[ssa.Value]symSlice
	bools     map[ssa.Value]bool
	mem       map[*ssa.Alloc][]sval
	out       []sval             // bytes written, in order
	nread     int                // bytes read
	pstores   map[ssa.Value]sval // stores through pointer parameters
	rets      []sval             // integer results (nil entries for non-integer results)
	readTuple map[ssa.Value]sval // ReadByte calls: the byte
	why       string
	fresh     int
}

func intWidth(t types.Type) (int, bool, bool) {
	b, ok := t.Underlying().(*types.Basic)
	if !ok {
		return 0, false, false
	}
	switch b.Kind() {
	case types.Int8:
		return 8, true, true
	case types.Uint8:
		return 8, false, true
	case types.Int16:
		return 16, true, true
	case types.Uint16:
		return 16, false, true
	case types.Int32:
		return 32, true, true
	case types.Uint32:
		return 32, false, true
	case types.Int64, types.Int:
		return 64, true, true
	case types.Uint64, types.Uint, types.Uintptr:
		return 64, false, true
	case types.UntypedInt:
		return 64, true, true
	}
	return 0, false, false
}

func (s *symState) val(v ssa.Value) (sval, bool) {
	if x, ok := s.ints[v]; ok {
		return x, true
	}
	if c, ok := v.(*ssa.Const); ok {
		if w, _, isInt := intWidth(c.Type()); isInt {
			if k, ok := constInt(c); ok {
				return symConst(uint64(k), w), true
			}
		}
	}
	return sval{}, false
}

// symRun executes fn with the given integer parameters symbolic (by name) — others are opaque.
func symRun(fn *ssa.Function, maxSteps int) (*symState, bool) {
	s := &symState{fn: fn, ints: map[ssa.Value]sval{}, ptrs: map[ssa.Value]symPtr{}, slices: map[ssa.Value]symSlice{},
		bools: map[ssa.Value]bool{}, mem: map[*ssa.Alloc][]sval{}, pstores: map[ssa.Value]sval{}, readTuple: map[ssa.Value]sval{}}
	for _, p := range fn.Params {
		if w, _, ok := intWidth(p.Type()); ok {
			s.ints[p] = symAtoms(p.Name(), w)
		}
	}
	if len(fn.Blocks) == 0 {
		return s, false
	}
	b := fn.Blocks[0]
	var prev *ssa.BasicBlock
	for steps := 0; steps < maxSteps; steps++ {
		for _, in := range b.Instrs {
			if !s.step(in, prev) {
				return s, false
			}
		}
		switch t := b.Instrs[len(b.Instrs)-1].(type) {
		case *ssa.Return:
			for _, rv := range t.Results {
				if x, ok := s.val(rv); ok {
					s.rets = append(s.rets, x)
				} else {
					s.rets = append(s.rets, sval{})
				}
			}
			return s, true
		case *ssa.If:
			c, ok := s.bools[t.Cond]
			if !ok {
				if cb, isC := constBool(t.Cond); isC {
					c, ok = cb, true
				}
			}
			if !ok {
				s.why = "a branch depends on data (" + t.Cond.Name() + ")"
				return s, false
			}
			prev = b
			if c {
				b = b.Succs[0]
			} else {
				b = b.Succs[1]
			}
		case *ssa.Jump:
			prev = b
			b = b.Succs[0]
		default:
			s.why = "unsupported terminator"
			return s, false
		}
	}
	s.why = "step limit"
	return s, false
}

func (s *symState) sliceOf(v ssa.Value) (symSlice, bool) {
	if x, ok := s.slices[v]; ok {
		return x, true
	}
	return symSlice{}, false
}

func (s *symState) step(in ssa.Instruction, prev *ssa.BasicBlock) bool {
	switch x := in.(type) {
	case *ssa.DebugRef, *ssa.Jump, *ssa.If, *ssa.Return, *ssa.RunDefers:
		return true
	case *ssa.Alloc:
		et := x.Type().(*types.Pointer).Elem()
		if at, ok := et.Underlying().(*types.Array); ok {
			if w, _, isInt := intWidth(at.Elem()); isInt && at.Len() <= 64 {
				cells := make([]sval, at.Len())
				for i := range cells {
					cells[i] = symConst(0, w)
				}
				s.mem[x] = cells
			}
		} else if w, _, isInt := intWidth(et); isInt {
			s.mem[x] = []sval{symConst(0, w)}
		}
		return true
	case *ssa.Phi:
		for i, p := range x.Block().Preds {
			if p != prev {
				continue
			}
			e := x.Edges[i]
			if v, ok := s.val(e); ok {
				s.ints[x] = v
			} else {
				delete(s.ints, x)
			}
			if bv, ok := s.bools[e]; ok {
				s.bools[x] = bv
			} else if cb, ok := constBool(e); ok {
				s.bools[x] = cb
			} else {
				delete(s.bools, x)
			}
		}
		return true
	case *ssa.IndexAddr:
		idx, ok := s.val(x.Index)
		if !ok {
			return true
		}
		k, isK := idx.konst(true)
		if !isK {
			return true
		}
		if al, ok := x.X.(*ssa.Alloc); ok {
			s.ptrs[x] = symPtr{al, int(k), true}
		} else if sl, ok := s.sliceOf(x.X); ok {
			s.ptrs[x] = symPtr{sl.base, sl.lo + int(k), true}
		}
		return true
	case *ssa.Slice:
		var base *ssa.Alloc
		off, n := 0, 0
		if al, ok := x.X.(*ssa.Alloc); ok && s.mem[al] != nil {
			base, n = al, len(s.mem[al])
		} else if sl, ok := s.sliceOf(x.X); ok {
			base, off, n = sl.base, sl.lo, sl.hi-sl.lo
		} else {
			return true
		}
		lo, hi := 0, n
		if x.Low != nil {
			v, ok := s.val(x.Low)
			k, isK := v.konst(true)
			if !ok || !isK {
				return true
			}
			lo = int(k)
		}
		if x.High != nil {
			v, ok := s.val(x.High)
			k, isK := v.konst(true)
			if !ok || !isK {
				return true
			}
			hi = int(k)
		}
		s.slices[x] = symSlice{base, off + lo, off + hi}
		return true
	case *ssa.Store:
		v, ok := s.val(x.Val)
		if p, isP := s.ptrs[x.Addr]; isP {
			if !ok || p.idx < 0 || p.idx >= len(s.mem[p.base]) {
				s.why = "store of an unmodelled value into a local array"
				return false
			}
			s.mem[p.base][p.idx] = v
			return true
		}
		if al, isA := x.Addr.(*ssa.Alloc); isA && len(s.mem[al]) == 1 {
			if ok {
				s.mem[al][0] = v
			} else {
				delete(s.mem, al)
			}
			return true
		}
		if _, isParam := x.Addr.(*ssa.Parameter); isParam && ok {
			s.pstores[x.Addr] = v
		}
		return true
	case *ssa.UnOp:
		switch x.Op {
		case token.MUL:
			if p, ok := s.ptrs[x.X]; ok && p.idx >= 0 && p.idx < len(s.mem[p.base]) {
				s.ints[x] = s.mem[p.base][p.idx]
			} else if al, ok := x.X.(*ssa.Alloc); ok && len(s.mem[al]) == 1 {
				if _, isArr := al.Type().(*types.Pointer).Elem().Underlying().(*types.Array); !isArr {
					s.ints[x] = s.mem[al][0]
				}
			}
		case token.NOT:
			if bv, ok := s.bools[x.X]; ok {
				s.bools[x] = !bv
			}
		case token.SUB:
			if v, ok := s.val(x.X); ok {
				if k, isK := v.konst(true); isK {
					s.ints[x] = symConst(uint64(-k), len(v.b))
				}
			}
		}
		return true
	case *ssa.Index:
		// element of an array value loaded from a local array
		idx, ok := s.val(x.Index)
		k, isK := idx.konst(true)
		if ld, isLd := x.X.(*ssa.UnOp); ok && isK && isLd && ld.Op == token.MUL {
			if al, isA := ld.X.(*ssa.Alloc); isA && int(k) >= 0 && int(k) < len(s.mem[al]) {
				s.ints[x] = s.mem[al][k]
			}
		}
		return true
	case *ssa.Convert:
		w, _, isInt := intWidth(x.Type())
		_, fromSigned, fromInt := intWidth(x.X.Type())
		if v, ok := s.val(x.X); ok && isInt && fromInt {
			if r, ok := v.resize(w, fromSigned); ok {
				s.ints[x] = r
			}
		}
		return true
	case *ssa.ChangeType:
		if v, ok := s.val(x.X); ok {
			s.ints[x] = v
		}
		return true
	case *ssa.BinOp:
		return s.binop(x)
	case *ssa.Extract:
		if x.Index == 0 {
			if v, ok := s.readTuple[x.Tuple]; ok {
				s.ints[x] = v
			}
		}
		return true
	case *ssa.Call:
		return s.call(x)
	case *ssa.MakeInterface, *ssa.FieldAddr, *ssa.Field, *ssa.MakeSlice, *ssa.ChangeInterface, *ssa.TypeAssert:
		return true
	case *ssa.Defer, *ssa.Go, *ssa.Panic, *ssa.Send, *ssa.MapUpdate, *ssa.Select:
		s.why = "unsupported instruction " + in.String()
		return false
	}
	return true
}

func (s *symState) binop(x *ssa.BinOp) bool {
	a, ok1 := s.val(x.X)
	b, ok2 := s.val(x.Y)
	w, signed, isInt := intWidth(x.X.Type())
	switch x.Op {
	case token.EQL, token.NEQ, token.LSS, token.LEQ, token.GTR, token.GEQ:
		if ok1 && ok2 {
			ka, c1 := a.konst(signed)
			kb, c2 := b.konst(signed)
			if c1 && c2 {
				var r bool
				switch x.Op {
				case token.EQL:
					r = ka == kb
				case token.NEQ:
					r = ka != kb
				case token.LSS:
					r = ka < kb
				case token.LEQ:
					r = ka <= kb
				case token.GTR:
					r = ka > kb
				case token.GEQ:
					r = ka >= kb
				}
				s.bools[x] = r
			}
		}
		return true
	}
	if !ok1 || !ok2 || !isInt {
		return true
	}
	out := sval{b: make([]sbit, w)}
	switch x.Op {
	case token.SHL, token.SHR:
		n, isK := b.konst(false)
		if !isK {
			return true
		}
		for i := 0; i < w; i++ {
			src := i - int(n)
			if x.Op == token.SHR {
				src = i + int(n)
			}
			switch {
			case src >= 0 && src < w:
				out.b[i] = a.b[src]
			case x.Op == token.SHR && signed:
				out.b[i] = a.b[w-1]
			default:
				out.b[i] = "0"
			}
		}
	case token.OR, token.AND, token.XOR, token.AND_NOT:
		if len(b.b) != w {
			return true
		}
		for i := 0; i < w; i++ {
			p, q := a.b[i], b.b[i]
			switch x.Op {
			case token.OR:
				switch {
				case p == "0":
					out.b[i] = q
				case q == "0":
					out.b[i] = p
				case p == "1" || q == "1":
					out.b[i] = "1"
				case p == q:
					out.b[i] = p
				default:
					out.b[i] = "(" + minBit(p, q) + "|" + maxBit(p, q) + ")"
				}
			case token.AND:
				switch {
				case p == "0" || q == "0":
					out.b[i] = "0"
				case p == "1":
					out.b[i] = q
				case q == "1":
					out.b[i] = p
				case p == q:
					out.b[i] = p
				default:
					out.b[i] = "(" + minBit(p, q) + "&" + maxBit(p, q) + ")"
				}
			case token.XOR:
				switch {
				case p == "0":
					out.b[i] = q
				case q == "0":
					out.b[i] = p
				case p == q:
					out.b[i] = "0"
				default:
					out.b[i] = "(" + minBit(p, q) + "^" + maxBit(p, q) + ")"
				}
			case token.AND_NOT:
				switch {
				case q == "0":
					out.b[i] = p
				case q == "1" || p == "0":
					out.b[i] = "0"
				default:
					out.b[i] = "(" + p + "&^" + q + ")"
				}
			}
		}
	case token.ADD, token.SUB, token.MUL:
		ka, c1 := a.konst(signed)
		kb, c2 := b.konst(signed)
		switch {
		case c1 && c2:
			var r int64
			switch x.Op {
			case token.ADD:
				r = ka + kb
			case token.SUB:
				r = ka - kb
			case token.MUL:
				r = ka * kb
			}
			out = symConst(uint64(r), w)
		case x.Op == token.ADD && c2 && kb == 0, x.Op == token.SUB && c2 && kb == 0:
			out = a
		case x.Op == token.ADD && c1 && ka == 0:
			out = b
		case x.Op == token.ADD && disjoint(a, b):
			// no position has two possibly-set bits: addition is bitwise or
			for i := 0; i < w; i++ {
				if a.b[i] == "0" {
					out.b[i] = b.b[i]
				} else {
					out.b[i] = a.b[i]
				}
			}
		default:
			return true
		}
	default:
		return true
	}
	s.ints[x] = out
	return true
}

func disjoint(a, b sval) bool {
	if len(a.b) != len(b.b) {
		return false
	}
	for i := range a.b {
		if a.b[i] != "0" && b.b[i] != "0" {
			return false
		}
	}
	return true
}

func minBit(p, q sbit) sbit {
	if p < q {
		return p
	}
	return q
}
func maxBit(p, q sbit) sbit {
	if p < q {
		return q
	}
	return p
}

func (s *symState) call(c *ssa.Call) bool {
	id := funcID(calleeObj(&c.Call))
	args := c.Call.Args
	if bn := builtinName(&c.Call); bn != "" {
		switch bn {
		case "len", "cap":
			if sl, ok := s.sliceOf(args[0]); ok {
				s.ints[c] = symConst(uint64(sl.hi-sl.lo), 64)
			} else if at, ok := args[0].Type().Underlying().(*types.Array); ok {
				s.ints[c] = symConst(uint64(at.Len()), 64)
			} else if ld, ok := args[0].(*ssa.UnOp); ok {
				if at, ok := ld.Type().Underlying().(*types.Array); ok {
					s.ints[c] = symConst(uint64(at.Len()), 64)
				}
			}
		}
		return true
	}
	bytesOf := func(v ssa.Value) ([]sval, *symSlice) {
		sl, ok := s.sliceOf(v)
		if !ok || sl.lo < 0 || sl.hi > len(s.mem[sl.base]) {
			return nil, nil
		}
		return s.mem[sl.base][sl.lo:sl.hi], &sl
	}
	order := ""
	switch {
	case strings.HasPrefix(id, "encoding/binary.(bigEndian)."):
		order = "big"
	case strings.HasPrefix(id, "encoding/binary.(littleEndian)."):
		order = "little"
	}
	if order != "" {
		name := id[len(id)-len("Uint16"):]
		put := strings.Contains(id, ").PutUint")
		n := map[string]int{"Uint16": 2, "Uint32": 4, "Uint64": 8}[name]
		if n == 0 {
			return true
		}
		// receiver is args[0] (the byte-order value)
		if put {
			cells, _ := bytesOf(args[1])
			v, ok := s.val(args[2])
			if cells == nil || len(cells) < n || !ok {
				s.why = "PutUint on an unmodelled buffer"
				return false
			}
			for j := 0; j < n; j++ {
				k := j
				if order == "big" {
					k = n - 1 - j
				}
				cells[j] = sval{b: append([]sbit{}, v.b[8*k:8*k+8]...)}
			}
			return true
		}
		cells, _ := bytesOf(args[1])
		if cells == nil || len(cells) < n {
			s.why = "Uint on an unmodelled buffer"
			return false
		}
		out := sval{b: make([]sbit, 8*n)}
		for j := 0; j < n; j++ {
			k := j
			if order == "big" {
				k = n - 1 - j
			}
			copy(out.b[8*k:8*k+8], cells[j].b)
		}
		s.ints[c] = out
		return true
	}
	switch id {
	case "io.ReadFull", "io.ReadAtLeast":
		cells, _ := bytesOf(args[1])
		if cells == nil {
			s.why = "ReadFull into an unmodelled buffer"
			return false
		}
		for j := range cells {
			cells[j] = symAtoms(fmt.Sprintf("in%d", s.nread), 8)
			s.nread++
		}
		return true
	case "bytes.(Reader).ReadByte", "bytes.(Buffer).ReadByte":
		s.readTuple[c] = symAtoms(fmt.Sprintf("in%d", s.nread), 8)
		s.nread++
		return true
	case "bytes.(Buffer).Write", "bytes.(Reader).Read":
		if id == "bytes.(Reader).Read" {
			cells, _ := bytesOf(args[1])
			if cells == nil {
				s.why = "Read into an unmodelled buffer"
				return false
			}
			s.why = "Read may be short"
			return false
		}
		cells, _ := bytesOf(args[1])
		if cells == nil {
			s.why = "Write of an unmodelled buffer"
			return false
		}
		for _, cell := range cells {
			s.out = append(s.out, cell)
		}
		return true
	case "bytes.(Buffer).WriteByte":
		v, ok := s.val(args[1])
		if !ok {
			s.why = "WriteByte of an unmodelled value"
			return false
		}
		s.out = append(s.out, v)
		return true
	}
	if c.Call.IsInvoke() && c.Call.Method.Name() == "Write" && len(args) == 1 {
		cells, _ := bytesOf(args[0])
		if cells == nil {
			s.why = "Write of an unmodelled buffer"
			return false
		}
		s.out = append(s.out, cells...)
		return true
	}
	// any other call: result opaque
	return true
}

// bigEndianOf: the expected value of byte j (0 = first on the wire) of an n-byte big-endian integer
// whose bits are the atoms name.i
func bigEndianByte(name string, n, j int) sval {
	v := sval{b: make([]sbit, 8)}
	for k := 0; k < 8; k++ {
		v.b[k] = sbit(fmt.Sprintf("%s.%d", name, 8*(n-1-j)+k))
	}
	return v
}

func svalEqual(a, b sval) bool {
	if len(a.b) != len(b.b) {
		return false
	}
	for i := range a.b {
		if a.b[i] != b.b[i] {
			return false
		}
	}
	return true
}

// symExprOver evaluates the integer expression v symbolically, outside any control flow: loads of
// src[i] (src a []byte parameter, i constant) are the atoms "src<i>.k", encoding/binary UintNN over a
// constant sub-slice of src is modelled, everything else is unknown (ok=false).
func symExprOver(v ssa.Value, src ssa.Value, memo map[ssa.Value]*sval, depth int) (sval, bool) {
	if r, ok := memo[v]; ok {
		if r == nil {
			return sval{}, false
		}
		return *r, true
	}
	if depth > 24 {
		return sval{}, false
	}
	memo[v] = nil
	done := func(x sval) (sval, bool) {
		memo[v] = &x
		return x, true
	}
	switch x := v.(type) {
	case *ssa.Const:
		if w, _, isInt := intWidth(x.Type()); isInt {
			if k, ok := constInt(x); ok {
				return done(symConst(uint64(k), w))
			}
		}
	case *ssa.Convert:
		w, _, isInt := intWidth(x.Type())
		_, fromSigned, fromInt := intWidth(x.X.Type())
		if in, ok := symExprOver(x.X, src, memo, depth+1); ok && isInt && fromInt {
			if r, ok := in.resize(w, fromSigned); ok {
				return done(r)
			}
		}
	case *ssa.UnOp:
		if x.Op == token.MUL {
			if ia, ok := x.X.(*ssa.IndexAddr); ok && ia.X == src {
				if k, ok := constInt(ia.Index); ok {
					return done(symAtoms(fmt.Sprintf("src%d", k), 8))
				}
			}
		}
	case *ssa.Call:
		id := funcID(calleeObj(&x.Call))
		order := ""
		if strings.HasPrefix(id, "encoding/binary.(bigEndian).Uint") {
			order = "big"
		} else if strings.HasPrefix(id, "encoding/binary.(littleEndian).Uint") {
			order = "little"
		}
		if order != "" {
			n := map[string]int{"Uint16": 2, "Uint32": 4, "Uint64": 8}[id[len(id)-6:]]
			sl, ok := x.Call.Args[len(x.Call.Args)-1].(*ssa.Slice)
			if n == 0 || !ok || sl.X != src {
				break
			}
			lo := int64(0)
			if sl.Low != nil {
				k, ok := constInt(sl.Low)
				if !ok {
					break
				}
				lo = k
			}
			out := sval{b: make([]sbit, 8*n)}
			for j := 0; j < n; j++ {
				k := j
				if order == "big" {
					k = n - 1 - j
				}
				copy(out.b[8*k:8*k+8], symAtoms(fmt.Sprintf("src%d", lo+int64(j)), 8).b)
			}
			return done(out)
		}
	case *ssa.BinOp:
		a, ok1 := symExprOver(x.X, src, memo, depth+1)
		b, ok2 := symExprOver(x.Y, src, memo, depth+1)
		if ok1 && ok2 {
			st := &symState{ints: map[ssa.Value]sval{x.X: a, x.Y: b}, bools: map[ssa.Value]bool{}}
			st.binop(x)
			if r, ok := st.ints[x]; ok {
				return done(r)
			}
		}
	}
	return sval{}, false
}
