package main

import (
	"fmt"
	"go/token"
	"go/types"
	"sort"
	"strings"

	"golang.org/x/tools/go/ssa"
)

// justified exceptions for the index rules: "<pkg-relative function>|<type of the indexed value>|<expression with the indexed value as $>" -> reason
var indexExceptions = map[string]string{
	"(*tars/util/conf.Conf).InitFromBytes|[]*conf.elem|$[(len($)-1)]":  "the stack starts with the root and is popped only on an EndElement token; encoding/xml (strict mode) reports an end element without a matching start as an error instead of returning the token, and that error now aborts parsing (C17.R1), so the stack never underflows",
	"(*tars/util/conf.Conf).InitFromBytes|[]*conf.elem|$[:(len($)-1)]": "same argument: a pop always matches an earlier push",
}

func checkPackageIndexes(r *R, rel string, onlyFuncs func(*ssa.Function) bool) {
	sp := r.w.Pkg(rel)
	if sp == nil {
		r.AnchorMissing("package " + rel)
		return
	}
	for _, fn := range r.w.Funcs(sp) {
		if onlyFuncs != nil && !onlyFuncs(fn) {
			continue
		}
		for _, s := range indexSites(fn) {
			// varargs / composite-literal temporaries are arrays with constant indexes: trivially safe
			if s.safe {
				if strings.Contains(s.why, "fixed array") {
					continue
				}
				r.OK(fname(fn), s.expr, s.in.Pos(), "%s", s.why)
				continue
			}
			if why, ok := indexExceptions[fname(fn)+"|"+s.shape]; ok {
				r.OKLookup(fname(fn), s.expr, s.in.Pos(), "justified exception: %s", why)
				continue
			}
			r.Bad(fname(fn), s.expr, s.in.Pos(), "%s: this panics (index/slice bounds out of range) for some input", s.why)
		}
	}
}

func init() {
	register(&Rule{ID: "C17.R1", Props: []string{"C17"}, Min: 1, Needs: NeedMain,
		Doc: "tokenizer errors are not swallowed: the error result of every (*xml.Decoder).Token call is bound, and on every path where it is non-nil and not io.EOF the function returns a non-nil error",
		Run: func(r *R) {
			sp := r.w.Pkg("tars/util/conf")
			if sp == nil {
				r.AnchorMissing("package tars/util/conf")
				return
			}
			n := 0
			for _, fn := range r.w.Funcs(sp) {
				eachInstr(fn, func(in ssa.Instruction) {
					call, ok := in.(*ssa.Call)
					if !ok || funcID(calleeObj(&call.Call)) != "encoding/xml.(Decoder).Token" {
						return
					}
					n++
					ev, _, found := errResult(call)
					if !found {
						r.Bad(fname(fn), "xml.Decoder.Token", call.Pos(), "the error of Token() is discarded: on a syntax error (e.g. a bare '&' in a value) the loop just ends and the rest of the document is silently dropped")
						return
					}
					isEOF := func(v ssa.Value) bool {
						ld, ok := v.(*ssa.UnOp)
						if !ok || ld.Op != token.MUL {
							return false
						}
						g, ok := ld.X.(*ssa.Global)
						return ok && g.Name() == "EOF" && g.Pkg.Pkg.Path() == "io"
					}
					pc := &propCtx{errv: ev, holds: func(c cmpNorm) bool {
						if nilCmp(c, ev, token.EQL) {
							return true
						}
						if c.Op == token.EQL && ((c.X == ev && isEOF(c.Y)) || (c.Y == ev && isEOF(c.X))) {
							return true
						}
						// errors.Is(err, io.EOF)
						if call2, ok := c.X.(*ssa.Call); ok && funcID(calleeObj(&call2.Call)) == "errors.Is" && call2.Call.Args[0] == ev && isEOF(call2.Call.Args[1]) && c.boolIs(c.X, true) {
							return true
						}
						return false
					}}
					ok2, why := mustErrorUnless(fn, call, pc)
					r.Check(ok2, fname(fn), "xml.Decoder.Token", call.Pos(), "a tokenizer error other than io.EOF makes the function return an error", "a tokenizer error can be ignored (%s): the parser reports success for a partially read document", why)
				})
			}
			if n == 0 {
				r.Bad("tars/util/conf", "xml.Decoder.Token", token.NoPos, "no Token() call found: the parser was restructured, the rule needs an idiom update (undecided)")
			}
		}})

	register(&Rule{ID: "C17.R2", Props: []string{"C17"}, Min: 5, Needs: NeedMain,
		Doc: "typed getters fall back to the caller's default: in every Get*WithDef each return on an error edge returns the default parameter, the value is parsed with the bit size of the getter's type, and the parsed value is returned by a value-preserving conversion",
		Run: func(r *R) {
			sp := r.w.Pkg("tars/util/conf")
			if sp == nil {
				r.AnchorMissing("package tars/util/conf")
				return
			}
			for _, fn := range r.w.Funcs(sp) {
				sig := fn.Signature
				if fn.Parent() != nil || sig.Recv() == nil || sig.Params().Len() != 2 || sig.Results().Len() != 1 {
					continue
				}
				if !types.Identical(sig.Params().At(1).Type(), sig.Results().At(0).Type()) || basicKind(sig.Params().At(0).Type()) != types.String {
					continue
				}
				def := fn.Params[2]
				okAll, nErr := true, 0
				detail := ""
				for _, b := range fn.Blocks {
					ret, ok := b.Instrs[len(b.Instrs)-1].(*ssa.Return)
					if !ok || b == fn.Recover {
						continue
					}
					onErr := false
					for _, f := range facts(b) {
						if c, okc := normFact(f); okc && c.Op == token.NEQ && isNilConst(c.Y) && isErrorType(c.X.Type()) {
							onErr = true
						}
					}
					rv := resolveSpill(ret.Results[0])
					if onErr {
						nErr++
						if rv != ssa.Value(def) {
							okAll = false
							detail = "an error return yields " + pathOf(rv) + " instead of the default"
						}
					}
				}
				if nErr == 0 {
					okAll, detail = false, "no error branch returns the default"
				}
				// parse width
				eachInstr(fn, func(in ssa.Instruction) {
					c, ok := in.(*ssa.Call)
					if !ok {
						return
					}
					id := funcID(calleeObj(&c.Call))
					if id != "strconv.ParseInt" && id != "strconv.ParseUint" && id != "strconv.ParseFloat" {
						return
					}
					bits, _ := constInt(c.Call.Args[len(c.Call.Args)-1])
					want := kindWidth(basicKind(sig.Results().At(0).Type())) * 8
					if basicKind(sig.Results().At(0).Type()) == types.Int || basicKind(sig.Results().At(0).Type()) == types.Uint {
						want = 0
					}
					if !(bits == want || (want == 0 && bits == 64)) {
						okAll = false
						detail = fmt.Sprintf("the value is parsed with bit size %d but returned as %s: out-of-range values wrap around instead of falling back to the default", bits, sig.Results().At(0).Type())
					}
				})
				r.Check(okAll, fname(fn), "fallback to the default", fn.Pos(), "absent or malformed values return the caller's default; parse width matches the type", "%s", detail)
			}
		}})

	register(&Rule{ID: "C17.R3", Props: []string{"C17"}, Min: 8, Needs: NeedMain,
		Doc: "no unguarded index or slice expression in the config package: every index/slice operation is dominated by a length guard, is a strings.Split result's first element, a loop-bounded index, or a listed justified exception",
		Run: func(r *R) { checkPackageIndexes(r, "tars/util/conf", nil) }})

	register(&Rule{ID: "C17.R5", Props: []string{"C17"}, Min: 1, Needs: NeedMain,
		Doc: "no line is dropped by the line splitter: lines are split with bufio.Scanner, or — when a bufio.Reader.ReadString/ReadBytes/ReadLine loop is used — the data returned together with a non-nil error (the last, unterminated line) is still processed",
		Run: func(r *R) {
			sp := r.w.Pkg("tars/util/conf")
			if sp == nil {
				r.AnchorMissing("package tars/util/conf")
				return
			}
			scanner := false
			for _, fn := range r.w.Funcs(sp) {
				eachInstr(fn, func(in ssa.Instruction) {
					c, ok := in.(*ssa.Call)
					if !ok {
						return
					}
					id := funcID(calleeObj(&c.Call))
					if id == "bufio.(Scanner).Scan" {
						scanner = true
					}
					if id != "bufio.(Reader).ReadString" && id != "bufio.(Reader).ReadBytes" && id != "bufio.(Reader).ReadLine" {
						return
					}
					var data, errv ssa.Value
					for _, ref := range *c.Referrers() {
						if e, ok := ref.(*ssa.Extract); ok {
							if e.Index == 0 {
								data = e
							}
							if isErrorType(e.Type()) {
								errv = e
							}
						}
					}
					okk := false
					if data != nil && errv != nil {
						for _, ref := range *data.Referrers() {
							if _, isDbg := ref.(*ssa.DebugRef); isDbg {
								continue
							}
							if !knownNilAt(errv, ref.Block()) {
								okk = true // used where the error may be non-nil
							}
						}
					}
					r.Check(okk, fname(fn), calleeShort(&c.Call)+" keeps the last line", c.Pos(), "the data returned with an error is processed", "the text returned by %s is only used when the error is nil: the last line of a chunk (no trailing newline, e.g. `k=v</a>`) is returned together with io.EOF and silently dropped", calleeShort(&c.Call))
				})
			}
			if scanner {
				r.OKLookup("tars/util/conf", "bufio.Scanner line splitting", token.NoPos, "bufio.Scanner returns the final unterminated line")
			}
		}})

	register(&Rule{ID: "C17.R4", Props: []string{"C17"}, Min: 3, Needs: NeedMain,
		Doc: "line grammar and domain merging: key/value lines are split with strings.SplitN(line, \"=\", 2) (first '=' splits); a '#' line or empty line is skipped before anything is recorded; a new domain node is created only when the current node has no child of that name (repeated domains merge)",
		Run: func(r *R) {
			fn := r.w.Func("tars/util/conf", "Conf.InitFromBytes")
			if fn == nil {
				r.AnchorMissing("conf.(*Conf).InitFromBytes")
				return
			}
			split := false
			eachInstr(fn, func(in ssa.Instruction) {
				c, ok := in.(*ssa.Call)
				if !ok {
					return
				}
				switch funcID(calleeObj(&c.Call)) {
				case "strings.SplitN":
					sep, _ := constString(c.Call.Args[1])
					n, _ := constInt(c.Call.Args[2])
					if sep == "=" && n == 2 {
						split = true
					}
				case "strings.Cut", "strings.Index":
					// the first occurrence, by definition
					if sep, _ := constString(c.Call.Args[1]); sep == "=" {
						split = true
					}
				case "strings.IndexByte", "strings.IndexRune":
					if k, isK := constInt(c.Call.Args[1]); isK && k == '=' {
						split = true
					}
				}
			})
			r.Check(split, fname(fn), "first '=' splits", fn.Pos(), "split at the first '=' (SplitN(line, \"=\", 2) / Cut / Index)", "key/value lines are not split at the first '=' only (a value containing '=' is truncated)")
			// node creation only on findChild miss
			var creates []ssa.Instruction
			eachInstr(fn, func(in ssa.Instruction) {
				if c := callCommon(in); c != nil && c.StaticCallee() != nil && c.StaticCallee().Name() == "newElem" {
					if k, ok := constInt(c.Args[0]); ok && k == 0 { // Node
						creates = append(creates, in)
					}
				}
			})
			okMerge := len(creates) > 0
			for _, cr := range creates {
				miss := false
				for _, f := range facts(cr.Block()) {
					c, okc := normFact(f)
					if !okc {
						continue
					}
					if ex, isEx := c.X.(*ssa.Extract); isEx && ex.Index == 1 && c.boolIs(c.X, false) {
						if call, isC := ex.Tuple.(*ssa.Call); isC && call.Call.StaticCallee() != nil && call.Call.StaticCallee().Name() == "findChild" {
							miss = true
						}
					}
				}
				if !miss {
					okMerge = false
				}
			}
			r.Check(okMerge, fname(fn), "repeated domains merge", fn.Pos(), "a domain node is created only when findChild misses", "a new domain node is created although one of that name may exist: the earlier block's keys, lines and sub-domains are dropped while parsing still reports success")
			// comment / empty lines skipped before addLine
			// the recording of a line: a store to elem.lines (the mutators of elem are analysed in line)
			var addLine ssa.Instruction
			eachInstr(fn, func(in ssa.Instruction) {
				if c := callCommon(in); c != nil && c.StaticCallee() != nil && c.StaticCallee().Name() == "addLine" {
					addLine = in
				}
				if st, ok := in.(*ssa.Store); ok {
					if fv, base, ok := fieldAddrOf(st.Addr); ok && (fv.Name() == "line" || fv.Name() == "lines") && strings.HasSuffix(typeID(base.Type()), "conf.elem") {
						addLine = in
					}
				}
			})
			okSkip := false
			if addLine != nil {
				notEmpty, notHash := false, false
				for _, f := range facts(addLine.Block()) {
					c, okc := normFact(f)
					if !okc {
						continue
					}
					if s, isS := constString(c.Y); isS && s == "" && c.Op == token.NEQ {
						notEmpty = true
					}
					if k, isK := constInt(c.Y); isK && k == '#' && c.Op == token.NEQ {
						notHash = true
					}
					// strings.HasPrefix(line, "#") known false
					if call, isCall := f.Cond.(*ssa.Call); isCall && !f.Taken && funcID(calleeObj(&call.Call)) == "strings.HasPrefix" {
						if p, _ := constString(call.Call.Args[1]); p == "#" {
							notHash = true
						}
					}
					// len(line) != 0 / > 0
					if isLenLike(c.X) {
						if k, isK := constInt(c.Y); isK && ((c.Op == token.NEQ && k == 0) || (c.Op == token.GTR && k == 0) || (c.Op == token.GEQ && k == 1)) {
							notEmpty = true
						}
					}
				}
				// the disjunction `(len>0 && line[0]=='#') || line==""` leaves no single dominating fact for '#';
				// accept the emptiness fact plus the existence of a '#' comparison that jumps back to the scan
				hashTest := false
				eachInstr(fn, func(in ssa.Instruction) {
					if b, ok := in.(*ssa.BinOp); ok && b.Op == token.EQL {
						if k, isK := constInt(b.Y); isK && k == '#' {
							hashTest = true
						}
					}
					if call, ok := in.(*ssa.Call); ok && funcID(calleeObj(&call.Call)) == "strings.HasPrefix" {
						if p, _ := constString(call.Call.Args[1]); p == "#" {
							hashTest = true
						}
					}
				})
				okSkip = notEmpty && (notHash || hashTest)
			}
			r.Check(okSkip, fname(fn), "comment and empty lines are skipped", fn.Pos(), "lines are recorded only when non-empty and not starting with '#'", "comment or empty lines can be recorded as data")
		}})
}

func init() {
	register(&Rule{ID: "C17.R6", Props: []string{"C17"}, Min: 1, Needs: NeedMain,
		Doc: "no write into a nil map: for every struct field of map type that package conf assigns into (m[k] = v), every place that allocates that struct stores a freshly made map into the field on every path before it returns (or the write is dominated by a non-nil test) — arbitrary documents reach the write through any node kind, e.g. a key line followed by a same-named sub-domain",
		Run: func(r *R) {
			sp := r.w.Pkg("tars/util/conf")
			if sp == nil {
				r.AnchorMissing("package conf")
				return
			}
			type key struct {
				t string
				f int
			}
			written := map[key]*ssa.MapUpdate{}
			names := map[key]string{}
			for _, fn := range r.w.Funcs(sp) {
				eachInstr(fn, func(in ssa.Instruction) {
					mu, ok := in.(*ssa.MapUpdate)
					if !ok {
						return
					}
					u, ok := mu.Map.(*ssa.UnOp)
					if !ok || u.Op != token.MUL {
						return
					}
					fa, ok := u.X.(*ssa.FieldAddr)
					if !ok {
						return
					}
					// guarded by a dominating non-nil test on the same load?
					for _, f := range facts(in.Block()) {
						if c, ok := normFact(f); ok && c.Op == token.NEQ && isNilConst(c.Y) && sameValue(c.X, u) {
							return
						}
					}
					k := key{typeID(fa.X.Type()), fa.Field}
					if _, dup := written[k]; !dup {
						written[k] = mu
						if fv, _, ok := fieldAddrOf(fa); ok {
							names[k] = k.t + "." + fv.Name()
						}
					}
				})
			}
			var ks []key
			for k := range written {
				ks = append(ks, k)
			}
			sort.Slice(ks, func(i, j int) bool { return names[ks[i]] < names[ks[j]] })
			for _, k := range ks {
				sites := 0
				for _, fn := range r.w.Funcs(sp) {
					eachInstr(fn, func(in ssa.Instruction) {
						al, ok := in.(*ssa.Alloc)
						if !ok || typeID(al.Type()) != k.t {
							return
						}
						sites++
						var mk *ssa.Store
						for _, ref := range *al.Referrers() {
							fa, ok := ref.(*ssa.FieldAddr)
							if !ok || fa.Field != k.f {
								continue
							}
							for _, r2 := range *fa.Referrers() {
								if st, ok := r2.(*ssa.Store); ok && st.Addr == ssa.Value(fa) {
									if _, isMk := st.Val.(*ssa.MakeMap); isMk {
										// must hold on every exit
										all := true
										eachInstr(fn, func(j ssa.Instruction) {
											if ret, ok := j.(*ssa.Return); ok && !instrDominates(st, ret) {
												all = false
											}
										})
										if all {
											mk = st
										}
									}
								}
							}
						}
						r.Check(mk != nil, fname(fn), "allocation of "+names[k]+" initialises the map", in.Pos(), "make(map) stored on every path", "this allocation can leave %s nil on some path, and %s writes into it without a nil test: the parser panics on a document that reaches the write through such a node", names[k], r.posStr(written[k].Pos()))
					})
				}
				if sites == 0 {
					r.Undecided("tars/util/conf", "allocation sites of "+names[k], written[k].Pos(), "no allocation of the struct found in the package")
				}
			}
		}})
}
