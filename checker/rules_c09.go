package main

import (
	"fmt"
	"go/token"
	"go/types"
	"sort"
	"strings"

	"golang.org/x/tools/go/ssa"
)

// ---- A5 pairing ---------------------------------------------------------------------------------

// funcAlwaysReleases: every path from the entry of g to a return passes a release (directly, or
// through a deferred release registered on that path).
func funcAlwaysReleases(g *ssa.Function, isRel func(ssa.Instruction) bool, depth int) bool {
	if g == nil || len(g.Blocks) == 0 {
		return false
	}
	cover := func(in ssa.Instruction) bool { return coversRelease(in, isRel, depth) }
	bad := reachFromEntryAvoiding(g, isReturn, cover)
	return bad == nil
}

// coversRelease: executing `in` guarantees the release (now, or at function exit for defers, or by
// handing a closure that always releases to go/defer/a channel).
func coversRelease(in ssa.Instruction, isRel func(ssa.Instruction) bool, depth int) bool {
	if isRel(in) {
		return true
	}
	if depth > 3 {
		return false
	}
	closureOf := func(v ssa.Value) *ssa.Function {
		v = strip(v, false)
		if mc, ok := v.(*ssa.MakeClosure); ok {
			return mc.Fn.(*ssa.Function)
		}
		if f, ok := v.(*ssa.Function); ok {
			return f
		}
		return nil
	}
	switch x := in.(type) {
	case *ssa.Defer:
		if g := closureOf(x.Call.Value); g != nil && funcAlwaysReleases(g, isRel, depth+1) {
			return true
		}
		if sc := x.Call.StaticCallee(); sc != nil && sc.Blocks != nil && funcAlwaysReleases(sc, isRel, depth+1) {
			return true
		}
	case *ssa.Go:
		if g := closureOf(x.Call.Value); g != nil && funcAlwaysReleases(g, isRel, depth+1) {
			return true
		}
	case *ssa.Send:
		if g := closureOf(x.X); g != nil && funcAlwaysReleases(g, isRel, depth+1) {
			return true
		}
	}
	return false
}

// unpairedExit: from just after `acq`, is there a path to a function exit that is not covered by a
// release? Returns the offending exit.
func unpairedExit(acq ssa.Instruction, isRel func(ssa.Instruction) bool) ssa.Instruction {
	return reachAvoiding(acq, isExit, func(in ssa.Instruction) bool {
		if coversRelease(in, isRel, 0) {
			return true
		}
		if c, ok := in.(*ssa.Call); ok {
			if sc := c.Call.StaticCallee(); sc != nil && neverReturns(sc, nil) {
				return true
			}
		}
		return false
	})
}

// atomicAddOn: in is atomic.AddInt32/64(&X.field, delta const) → field path suffix, delta.
func atomicAddOn(in ssa.Instruction) (field string, delta int64, ok bool) {
	c := callCommon(in)
	if c == nil {
		return
	}
	op := atomicOp(c)
	if op != "AddInt32" && op != "AddInt64" {
		return
	}
	fv, _, isF := fieldAddrOf(c.Args[0])
	if !isF {
		return
	}
	d, isC := constInt(c.Args[1])
	if !isC {
		return
	}
	return typeID(c.Args[0].(*ssa.FieldAddr).X.Type()) + "." + fv.Name(), d, true
}

func init() {
	register(&Rule{ID: "C09.R1", Props: []string{"C09", "C12"}, Min: 5, Needs: NeedMain,
		Doc: "counters and table entries are paired on all exits: every in-flight counter increment (queueLen, numInvoke, ...), preInvoke and resp.Store is followed on every path to a function exit by its decrement / postInvoke / resp.Delete — directly, through a defer registered on that path, or by handing a closure that always releases to go / the worker pool",
		Run: func(r *R) {
			var fns []*ssa.Function
			for _, rel := range []string{"tars", "tars/transport"} {
				if sp := r.w.Pkg(rel); sp != nil {
					fns = append(fns, r.w.Funcs(sp)...)
				} else {
					r.AnchorMissing("package " + rel)
				}
			}
			for _, fn := range fns {
				// which counter fields are decremented somewhere in this function or its closures?
				decs := map[string]bool{}
				eachInstrDeep(fn, func(g *ssa.Function, in ssa.Instruction) {
					if f, d, ok := atomicAddOn(in); ok && d < 0 {
						decs[f] = true
					}
				})
				eachInstr(fn, func(in ssa.Instruction) {
					// (a) counter increments with a decrement in the same function tree
					if f, d, ok := atomicAddOn(in); ok && d > 0 && decs[f] {
						isRel := func(j ssa.Instruction) bool {
							f2, d2, ok2 := atomicAddOn(j)
							return ok2 && f2 == f && d2 == -d
						}
						short := f[strings.LastIndex(f, "/")+1:]
						if ex := unpairedExit(in, isRel); ex == nil {
							r.OK(fname(fn), "+1/-1 "+short, in.Pos(), "every exit after the increment passes the decrement (direct, deferred or via the handed-off closure)")
						} else {
							r.Bad(fname(fn), "+1/-1 "+short, in.Pos(), "the exit at %s is reachable after the increment of %s without the decrement: the in-flight counter leaks (after enough leaks every call is rejected / shutdown never drains)", r.posStr(ex.Pos()), short)
						}
					}
					c := callCommon(in)
					if c == nil {
						return
					}
					// (b) preInvoke / postInvoke
					if o := calleeObj(c); o != nil && o.Name() == "preInvoke" {
						isRel := func(j ssa.Instruction) bool {
							cc := callCommon(j)
							if cc == nil {
								return false
							}
							o2 := calleeObj(cc)
							return o2 != nil && o2.Name() == "postInvoke"
						}
						if ex := unpairedExit(in, isRel); ex == nil {
							r.OK(fname(fn), "preInvoke/postInvoke", in.Pos(), "every exit after preInvoke passes postInvoke")
						} else {
							r.Bad(fname(fn), "preInvoke/postInvoke", in.Pos(), "the exit at %s is reachable after preInvoke without postInvoke: the manager's in-flight count leaks", r.posStr(ex.Pos()))
						}
					}
					// (c) resp.Store / resp.Delete
					if funcID(calleeObj(c)) == "sync.(Map).Store" && isFieldOf(c.Args[0], adapterT, "resp") {
						isRel := func(j ssa.Instruction) bool {
							cc := callCommon(j)
							return cc != nil && funcID(calleeObj(cc)) == "sync.(Map).Delete" && isFieldOf(cc.Args[0], adapterT, "resp")
						}
						if ex := unpairedExit(in, isRel); ex == nil {
							r.OK(fname(fn), "resp.Store/resp.Delete", in.Pos(), "every exit after the registration deletes the entry")
						} else {
							r.Bad(fname(fn), "resp.Store/resp.Delete", in.Pos(), "the exit at %s is reachable after resp.Store without resp.Delete: the pending-reply table keeps the entry of a finished call", r.posStr(ex.Pos()))
						}
					}
				})
			}
		}})

	register(&Rule{ID: "C09.R2", Props: []string{"C09"}, Min: 1, Needs: NeedMain,
		Doc: "the call's context always has a deadline: the context handed to the exchange is, on every path, the caller's context on the Deadline()-ok edge or the result of context.WithTimeout/WithDeadline",
		Run: func(r *R) {
			ex := exchangeFunc(r.w)
			if ex == nil {
				r.AnchorMissing("client exchange function")
				return
			}
			sp := r.w.Pkg("tars")
			n := 0
			for _, fn := range r.w.Funcs(sp) {
				eachInstr(fn, func(in ssa.Instruction) {
					c := callCommon(in)
					if c == nil || c.StaticCallee() != ex {
						return
					}
					n++
					ctx := c.Args[1]
					ok, why := ctxHasDeadline(ctx, in.Block(), 0)
					r.Check(ok, fname(fn), "ctx passed to the exchange", in.Pos(), "context is deadline-bounded on every path (%s)", "the exchange can be entered with a context that has no deadline (%s): a silent peer blocks the caller forever", why)
				})
			}
			if n == 0 {
				r.Bad("tars", "call of the exchange", ex.Pos(), "no direct call of the exchange function found")
			}
		}})

	register(&Rule{ID: "C09.R3", Props: []string{"C09"}, Min: 4, Needs: NeedMain,
		Doc: "every peer-dependent wait of the exchange is bounded: each blocking select / channel operation in the exchange function, AdapterProxy.Send/Recv, TarsClient.Send and the (re)connect has a case on ctx.Done() of the call's context or on a timer that is non-nil on every path; dials carry a timeout",
		Run: func(r *R) {
			ex := exchangeFunc(r.w)
			rc := recvFunc(r.w)
			if ex == nil || rc == nil {
				r.AnchorMissing("exchange function / AdapterProxy.Recv")
				return
			}
			// cone: static callees within tars and tars/transport, not crossing go/defer, depth <= 3
			okPkg := map[*ssa.Package]bool{r.w.Pkg("tars"): true, r.w.Pkg("tars/transport"): true}
			cone := map[*ssa.Function]bool{}
			var visit func(f *ssa.Function, d int)
			visit = func(f *ssa.Function, d int) {
				if cone[f] || f.Blocks == nil || !okPkg[f.Pkg] || d > 5 {
					return
				}
				cone[f] = true
				eachInstr(f, func(in ssa.Instruction) {
					if c, ok := in.(*ssa.Call); ok {
						if sc := c.Call.StaticCallee(); sc != nil {
							n := sc.Name()
							// local bookkeeping after/around the exchange is out of scope (local resources)
							if strings.HasPrefix(n, "Report") || strings.HasPrefix(n, "CheckPanic") || n == "SelectAdapterProxy" {
								return
							}
							visit(sc, d+1)
						}
					}
				})
			}
			visit(ex, 0)
			visit(rc, 0)
			var fs []*ssa.Function
			for f := range cone {
				fs = append(fs, f)
			}
			sort.Slice(fs, func(i, j int) bool { return fname(fs[i]) < fname(fs[j]) })
			for _, f := range fs {
				eachInstr(f, func(in ssa.Instruction) {
					switch x := in.(type) {
					case *ssa.Select:
						if !x.Blocking {
							return
						}
						bounded, why := false, "no ctx.Done()/timer case"
						for _, st := range x.States {
							if st.Dir != types.RecvOnly {
								continue
							}
							if ok, w := boundedChan(st.Chan); ok {
								if w == "ctx.Done()" {
									// the context must be the call's own one, handed down from the exchange function
									c := strip(st.Chan, false).(*ssa.Call)
									if ok2, w2 := isCallCtx(c.Call.Value, f, ex, cone, 0); !ok2 {
										why = "the context whose Done() is watched is not the call's context: " + w2
										continue
									}
								}
								bounded, why = true, w
								break
							} else if w != "" {
								why = w
							}
						}
						r.Check(bounded, fname(f), fmt.Sprintf("select{%s}", selectDesc(x)), in.Pos(), "bounded by %s", "blocking select is not bounded by the call's deadline: %s", why)
					case *ssa.Send:
						r.Bad(fname(f), "blocking send on "+pathOf(x.Chan), in.Pos(), "an unconditional channel send in the exchange path can block past the call's deadline")
					case *ssa.UnOp:
						if x.Op == token.ARROW {
							if ok, why := boundedChan(x.X); ok {
								r.OK(fname(f), "receive from "+pathOf(x.X), in.Pos(), "bounded: %s", why)
							} else {
								r.Bad(fname(f), "blocking receive from "+pathOf(x.X), in.Pos(), "an unconditional channel receive in the exchange path can block past the call's deadline")
							}
						}
					case *ssa.Call:
						id := funcID(calleeObj(&x.Call))
						switch id {
						case "net.Dial", "crypto/tls.Dial":
							r.Bad(fname(f), id, in.Pos(), "dial without a timeout in the call path")
						case "net.DialTimeout":
							r.OK(fname(f), id, in.Pos(), "dial bounded by %s", pathOf(x.Call.Args[2]))
						case "crypto/tls.DialWithDialer":
							// the dialer literal must set Timeout
							set := false
							if a, ok := strip(x.Call.Args[0], false).(*ssa.Alloc); ok {
								for _, ref := range *a.Referrers() {
									if fa, ok := ref.(*ssa.FieldAddr); ok {
										if fv, _, _ := fieldAddrOf(fa); fv != nil && fv.Name() == "Timeout" {
											set = true
										}
									}
								}
							}
							r.Check(set, fname(f), id, in.Pos(), "TLS dial with Dialer.Timeout set", "TLS dial whose Dialer has no Timeout")
						}
					}
				})
			}
		}})
}

// isCallCtx: context value v inside f is the context of the call being exchanged: the context
// parameter of the exchange function ex, handed down unchanged (or narrowed by With*) through every
// call site inside the cone.
func isCallCtx(v ssa.Value, f, ex *ssa.Function, cone map[*ssa.Function]bool, depth int) (bool, string) {
	if depth > 6 {
		return false, "context provenance too deep"
	}
	switch x := strip(v, false).(type) {
	case *ssa.Parameter:
		if f == ex || f.Parent() == ex {
			return true, ""
		}
		idx := -1
		for i, p := range f.Params {
			if p == x {
				idx = i
			}
		}
		sites := 0
		var cs []*ssa.Function
		for g := range cone {
			cs = append(cs, g)
		}
		sort.Slice(cs, func(i, j int) bool { return fname(cs[i]) < fname(cs[j]) })
		for _, g := range cs {
			var bad string
			eachInstr(g, func(in ssa.Instruction) {
				c, ok := in.(*ssa.Call)
				if !ok || c.Call.StaticCallee() != f || idx < 0 || idx >= len(c.Call.Args) || bad != "" {
					return
				}
				sites++
				if ok, w := isCallCtx(c.Call.Args[idx], g, ex, cone, depth+1); !ok {
					bad = fmt.Sprintf("%s passes %s", fname(g), w)
				}
			})
			if bad != "" {
				return false, bad
			}
		}
		if sites == 0 {
			return false, "no call site of " + fname(f) + " in the exchange path"
		}
		return true, ""
	case *ssa.Call:
		id := funcID(calleeObj(&x.Call))
		if id == "context.Background" || id == "context.TODO" {
			return false, id + "(), which is never done"
		}
		return false, "a context returned by " + id
	case *ssa.Extract:
		if c, ok := x.Tuple.(*ssa.Call); ok && x.Index == 0 {
			switch funcID(calleeObj(&c.Call)) {
			case "context.WithTimeout", "context.WithDeadline":
				return true, ""
			case "context.WithCancel":
				return isCallCtx(c.Call.Args[0], f, ex, cone, depth+1)
			}
		}
	case *ssa.Phi:
		for _, e := range x.Edges {
			if ok, w := isCallCtx(e, f, ex, cone, depth+1); !ok {
				return false, w
			}
		}
		return true, ""
	}
	return false, "a context of unknown provenance (" + pathOf(v) + ")"
}

func selectDesc(s *ssa.Select) string {
	var ps []string
	for _, st := range s.States {
		d := "<-"
		if st.Dir == types.SendOnly {
			d = "send "
		}
		ps = append(ps, d+pathOf(st.Chan))
	}
	return strings.Join(ps, "; ")
}

// boundedChan: the channel is ctx.Done() of a context, or a timer channel (rtimer.After /
// time.After / Ticker.C) that is non-nil on every path.
func boundedChan(ch ssa.Value) (bool, string) {
	ch = strip(ch, false)
	switch x := ch.(type) {
	case *ssa.Call:
		if x.Call.IsInvoke() && x.Call.Method.Name() == "Done" && typeID(x.Call.Value.Type()) == "context.Context" {
			return true, "ctx.Done()"
		}
		id := funcID(calleeObj(&x.Call))
		if strings.HasSuffix(id, "/rtimer.After") || id == "time.After" {
			return true, "timer " + calleeShort(&x.Call)
		}
	case *ssa.Phi:
		for i, e := range x.Edges {
			if isNilConst(e) {
				return false, fmt.Sprintf("the timer channel %s is nil on the path from block %d (a nil channel never fires, the wait is unbounded)", pathOf(ch), x.Block().Preds[i].Index)
			}
			if ok, why := boundedChan(e); !ok {
				return false, why
			}
		}
		return true, "timer (all paths)"
	case *ssa.UnOp:
		if x.Op == token.MUL {
			if fa, ok := x.X.(*ssa.FieldAddr); ok {
				if fv, _, _ := fieldAddrOf(fa); fv != nil && fv.Name() == "C" && (typeID(fa.X.Type()) == "time.Ticker" || typeID(fa.X.Type()) == "time.Timer") {
					return true, "ticker"
				}
			}
		}
	}
	return false, ""
}

// ctxHasDeadline: value v (a context) is bounded on every path.
func ctxHasDeadline(v ssa.Value, at *ssa.BasicBlock, depth int) (bool, string) {
	if depth > 6 {
		return false, "too deep"
	}
	switch x := v.(type) {
	case *ssa.Extract:
		if c, ok := x.Tuple.(*ssa.Call); ok {
			id := funcID(calleeObj(&c.Call))
			if x.Index == 0 && (id == "context.WithTimeout" || id == "context.WithDeadline") {
				return true, id
			}
		}
	case *ssa.Phi:
		var whys []string
		for i, e := range x.Edges {
			pred := x.Block().Preds[i]
			ok, why := ctxHasDeadline(e, pred, depth+1)
			if !ok {
				// the caller's own context on the Deadline()-ok edge
				if deadlineOKOn(e, pred, x.Block()) {
					whys = append(whys, "caller's deadline")
					continue
				}
				return false, fmt.Sprintf("edge %d: %s", i, why)
			}
			whys = append(whys, why)
		}
		return true, strings.Join(uniqSorted(whys), " | ")
	case *ssa.Parameter:
		if at != nil && deadlineOKOn(x, at, nil) {
			return true, "caller's deadline"
		}
		return false, "the caller's context is used as is"
	case *ssa.UnOp:
		if x.Op == token.MUL {
			if a, ok := x.X.(*ssa.Alloc); ok {
				// spilled ctx variable: all stores must be bounded
				var whys []string
				for _, ref := range *a.Referrers() {
					if st, ok := ref.(*ssa.Store); ok && st.Addr == a {
						ok2, why := ctxHasDeadline(st.Val, st.Block(), depth+1)
						if !ok2 {
							return false, why
						}
						whys = append(whys, why)
					}
				}
				if len(whys) > 0 {
					return true, strings.Join(uniqSorted(whys), " | ")
				}
			}
		}
	}
	return false, "context of unknown origin " + pathOf(v)
}

func uniqSorted(s []string) []string {
	sort.Strings(s)
	return uniq(s)
}

// deadlineOKOn: a fact on block b (or the edge b->succ) says that ctx.Deadline() returned ok==true.
func deadlineOKOn(ctx ssa.Value, b, succ *ssa.BasicBlock) bool {
	fs := facts(b)
	if succ != nil {
		fs = append(fs, edgeFactOf(b, succ)...)
	}
	for _, f := range fs {
		c, ok := normFact(f)
		if !ok || c.Op != token.EQL {
			continue
		}
		if cb, isB := constBool(c.Y); !isB || !cb {
			continue
		}
		if ex, ok := c.X.(*ssa.Extract); ok && ex.Index == 1 {
			if call, ok := ex.Tuple.(*ssa.Call); ok && call.Call.IsInvoke() && call.Call.Method.Name() == "Deadline" && call.Call.Value == ctx {
				return true
			}
		}
	}
	return false
}
