package main

// Rules added after the fourth round of independently written changes (DESIGN.md section 9).

import (
	"go/token"
	"go/types"
	"strings"

	"golang.org/x/tools/go/ssa"
)

func init() {
	register(&Rule{ID: "C04.R8", Props: []string{"C04", "C03", "C01"}, Min: 1, Needs: NeedMain,
		Doc: "the head pushed back is the head that was read: every call of unreadHead passes the tag returned by the readHead call whose head is being pushed back (not the tag being looked for — the two differ exactly when an optional field is absent, and they have different head lengths when one of them is below 15 and the other is not)",
		Run: func(r *R) {
			un := r.w.Func(codecPkg, "Reader.unreadHead")
			rh := r.w.Func(codecPkg, "Reader.readHead")
			if un == nil || rh == nil {
				r.AnchorMissing("codec.(*Reader).unreadHead / readHead")
				return
			}
			for _, fn := range r.w.decodeFuncs() {
				eachInstr(fn, func(in ssa.Instruction) {
					c, ok := in.(*ssa.Call)
					if !ok || c.Call.StaticCallee() != un {
						return
					}
					arg := c.Call.Args[1]
					okk := false
					if ex, isEx := arg.(*ssa.Extract); isEx && ex.Index == 1 {
						if rc, isCall := ex.Tuple.(*ssa.Call); isCall && rc.Call.StaticCallee() == rh && instrDominates(rc, in) {
							okk = true
							// and no other head was read in between
							eachInstr(fn, func(j ssa.Instruction) {
								if c2, ok := j.(*ssa.Call); ok && c2 != rc && c2.Call.StaticCallee() == rh && reaches(rc, j) && reaches(j, in) && !reaches(j, rc) {
									okk = false
								}
							})
						}
					}
					r.Check(okk, fname(fn), "unreadHead(tag of the head just read)", in.Pos(), "pushes back the head returned by the preceding readHead", "unreadHead is called with %s, which is not the tag of the head read just before: the number of bytes pushed back is wrong whenever that tag and the real one lie on different sides of 15 (the next read starts in the middle of a head)", pathOf(arg))
				})
			}
		}})

	register(&Rule{ID: "C17.R7", Props: []string{"C17"}, Min: 2, Needs: NeedMain,
		Doc: "typed getters parse decimal numbers: every strconv.ParseInt/ParseUint in package conf uses base 10 (strconv.Atoi is base 10 by definition): with base 0 a leading zero selects octal and `0x10`, `1_000` are accepted, so `010` reads as 8 and `08` falls back to the default",
		Run: func(r *R) {
			sp := r.w.Pkg("tars/util/conf")
			if sp == nil {
				r.AnchorMissing("package conf")
				return
			}
			for _, fn := range r.w.Funcs(sp) {
				eachInstr(fn, func(in ssa.Instruction) {
					c := callCommon(in)
					if c == nil {
						return
					}
					switch funcID(calleeObj(c)) {
					case "strconv.Atoi":
						r.OKLookup(fname(fn), "integer parse", in.Pos(), "strconv.Atoi (decimal)")
					case "strconv.ParseInt", "strconv.ParseUint":
						k, isK := constInt(c.Args[1])
						r.Check(isK && k == 10, fname(fn), "integer parse", in.Pos(), "base 10", "the value is parsed with base %s: the same text yields another number (octal/hex/underscore forms) or the default", pathOf(c.Args[1]))
					}
				})
			}
		}})

	register(&Rule{ID: "C12.R7", Props: []string{"C12", "C10"}, Min: 2, Needs: NeedMain,
		Doc: "the server's receive loop only ever limits reading: inside tcpHandler.recv no SetDeadline / SetWriteDeadline is applied to the connection (the 100 ms drain deadline after Shutdown must not make the pending responses and the reconnect notification fail); and a connection leaves the connection table only after recv has returned, i.e. after it has drained and been closed (conns.Delete is called after recv in the accept goroutine, never inside recv or under it)",
		Run: func(r *R) {
			sp := r.w.Pkg("tars/transport")
			recv := r.w.Func("tars/transport", "tcpHandler.recv")
			if sp == nil || recv == nil {
				r.AnchorMissing("transport.(*tcpHandler).recv")
				return
			}
			nDead := 0
			eachInstrDeep(recv, func(g *ssa.Function, in ssa.Instruction) {
				c := callCommon(in)
				if c == nil || !c.IsInvoke() || !isNetConn(c.Value.Type()) {
					return
				}
				switch c.Method.Name() {
				case "SetReadDeadline":
					nDead++
					r.OKLookup(fname(g), "read deadline", in.Pos(), "SetReadDeadline")
				case "SetDeadline", "SetWriteDeadline":
					r.Bad(fname(g), "deadline that covers writes", in.Pos(), "%s in the receive loop also limits writes: a handler that finishes later than the deadline cannot write its response, and the reconnect notification fails as well", c.Method.Name())
				}
			})
			if nDead == 0 {
				r.Undecided(fname(recv), "read deadline", recv.Pos(), "no SetReadDeadline found in the receive loop")
			}
			// conns.Delete only after recv returned
			nDel := 0
			for _, fn := range r.w.Funcs(sp) {
				eachInstr(fn, func(in ssa.Instruction) {
					c := callCommon(in)
					if c == nil || funcID(calleeObj(c)) != "sync.(Map).Delete" || !strings.HasSuffix(pathOf(c.Args[0]), ".conns") {
						return
					}
					nDel++
					_, deferred := in.(*ssa.Defer)
					root := fn
					for root.Parent() != nil {
						root = root.Parent()
					}
					after := false
					eachInstr(fn, func(j ssa.Instruction) {
						if cc, ok := j.(*ssa.Call); ok && cc.Call.StaticCallee() == recv && instrDominates(j, in) {
							after = true
						}
					})
					r.Check(after && !deferred && root != recv && fn != recv, fname(fn), "connection unregistered after it has drained", in.Pos(), "conns.Delete follows the return of recv", "the connection is removed from the connection table before its receive loop (which waits for the handlers and closes it) has finished: Shutdown/CloseIdles no longer see it, report `all drained` and return while requests of that connection are still running")
				})
			}
			if nDel == 0 {
				r.Undecided("tars/transport", "conns.Delete", recv.Pos(), "no removal from the connection table found")
			}
		}})

	register(&Rule{ID: "C10.R9", Props: []string{"C10", "C01"}, Min: 1, Needs: NeedMain,
		Doc: "the transport learns the packet type of every request: each normal return of Protocol.Invoke is preceded by current.SetPacketTypeFromContext(ctx, <the response's packet type>) — the TCP/UDP handlers decide from that context value whether a response is written, so a path that returns without it answers a one-way request",
		Run: func(r *R) {
			fn := r.w.Func("tars", "Protocol.Invoke")
			if fn == nil {
				r.AnchorMissing("tars.(*Protocol).Invoke")
				return
			}
			isSet := func(in ssa.Instruction) bool {
				c := callCommon(in)
				return c != nil && calleeObj(c) != nil && calleeObj(c).Name() == "SetPacketTypeFromContext"
			}
			ex := reachFromEntryAvoiding(fn, func(in ssa.Instruction) bool { return isReturn(in) && in.Block() != fn.Recover }, isSet)
			r.Check(ex == nil, fname(fn), "packet type recorded on every return", fn.Pos(), "every return passes SetPacketTypeFromContext", "a return (%s) is reachable without recording the packet type in the context: the handler then treats the request as two-way and writes a response to a one-way request", posOf(r, ex))
		}})

	register(&Rule{ID: "C01.R11", Props: []string{"C01"}, Min: 2, Needs: NeedMain,
		Doc: "the middleware chain reflects the registrations at the time of the call: getMiddlewareClientFilter / getMiddlewareServerFilter build the chain from the current slice on every call — no sync.Once and no store into the filters value (a cached chain never sees middlewares registered later)",
		Run: func(r *R) {
			for _, name := range []string{"getMiddlewareClientFilter", "getMiddlewareServerFilter"} {
				fn := r.w.Func("tars", "filters."+name)
				if fn == nil {
					r.AnchorMissing("tars.(*filters)." + name)
					continue
				}
				bad := ""
				eachInstrDeep(fn, func(g *ssa.Function, in ssa.Instruction) {
					if c := callCommon(in); c != nil && funcID(calleeObj(c)) == "sync.(Once).Do" {
						bad = "the chain is built under a sync.Once"
					}
					if st, ok := in.(*ssa.Store); ok {
						if _, base, ok := fieldAddrOf(st.Addr); ok && strings.HasSuffix(typeID(base.Type()), "tars.filters") {
							bad = "the chain is stored into " + pathOf(st.Addr)
						}
					}
				})
				r.Check(bad == "", fname(fn), "chain built per call", fn.Pos(), "no caching of the composed chain", "%s: middlewares registered after the first call are never run", bad)
			}
		}})

	register(&Rule{ID: "C09.R4", Props: []string{"C09"}, Min: 1, Needs: NeedMain,
		Doc: "connection establishment is bounded including the TLS handshake: the client dials TLS with tls.DialWithDialer (the Dialer's Timeout covers the handshake) or, if it performs the handshake itself, sets a deadline on the connection first / uses HandshakeContext; an unbounded Handshake() under the connection lock blocks every caller of that adapter for ever when the peer accepts and stays silent",
		Run: func(r *R) {
			sp := r.w.Pkg("tars/transport")
			if sp == nil {
				r.AnchorMissing("package tars/transport")
				return
			}
			n := 0
			for _, fn := range r.w.Funcs(sp) {
				eachInstr(fn, func(in ssa.Instruction) {
					c := callCommon(in)
					if c == nil {
						return
					}
					switch funcID(calleeObj(c)) {
					case "crypto/tls.DialWithDialer":
						n++
						r.OKLookup(fname(fn), "TLS dial", in.Pos(), "tls.DialWithDialer (handshake inside the Dialer's timeout)")
					case "crypto/tls.(Conn).Handshake":
						n++
						bounded := false
						eachInstr(fn, func(j ssa.Instruction) {
							if cc := callCommon(j); cc != nil && instrDominates(j, in) {
								id := funcID(calleeObj(cc))
								if id == "crypto/tls.(Conn).SetDeadline" || id == "crypto/tls.(Conn).SetReadDeadline" || (cc.IsInvoke() && (cc.Method.Name() == "SetDeadline" || cc.Method.Name() == "SetReadDeadline")) {
									bounded = true
								}
							}
						})
						r.Check(bounded, fname(fn), "TLS handshake is bounded", in.Pos(), "a deadline is set before Handshake()", "Handshake() runs without a deadline: a peer that accepts the TCP connection and never answers blocks the caller (and everyone behind the connection lock) for ever")
					case "crypto/tls.Dial":
						n++
						r.Bad(fname(fn), "TLS dial", in.Pos(), "tls.Dial has no timeout")
					}
				})
			}
			if n == 0 {
				r.Undecided("tars/transport", "TLS dial", token.NoPos, "no TLS connection establishment found")
			}
		}})

	register(&Rule{ID: "C13.R9", Props: []string{"C13"}, Min: 8, Needs: NeedMain,
		Doc: "selector updates are one critical section: a selector method that writes selector state (Add/Remove/Refresh and their helpers) does not take the read lock — a membership test made under RLock and an insertion made under a later Lock are two critical sections, and two concurrent Adds of the same host both pass the test",
		Run: func(r *R) {
			for sp, nts := range selectorTypes(r.w) {
				for _, nt := range nts {
					for _, fn := range r.w.Funcs(sp) {
						if fn.Parent() != nil || fn.Signature.Recv() == nil || namedOf(fn.Signature.Recv().Type()) != nt {
							continue
						}
						recv := fn.Params[0]
						writes := false
						eachInstr(fn, func(in ssa.Instruction) {
							switch x := in.(type) {
							case *ssa.Store:
								if _, base, ok := fieldAddrOf(x.Addr); ok && base == ssa.Value(recv) {
									writes = true
								}
							case *ssa.MapUpdate:
								if strings.HasPrefix(pathOf(x.Map), recv.Name()+".") {
									writes = true
								}
							}
						})
						if !writes {
							continue
						}
						var rl ssa.Instruction
						eachInstr(fn, func(in ssa.Instruction) {
							if c := callCommon(in); c != nil {
								if id := funcID(calleeObj(c)); id == "sync.(RWMutex).RLock" {
									rl = in
								}
							}
						})
						r.Check(rl == nil, fname(fn), "update under one write lock", fn.Pos(), "no read-lock section in a method that updates the selector", "the method updates the selector but also has a section under RLock (%s): what it decided there can be stale when it takes the write lock (check-then-act across two critical sections)", posOf(r, rl))
					}
				}
			}
		}})

	register(&Rule{ID: "C14.R9", Props: []string{"C14", "C15"}, Min: 2, Needs: NeedMain,
		Doc: "ring maintenance does not depend on ring contents: in the consistent-hash selector every delete of a ring point in Remove is unconditional with respect to the ring (not guarded by a comparison of the stored owner — node identity is the hash key, the descriptors of the same node differ in other fields), and the function that rebuilds sortedKeys assigns it on every path (an early return on an empty ring leaves the removed points in sortedKeys)",
		Run: func(r *R) {
			sp := r.w.Pkg("tars/selector/consistenthash")
			if sp == nil {
				r.AnchorMissing("package consistenthash")
				return
			}
			for _, fn := range r.w.Funcs(sp) {
				eachInstr(fn, func(in ssa.Instruction) {
					c := callCommon(in)
					if c == nil || builtinName(c) != "delete" || !strings.HasSuffix(pathOf(c.Args[0]), ".hashRing") {
						return
					}
					bad := ""
					for _, f := range facts(in.Block()) {
						cm, ok := normFact(f)
						if !ok {
							continue
						}
						for _, side := range []ssa.Value{cm.X, cm.Y} {
							if strings.Contains(pathOf(side), ".hashRing[") {
								bad = pathOf(cm.X) + " " + cm.Op.String() + " " + pathOf(cm.Y)
							}
						}
						// struct comparison of endpoints lowers to field-wise comparisons of a Lookup result
						if lk, isLk := cm.X.(*ssa.Field); isLk {
							if _, isLookup := lk.X.(*ssa.Lookup); isLookup {
								bad = "the stored owner's " + pathOf(cm.X)
							}
						}
					}
					r.Check(bad == "", fname(fn), "ring point deleted unconditionally", in.Pos(), "the delete does not depend on what the ring holds", "the ring point is deleted only when %s: a node re-added with a descriptor that differs in a non-identity field keeps all its points after Remove", bad)
				})
				// rebuild of sortedKeys
				var stores []ssa.Instruction
				eachInstr(fn, func(in ssa.Instruction) {
					if st, ok := in.(*ssa.Store); ok {
						if fv, _, ok := fieldAddrOf(st.Addr); ok && fv.Name() == "sortedKeys" {
							stores = append(stores, in)
						}
					}
				})
				if len(stores) > 0 && strings.Contains(strings.ToLower(fn.Name()), "build") {
					isStore := func(in ssa.Instruction) bool {
						for _, s := range stores {
							if s == in {
								return true
							}
						}
						return false
					}
					ex := reachFromEntryAvoiding(fn, func(in ssa.Instruction) bool { return isReturn(in) && in.Block() != fn.Recover }, isStore)
					r.Check(ex == nil, fname(fn), "sortedKeys rebuilt on every path", fn.Pos(), "every return follows an assignment of sortedKeys", "the rebuild can return (%s) without assigning sortedKeys: after the last member is removed the removed points stay in sortedKeys, Select returns a zero endpoint with a nil error and the all-blocked fallback never runs", posOf(r, ex))
				}
			}
		}})

	register(&Rule{ID: "C16.R9", Props: []string{"C16"}, Min: 5, Needs: NeedTool,
		Doc: "merging a re-opened module appends each declaration list onto itself: in the tars2go parser every `X.F = append(Y.F, ...)` on the declaration lists of a module (Struct, Interface, Enum, Const, HashKey) has X and Y the same object — an append whose result is stored into another module's list (e.g. the temporary parser's) silently drops the declarations",
		Run: func(r *R) {
			pp := r.w.Pkg("parse")
			if pp == nil {
				r.AnchorMissing("tars2go package parse")
				return
			}
			lists := map[string]bool{"Struct": true, "Interface": true, "Enum": true, "Const": true, "HashKey": true}
			for _, fn := range r.w.Funcs(pp) {
				eachInstr(fn, func(in ssa.Instruction) {
					st, ok := in.(*ssa.Store)
					if !ok {
						return
					}
					fv, _, ok := fieldAddrOf(st.Addr)
					if !ok || !lists[fv.Name()] {
						return
					}
					c, ok := st.Val.(*ssa.Call)
					if !ok || builtinName(&c.Call) != "append" {
						return
					}
					dst, src := pathOf(st.Addr), pathOf(c.Call.Args[0])
					r.Check(dst == src, fname(fn), "append onto itself: "+fv.Name(), in.Pos(), "%s = append(%s, ...)", "%s = append(%s, ...): the result of the merge is stored into another object's list, the declarations are lost (the generator exits 0 and the generated package does not compile)", dst, src)
				})
			}
		}})
}

var _ = types.Typ
