package main

import (
	"go/token"
	"go/types"
	"strings"

	"golang.org/x/tools/go/ssa"
)

const reqPacketT = modPath + "/tars/protocol/res/requestf.RequestPacket"
const rspPacketT = modPath + "/tars/protocol/res/requestf.ResponsePacket"
const adapterT = modPath + "/tars.AdapterProxy"

// idGenerator discovers the request-id generator: the function in package tars whose result is
// stored into RequestPacket.IRequestId when a request is built.
func idGenerator(w *World) (*ssa.Function, *ssa.Function) {
	sp := w.Pkg("tars")
	var gen, user *ssa.Function
	for _, fn := range w.Funcs(sp) {
		eachInstr(fn, func(in ssa.Instruction) {
			st, ok := in.(*ssa.Store)
			if !ok || !isFieldOf(st.Addr, reqPacketT, "IRequestId") {
				return
			}
			if c, ok := st.Val.(*ssa.Call); ok {
				if sc := c.Call.StaticCallee(); sc != nil && sc.Pkg == sp {
					gen, user = sc, fn
				}
			}
		})
	}
	return gen, user
}

// exchangeFunc discovers the client exchange: the function that stores into AdapterProxy.resp.
func exchangeFunc(w *World) *ssa.Function {
	sp := w.Pkg("tars")
	var out *ssa.Function
	for _, fn := range w.Funcs(sp) {
		if fn.Parent() != nil {
			continue
		}
		eachInstr(fn, func(in ssa.Instruction) {
			if c := callCommon(in); c != nil && funcID(calleeObj(c)) == "sync.(Map).Store" && isFieldOf(c.Args[0], adapterT, "resp") {
				out = fn
			}
		})
	}
	return out
}

// recvFunc: the method of *AdapterProxy implementing transport.ClientProtocol.Recv.
func recvFunc(w *World) *ssa.Function { return w.Func("tars", "AdapterProxy.Recv") }

func atomicOp(c *ssa.CallCommon) string {
	o := calleeObj(c)
	if o == nil || o.Pkg() == nil || o.Pkg().Path() != "sync/atomic" {
		return ""
	}
	return o.Name()
}

func init() {
	register(&Rule{ID: "C08.R1", Props: []string{"C08"}, Min: 1, Needs: NeedMain,
		Doc: "request ids are never 0: every value returned by the id generator is dominated by the true edge of v != 0 (or v > 0)",
		Run: func(r *R) {
			gen, _ := idGenerator(r.w)
			if gen == nil {
				r.AnchorMissing("request id generator (function whose result is stored into RequestPacket.IRequestId in package tars)")
				return
			}
			for _, b := range gen.Blocks {
				ret, ok := b.Instrs[len(b.Instrs)-1].(*ssa.Return)
				if !ok {
					continue
				}
				v := ret.Results[0]
				nz := false
				for _, f := range facts(b) {
					if c, ok := normFact(f); ok && c.X == v {
						if k, ok := constInt(c.Y); ok {
							if (c.Op == token.NEQ && k == 0) || (c.Op == token.GTR && k >= 0) || (c.Op == token.GEQ && k >= 1) {
								nz = true
							}
						}
					}
				}
				r.Check(nz, fname(gen), "returned id != 0", ret.Pos(), "the returned id is tested non-zero", "an id is returned without a dominating test against 0 (0 is reserved for server push: the reply to such a call is never delivered)")
			}
		}})

	register(&Rule{ID: "C08.R2", Props: []string{"C08", "C09"}, Min: 3, Needs: NeedMain,
		Doc: "ids come from one process-wide atomic counter: the generator returns the result of atomic.AddInt32(&counter, 1) on a package-level variable (the pending table is shared by all proxies of an object), and every access to that variable in the program is an atomic Add/CompareAndSwap/Load (no plain access, no blind Store that could reset it under a concurrent Add)",
		Run: func(r *R) {
			gen, _ := idGenerator(r.w)
			if gen == nil {
				r.AnchorMissing("request id generator")
				return
			}
			var counter *ssa.Global
			okRet := true
			for _, b := range gen.Blocks {
				ret, ok := b.Instrs[len(b.Instrs)-1].(*ssa.Return)
				if !ok {
					continue
				}
				// the returned value, looking through a loop variable: every value it can take at the return
				// is the result of the atomic increment (a constant initial value must be excluded by the
				// loop's exit test)
				var c *ssa.Call
				isCall := true
				rv := ret.Results[0]
				rset := setAt(gen, rv, ret)
				for _, leaf := range phiLeaves(rv) {
					if k, isK := constInt(leaf); isK && rv != leaf {
						if rng(k, k).subsetOf(rset) {
							isCall = false
						}
						continue
					}
					lc, ok := leaf.(*ssa.Call)
					if !ok {
						isCall = false
						continue
					}
					// several increments (one before a retry loop, one inside it) are fine when they are
					// the same operation on the same counter
					if c != nil && c != lc {
						same := atomicOp(&lc.Call) == atomicOp(&c.Call) && len(lc.Call.Args) == 2 && len(c.Call.Args) == 2 && lc.Call.Args[0] == c.Call.Args[0]
						if same {
							da, oka := constInt(lc.Call.Args[1])
							db, okb := constInt(c.Call.Args[1])
							same = oka && okb && da == db
						}
						if !same {
							isCall = false
						}
						continue
					}
					c = lc
				}
				if c == nil {
					isCall = false
				}
				if !isCall || atomicOp(&c.Call) != "AddInt32" {
					okRet = false
					r.Bad(fname(gen), "id = atomic.AddInt32(&counter, 1)", ret.Pos(), "the returned id is not the result of an atomic increment (two concurrent callers can obtain the same id)")
					continue
				}
				d, _ := constInt(c.Call.Args[1])
				g, isG := c.Call.Args[0].(*ssa.Global)
				if !isG {
					okRet = false
					r.Bad(fname(gen), "process-wide counter", ret.Pos(), "the id counter is %s, not a package-level variable: ids are unique only per object, but the pending-reply table (AdapterProxy.resp) is shared by every proxy using the adapter", pathOf(c.Call.Args[0]))
					continue
				}
				if d != 1 {
					okRet = false
					r.Bad(fname(gen), "increment by 1", ret.Pos(), "the counter is advanced by %d", d)
					continue
				}
				counter = g
			}
			if okRet && counter != nil {
				r.OK(fname(gen), "id = atomic.AddInt32(&counter, 1)", gen.Pos(), "ids are results of atomic.AddInt32(&%s, 1) on a package-level counter", counter.Name())
			}
			if counter == nil {
				return
			}
			n := 0
			for _, sp := range r.w.SSA {
				for _, fn := range r.w.Funcs(sp) {
					eachInstr(fn, func(in ssa.Instruction) {
						for _, op := range in.Operands(nil) {
							if *op != ssa.Value(counter) {
								continue
							}
							n++
							c := callCommon(in)
							name := ""
							if c != nil {
								name = atomicOp(c)
							}
							switch name {
							case "AddInt32", "CompareAndSwapInt32", "LoadInt32":
								r.OKLookup(fname(fn), "access "+name, in.Pos(), "atomic %s", name)
							case "":
								r.Bad(fname(fn), "plain access", in.Pos(), "the id counter is accessed without sync/atomic (data race: duplicate ids under concurrent callers)")
							default:
								r.Bad(fname(fn), "access "+name, in.Pos(), "atomic.%s on the id counter can overwrite increments made by concurrent callers (ids handed out twice)", name)
							}
						}
					})
				}
			}
		}})

	register(&Rule{ID: "C08.R3", Props: []string{"C08"}, Min: 1, Needs: NeedMain,
		Doc: "only generated ids go on the wire: every store to RequestPacket.IRequestId in package tars is the generator's result, a copy of a peer packet's id, or the constant 0 of a push/close message",
		Run: func(r *R) {
			gen, _ := idGenerator(r.w)
			if gen == nil {
				r.AnchorMissing("request id generator")
				return
			}
			for _, rel := range []string{"tars", "tars/protocol", "tars/protocol/push"} {
				sp := r.w.Pkg(rel)
				if sp == nil {
					continue
				}
				for _, fn := range r.w.Funcs(sp) {
					eachInstr(fn, func(in ssa.Instruction) {
						st, ok := in.(*ssa.Store)
						if !ok || !isFieldOf(st.Addr, reqPacketT, "IRequestId") {
							return
						}
						v := st.Val
						okk := false
						why := ""
						if c, isC := v.(*ssa.Call); isC && resolveCallee(&c.Call) == gen {
							okk, why = true, "fresh id from the generator"
						}
						if _, name, _, isF := loadedField(v); isF && name == "IRequestId" {
							okk, why = true, "copy of "+pathOf(v)
						}
						if k, isK := constInt(v); isK && k == 0 {
							okk, why = true, "constant 0"
						}
						r.Check(okk, fname(fn), "IRequestId <- "+pathOf(v), st.Pos(), "%s", "a request id is set from %s, which is neither the generator nor a peer packet's id", map[bool]string{true: why, false: pathOf(v)}[okk])
					})
				}
			}
		}})

	register(&Rule{ID: "C08.R4", Props: []string{"C08"}, Min: 3, Needs: NeedMain,
		Doc: "pending-table key types agree: the static types of the keys at every Store/Load/Delete/LoadAndDelete on AdapterProxy.resp are identical (sync.Map keys are interface{}, a key of another integer type compiles and never matches)",
		Run: func(r *R) {
			sp := r.w.Pkg("tars")
			var first types.Type
			for _, fn := range r.w.Funcs(sp) {
				eachInstr(fn, func(in ssa.Instruction) {
					c := callCommon(in)
					if c == nil {
						return
					}
					id := funcID(calleeObj(c))
					if !strings.HasPrefix(id, "sync.(Map).") || !isFieldOf(c.Args[0], adapterT, "resp") {
						return
					}
					op := strings.TrimPrefix(id, "sync.(Map).")
					if op == "Range" || op == "Clear" {
						return
					}
					key := c.Args[1]
					var kt types.Type = key.Type()
					if mi, ok := key.(*ssa.MakeInterface); ok {
						kt = mi.X.Type()
					}
					if first == nil {
						first = kt
					}
					r.Check(types.Identical(kt, first) && basicKind(kt) == types.Int32, fname(fn), "resp."+op+" key type", in.Pos(), "key type %s", "key type %s differs from the id type int32 used elsewhere: the lookup never matches", kt)
				})
			}
		}})

	register(&Rule{ID: "C08.R5", Props: []string{"C08", "C09"}, Min: 5, Needs: NeedMain,
		Doc: "register before send, own fresh channel, same key: in the exchange function resp.Store(k, ch) dominates adp.Send; ch is an unbuffered channel made in this very invocation; the select receives from that ch; the deferred resp.Delete uses the same key expression",
		Run: func(r *R) {
			fn := exchangeFunc(r.w)
			if fn == nil {
				r.AnchorMissing("client exchange function (stores into AdapterProxy.resp)")
				return
			}
			where := fname(fn)
			var store, send *ssa.Call
			eachInstr(fn, func(in ssa.Instruction) {
				c, ok := in.(*ssa.Call)
				if !ok {
					return
				}
				if funcID(calleeObj(&c.Call)) == "sync.(Map).Store" && isFieldOf(c.Call.Args[0], adapterT, "resp") {
					store = c
				}
				if sc := c.Call.StaticCallee(); sc != nil && enqueuesRequest(sc, 4) {
					send = c
				}
			})
			if store == nil || send == nil {
				r.Undecided(where, "store/send", fn.Pos(), "resp.Store or adp.Send not found")
				return
			}
			r.Check(instrDominates(store, send), where, "resp.Store dominates adp.Send", send.Pos(), "the reply channel is registered before the request is sent", "the request is sent before its reply channel is registered: a fast reply finds no waiter and is dropped (the caller times out)")
			key := pathOf(resolveLocal(store.Call.Args[1]))
			r.Check(strings.HasSuffix(key, ".IRequestId"), where, "table key is the request id", store.Pos(), "key = %s", "the pending table is keyed by %s, not by the request id", key)
			ch := strip(store.Call.Args[2], false)
			mk, isMk := ch.(*ssa.MakeChan)
			fresh := isMk && mk.Parent() == fn
			unbuf := false
			if fresh {
				if k, ok := constInt(mk.Size); ok && k == 0 {
					unbuf = true
				}
			}
			r.Check(fresh && unbuf, where, "reply channel is fresh and unbuffered", store.Pos(), "ch = make(chan *ResponsePacket) in this invocation", "the registered channel is %s, not an unbuffered channel created by this invocation: a channel that outlives the call can deliver another call's reply to this one", pathOf(store.Call.Args[2]))
			// select receives from ch
			recvOK := false
			eachInstr(fn, func(in ssa.Instruction) {
				if s, ok := in.(*ssa.Select); ok {
					for _, st := range s.States {
						if st.Dir == types.RecvOnly && strip(st.Chan, false) == ch {
							recvOK = true
						}
					}
				}
				if u, ok := in.(*ssa.UnOp); ok && u.Op == token.ARROW && strip(u.X, false) == ch {
					recvOK = true
				}
			})
			r.Check(recvOK, where, "waits on the registered channel", store.Pos(), "the select receives from the channel that was registered", "the function never receives from the channel it registered")
			// deferred delete with same key
			delOK, delKey := false, ""
			eachInstrDeep(fn, func(g *ssa.Function, in ssa.Instruction) {
				c := callCommon(in)
				if c == nil || funcID(calleeObj(c)) != "sync.(Map).Delete" || !isFieldOf(c.Args[0], adapterT, "resp") {
					return
				}
				delKey = pathOf(resolveLocal(c.Args[1]))
				if delKey == key {
					delOK = true
				}
			})
			r.Check(delOK, where, "resp.Delete uses the same key", store.Pos(), "Delete(%s)", "the entry is stored under %s but deleted under %q: the entry leaks or another call's entry is removed", key, delKey)
		}})

	register(&Rule{ID: "C08.R6", Props: []string{"C08", "C09"}, Min: 4, Needs: NeedMain,
		Doc: "delivery only through the looked-up channel: in Recv the only channel send sends the decoded packet p on the channel obtained from resp.Load(p.IRequestId), on the p.IRequestId != 0 branch, inside a select with a timer case; id 0 goes to push handling only; no other function sends on a reply channel",
		Run: func(r *R) {
			fn := recvFunc(r.w)
			if fn == nil {
				r.AnchorMissing("tars.(*AdapterProxy).Recv")
				return
			}
			where := fname(fn)
			var sends []*ssa.Select
			var plainSends []*ssa.Send
			eachInstr(fn, func(in ssa.Instruction) {
				if s, ok := in.(*ssa.Select); ok {
					for _, st := range s.States {
						if st.Dir == types.SendOnly {
							sends = append(sends, s)
						}
					}
				}
				if s, ok := in.(*ssa.Send); ok {
					plainSends = append(plainSends, s)
				}
			})
			if len(plainSends) > 0 {
				r.Bad(where, "unbounded send", plainSends[0].Pos(), "a reply is sent with a blocking send: a caller that already left wedges the receive path forever")
			}
			if len(sends) != 1 {
				r.Bad(where, "reply delivery", fn.Pos(), "%d select-sends in Recv (expected exactly one delivery)", len(sends))
				return
			}
			sel := sends[0]
			var st *ssa.SelectState
			timer := false
			for _, s := range sel.States {
				if s.Dir == types.SendOnly {
					st = s
				} else if c, ok := s.Chan.(*ssa.Call); ok {
					if id := funcID(calleeObj(&c.Call)); strings.HasSuffix(id, "rtimer.After") || id == "time.After" {
						timer = true
					}
				}
			}
			// channel provenance: typeassert(extract#0(resp.Load(key)))
			chPath := pathOf(st.Chan)
			// the channel is (a type assertion of) the value resp.Load returned — through comma-ok
			// assertions, type switches, result temporaries and phis whose other edges are nil
			var load *ssa.Call
			var trace func(v ssa.Value, d int) *ssa.Call
			trace = func(v ssa.Value, d int) *ssa.Call {
				if d > 10 || v == nil {
					return nil
				}
				switch x := v.(type) {
				case *ssa.TypeAssert:
					return trace(x.X, d+1)
				case *ssa.ChangeType:
					return trace(x.X, d+1)
				case *ssa.MakeInterface:
					return trace(x.X, d+1)
				case *ssa.Extract:
					if c, ok := x.Tuple.(*ssa.Call); ok {
						if x.Index == 0 && funcID(calleeObj(&c.Call)) == "sync.(Map).Load" && isFieldOf(c.Call.Args[0], adapterT, "resp") {
							return c
						}
						return nil
					}
					if ta, ok := x.Tuple.(*ssa.TypeAssert); ok && x.Index == 0 {
						return trace(ta.X, d+1)
					}
				case *ssa.Phi:
					var found *ssa.Call
					for _, e := range x.Edges {
						if isNilConst(e) || e == ssa.Value(x) {
							continue
						}
						c := trace(e, d+1)
						if c == nil || (found != nil && found != c) {
							return nil
						}
						found = c
					}
					return found
				case *ssa.UnOp:
					if x.Op == token.MUL {
						return trace(resolveLocal(x), d+1)
					}
				}
				return nil
			}
			if rl := resolveLocal(st.Chan); rl != st.Chan {
				load = trace(rl, 0)
			}
			if load == nil {
				load = trace(st.Chan, 0)
			}
			if load == nil {
				r.Bad(where, "channel comes from resp.Load", sel.Pos(), "the reply is sent on %s, which is not the channel looked up in the pending table", chPath)
				return
			}
			pkt := st.Send
			keyPath := pathOf(load.Call.Args[1])
			r.Check(keyPath == pathOf(pkt)+".IRequestId", where, "lookup key is the packet's own id", load.Pos(), "Load(%s) and send of %s", "the channel is looked up under %s but the packet sent is %s: a reply can reach another caller", keyPath, pathOf(pkt))
			// non-zero branch
			nz := false
			for _, f := range facts(load.Block()) {
				if c, ok := normFact(f); ok && c.Op == token.NEQ {
					if k, isK := constInt(c.Y); isK && k == 0 && pathOf(c.X) == pathOf(pkt)+".IRequestId" {
						nz = true
					}
				}
			}
			r.Check(nz, where, "lookup only for id != 0", load.Pos(), "the lookup is on the IRequestId != 0 branch (id 0 is push)", "the pending table is consulted for id 0 as well")
			r.Check(timer && sel.Blocking, where, "delivery is bounded by a timer", sel.Pos(), "select{ch<-p; <-timer}", "the delivery select has no timer case: a departed caller blocks the receiver goroutine forever")
			// who-may-send on reply channels elsewhere in package tars
			sp := r.w.Pkg("tars")
			others := 0
			for _, g := range r.w.Funcs(sp) {
				if g == fn {
					continue
				}
				eachInstr(g, func(in ssa.Instruction) {
					var cht types.Type
					switch s := in.(type) {
					case *ssa.Send:
						cht = s.Chan.Type()
					case *ssa.Select:
						for _, x := range s.States {
							if x.Dir == types.SendOnly {
								cht = x.Chan.Type()
							}
						}
					}
					if cht != nil {
						if ch, ok := cht.Underlying().(*types.Chan); ok && typeID(ch.Elem()) == rspPacketT {
							others++
							r.Bad(fname(g), "send on a reply channel", in.Pos(), "a *ResponsePacket is sent on a channel outside Recv: replies must only be delivered through the id lookup")
						}
					}
				})
			}
			if others == 0 {
				r.OKLookup("tars", "who-may-send on chan *ResponsePacket", fn.Pos(), "only Recv sends on reply channels")
			}
		}})
}

// enqueuesRequest: fn (or a static callee within tars / tars/transport, up to depth d) sends on
// TarsClient.sendQueue, i.e. hands a request to the connection's sender.
func enqueuesRequest(fn *ssa.Function, d int) bool {
	if fn == nil || fn.Blocks == nil || d < 0 {
		return false
	}
	if fn.Pkg == nil || !(strings.HasSuffix(fn.Pkg.Pkg.Path(), "/tars") || strings.HasSuffix(fn.Pkg.Pkg.Path(), "/tars/transport")) {
		return false
	}
	hit := false
	eachInstr(fn, func(in ssa.Instruction) {
		if hit {
			return
		}
		switch x := in.(type) {
		case *ssa.Send:
			if strings.HasSuffix(pathOf(x.Chan), ".sendQueue") {
				hit = true
			}
		case *ssa.Select:
			for _, st := range x.States {
				if st.Dir == types.SendOnly && strings.HasSuffix(pathOf(st.Chan), ".sendQueue") {
					hit = true
				}
			}
		case *ssa.Call:
			if sc := x.Call.StaticCallee(); sc != nil && sc != fn && enqueuesRequest(sc, d-1) {
				hit = true
			}
		}
	})
	return hit
}

// resolveLocal looks through a local variable that is assigned exactly once (also when it is captured
// by a closure that only reads it): `k := msg.Req.IRequestId; m.Store(k, ch)` names the same value as
// `m.Store(msg.Req.IRequestId, ch)`. Conversions to interface are looked through as well.
func resolveLocal(v ssa.Value) ssa.Value {
	for i := 0; i < 8; i++ {
		switch x := v.(type) {
		case *ssa.MakeInterface:
			v = x.X
			continue
		case *ssa.ChangeInterface:
			v = x.X
			continue
		case *ssa.UnOp:
			if x.Op != token.MUL {
				return v
			}
			switch a := x.X.(type) {
			case *ssa.Alloc:
				if sv, ok := singleStore(a); ok && sv != nil {
					v = sv
					continue
				}
			case *ssa.FreeVar:
				fn := a.Parent()
				if fn.Parent() == nil {
					return v
				}
				idx := -1
				for k, fv := range fn.FreeVars {
					if fv == a {
						idx = k
					}
				}
				var bound ssa.Value
				eachInstr(fn.Parent(), func(in ssa.Instruction) {
					if mc, ok := in.(*ssa.MakeClosure); ok && mc.Fn == fn && idx >= 0 && idx < len(mc.Bindings) {
						bound = mc.Bindings[idx]
					}
				})
				if al, ok := bound.(*ssa.Alloc); ok {
					if sv, ok := singleStore(al); ok && sv != nil {
						v = sv
						continue
					}
				}
			}
		}
		return v
	}
	return v
}
