package main

import (
	"encoding/json"
	"flag"
	"fmt"
	"os"
	"sort"
	"strconv"
	"strings"
)

func main() {
	if len(os.Args) < 2 {
		fmt.Fprintln(os.Stderr, "usage: tarsverif check|replay|list ...")
		os.Exit(2)
	}
	switch os.Args[1] {
	case "check":
		fs := flag.NewFlagSet("check", flag.ExitOnError)
		prop := fs.String("prop", "", "property id")
		tier := fs.String("tier", "quick", "quick|thorough")
		repo := fs.String("repo", "/repo", "repository root")
		only := fs.String("rule", "", "run only this rule")
		verbose := fs.Bool("v", false, "print every obligation")
		noev := fs.Bool("no-evidence", false, "do not write the evidence file")
		_ = fs.Parse(os.Args[2:])
		os.Exit(doCheck(*prop, *tier, *repo, *only, *verbose, !*noev))
	case "replay":
		fs := flag.NewFlagSet("replay", flag.ExitOnError)
		file := fs.String("file", "", "replay file")
		repo := fs.String("repo", "/repo", "repository root")
		_ = fs.Parse(os.Args[2:])
		b, err := os.ReadFile(*file)
		if err != nil {
			fmt.Fprintln(os.Stderr, err)
			os.Exit(2)
		}
		var m struct{ Property, Rule, Key string }
		if err := json.Unmarshal(b, &m); err != nil {
			fmt.Fprintln(os.Stderr, err)
			os.Exit(2)
		}
		fmt.Printf("replaying rule %s (obligation %s)\n", m.Rule, m.Key)
		os.Exit(doCheck(m.Property, "thorough", *repo, m.Rule, true, false))
	case "list-json":
		sort.SliceStable(allRules, func(i, j int) bool { return allRules[i].ID < allRules[j].ID })
		type jr struct {
			ID       string   `json:"id"`
			Props    []string `json:"props"`
			Min      int      `json:"min"`
			Thorough bool     `json:"thorough"`
			Doc      string   `json:"doc"`
		}
		var out []jr
		for _, r := range allRules {
			out = append(out, jr{r.ID, r.Props, r.Min, r.Thorough, r.Doc})
		}
		b, _ := json.MarshalIndent(out, "", " ")
		fmt.Println(string(b))
	case "list-md":
		sort.SliceStable(allRules, func(i, j int) bool { return allRules[i].ID < allRules[j].ID })
		fmt.Println("| rule | serves | min. instances | what is decided |")
		fmt.Println("|---|---|---|---|")
		for _, r := range allRules {
			fmt.Printf("| %s | %s | %d | %s |\n", r.ID, strings.Join(r.Props, " "), r.Min, strings.ReplaceAll(r.Doc, "|", "\\|"))
		}
	case "baseline":
		// prints the function keys of the tree (recorded as baseline_funcs.txt for the pinned tree)
		repo := "/repo"
		if len(os.Args) > 2 {
			repo = os.Args[2]
		}
		lits, err := listFuncLits(repo, "tars")
		if err != nil {
			fmt.Fprintln(os.Stderr, err)
			os.Exit(2)
		}
		var keys []string
		for k := range lits {
			keys = append(keys, k)
		}
		sort.Strings(keys)
		if len(os.Args) > 3 && os.Args[3] == "names" {
			db, err := scanNames(repo, "tars", nil)
			if err != nil {
				fmt.Fprintln(os.Stderr, err)
				os.Exit(2)
			}
			b, _ := json.Marshal(db)
			fmt.Println(strings.ReplaceAll(string(b), "},{", "},\n{"))
			return
		}
		fmt.Println("# functions declared in the pinned tree: dir|receiver|name <tab> number of function literals in the body; anything else is new, see inline.go")
		for _, k := range keys {
			fmt.Printf("%s\t%d\n", k, lits[k])
		}
	case "names-plan":
		// debugging aid: what the name normalisation would do on a tree
		pl := computeRenamePlan(os.Args[2])
		if pl == nil {
			fmt.Println("nothing to normalise")
			return
		}
		for _, n := range pl.notes {
			fmt.Println(n)
		}
		ov, notes := buildNameOverlay(os.Args[2], os.Args[2], pl, "./tars/...")
		for _, n := range notes {
			fmt.Println("NOTE:", n)
		}
		for f := range ov {
			fmt.Println("rewritten:", f)
			if len(os.Args) > 3 && os.Args[3] == "write" {
				_ = os.WriteFile(f, ov[f], 0644) // scratch copies only: lets `go build` show what does not type-check
			} else if len(os.Args) > 3 {
				fmt.Println(string(ov[f]))
			}
		}
	case "list":
		sort.SliceStable(allRules, func(i, j int) bool { return allRules[i].ID < allRules[j].ID })
		for _, r := range allRules {
			t := "core"
			if r.Thorough {
				t = "thorough"
			}
			fmt.Printf("%-9s %-8s min=%-3d props=%v  %s\n", r.ID, t, r.Min, r.Props, r.Doc)
		}
	default:
		fmt.Fprintln(os.Stderr, "unknown command")
		os.Exit(2)
	}
}

func doCheck(prop, tier, repo, only string, verbose, evidence bool) int {
	root := verifRoot()
	seed, _ := strconv.Atoi(os.Getenv("VERIF_SEED"))
	res, err := runProperty(prop, tier, repo, only)
	if err != nil {
		// a check that cannot analyse the tree fails; it never passes silently
		fmt.Printf("cannot analyse: %v\n", err)
		fmt.Printf("VIOLATION property=%s replay=%s\n", prop, "none(cannot-analyse)")
		return 1
	}
	if evidence && only == "" {
		if err := writeEvidence(root, res, seed); err != nil {
			fmt.Printf("cannot write evidence: %v\n", err)
			return 1
		}
	}
	return report(res, root, verbose)
}
