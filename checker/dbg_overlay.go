package main

import (
	"fmt"
	"os"
)

func init() {
	if len(os.Args) > 2 && os.Args[1] == "overlay" {
		repo := os.Args[2]
		nk := newFuncKeys(repo)
		fmt.Println("new keys:", nk)
		ov, notes := buildOverlay(repo, repo, nk, "./tars/...")
		for _, n := range notes {
			fmt.Println("NOTE:", n)
		}
		for f, b := range ov {
			fmt.Println("=== ", f, len(b))
			if len(os.Args) > 3 {
				os.WriteFile(os.Args[3], b, 0644)
			}
		}
		os.Exit(0)
	}
}
