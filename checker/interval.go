package main

import (
	"fmt"
	"go/token"
	"go/types"
	"math"
	"sort"
	"strings"

	"golang.org/x/tools/go/ssa"
)

// A4: finite unions of closed int64 intervals. math.MinInt64/MaxInt64 stand for -inf/+inf.

type ival struct{ lo, hi int64 }
type iset []ival // sorted, disjoint, non-adjacent

const negInf, posInf = math.MinInt64, math.MaxInt64

func full() iset { return iset{{negInf, posInf}} }
func rng(lo, hi int64) iset {
	if lo > hi {
		return nil
	}
	return iset{{lo, hi}}
}
func (s iset) empty() bool  { return len(s) == 0 }
func (s iset) isFull() bool { return len(s) == 1 && s[0].lo == negInf && s[0].hi == posInf }

func (s iset) norm() iset {
	if len(s) == 0 {
		return nil
	}
	t := append(iset(nil), s...)
	sort.Slice(t, func(i, j int) bool { return t[i].lo < t[j].lo })
	out := iset{t[0]}
	for _, v := range t[1:] {
		last := &out[len(out)-1]
		if last.hi == posInf || v.lo <= last.hi+1 {
			if v.hi > last.hi {
				last.hi = v.hi
			}
		} else {
			out = append(out, v)
		}
	}
	return out
}

func (s iset) union(t iset) iset { return append(append(iset(nil), s...), t...).norm() }

func (s iset) intersect(t iset) iset {
	var out iset
	for _, a := range s {
		for _, b := range t {
			lo, hi := a.lo, a.hi
			if b.lo > lo {
				lo = b.lo
			}
			if b.hi < hi {
				hi = b.hi
			}
			if lo <= hi {
				out = append(out, ival{lo, hi})
			}
		}
	}
	return out.norm()
}

func (s iset) equal(t iset) bool {
	s, t = s.norm(), t.norm()
	if len(s) != len(t) {
		return false
	}
	for i := range s {
		if s[i] != t[i] {
			return false
		}
	}
	return true
}

func (s iset) subsetOf(t iset) bool { return s.intersect(t).equal(s) }

func (s iset) complementIn(u iset) iset {
	// u \ s
	out := u
	for _, a := range s.norm() {
		var nxt iset
		for _, b := range out {
			if a.hi < b.lo || a.lo > b.hi {
				nxt = append(nxt, b)
				continue
			}
			if a.lo > b.lo {
				nxt = append(nxt, ival{b.lo, a.lo - 1})
			}
			if a.hi < b.hi {
				nxt = append(nxt, ival{a.hi + 1, b.hi})
			}
		}
		out = nxt
	}
	return out.norm()
}

func (s iset) String() string {
	if len(s) == 0 {
		return "∅"
	}
	var parts []string
	for _, v := range s {
		lo, hi := fmt.Sprint(v.lo), fmt.Sprint(v.hi)
		if v.lo == negInf {
			lo = "-inf"
		}
		if v.hi == posInf {
			hi = "+inf"
		}
		parts = append(parts, "["+lo+","+hi+"]")
	}
	return strings.Join(parts, "∪")
}

// typeRange gives the value range of an integer type.
func typeRange(t types.Type) iset {
	b, ok := t.Underlying().(*types.Basic)
	if !ok {
		return full()
	}
	switch b.Kind() {
	case types.Int8:
		return rng(math.MinInt8, math.MaxInt8)
	case types.Int16:
		return rng(math.MinInt16, math.MaxInt16)
	case types.Int32:
		return rng(math.MinInt32, math.MaxInt32)
	case types.Uint8:
		return rng(0, math.MaxUint8)
	case types.Uint16:
		return rng(0, math.MaxUint16)
	case types.Uint32:
		return rng(0, math.MaxUint32)
	case types.Uint64, types.Uint, types.Uintptr:
		return rng(0, posInf)
	}
	return full()
}

func cmpSet(op token.Token, c int64) iset {
	switch op {
	case token.EQL:
		return rng(c, c)
	case token.NEQ:
		return rng(c, c).complementIn(full())
	case token.LSS:
		if c == negInf {
			return nil
		}
		return rng(negInf, c-1)
	case token.LEQ:
		return rng(negInf, c)
	case token.GTR:
		if c == posInf {
			return nil
		}
		return rng(c+1, posInf)
	case token.GEQ:
		return rng(c, posInf)
	}
	return full()
}

// sameTracked: does expression e denote the tracked value v (modulo value-preserving widening
// conversions and loads of single-store allocs)?
type tracker func(e ssa.Value) bool

func trackValue(v ssa.Value) tracker {
	base := strip(v, false)
	return func(e ssa.Value) bool {
		for i := 0; i < 8; i++ {
			e = strip(e, false)
			if e == base || e == v {
				return true
			}
			if c, ok := e.(*ssa.Convert); ok && wideningConv(c) {
				e = c.X
				continue
			}
			return false
		}
		return false
	}
}

// wideningConv: integer conversion where every source value is representable in the target.
func wideningConv(c *ssa.Convert) bool {
	from, ok1 := c.X.Type().Underlying().(*types.Basic)
	to, ok2 := c.Type().Underlying().(*types.Basic)
	if !ok1 || !ok2 || from.Info()&types.IsInteger == 0 || to.Info()&types.IsInteger == 0 {
		return false
	}
	switch from.Kind() {
	case types.Uint64, types.Uint, types.Uintptr:
		if to.Info()&types.IsUnsigned == 0 {
			return false
		}
	}
	return from.Kind() == to.Kind() || typeRange(c.X.Type()).subsetOf(typeRange(c.Type()))
}

// constraintOnEdge returns the set the tracked value is confined to on the edge b -> succ index si.
func constraintOnEdge(b *ssa.BasicBlock, si int, is tracker) iset {
	if len(b.Instrs) == 0 {
		return full()
	}
	iff, ok := b.Instrs[len(b.Instrs)-1].(*ssa.If)
	if !ok {
		return full()
	}
	if b.Succs[0] == b.Succs[1] {
		return full()
	}
	return condConstraint(iff.Cond, si == 0, is)
}

// condConstraint: what `cond == truth` says about the tracked value.
func condConstraint(cond ssa.Value, truth bool, is tracker) iset {
	c, ok := normFact(EdgeFact{Cond: cond, Taken: truth})
	if !ok {
		return full()
	}
	if k, ok := constInt(c.Y); ok {
		if core, off := affineOf(c.X); is(core) && !overflows(k, off) {
			return cmpSet(c.Op, k-off)
		}
	}
	if k, ok := constInt(c.X); ok {
		if core, off := affineOf(c.Y); is(core) && !overflows(k, off) {
			return cmpSet(swapOp(c.Op), k-off)
		}
	}
	return full()
}

// edgeOut: the values the tracked variable can have on the edge b -> b.Succs[si]. When the branch of
// b tests a boolean phi defined in b itself (`a || b` evaluated as a value, as in `switch { case a ||
// b: }`), the outcome tells which predecessors control can have come from and what the comparison
// carried by the phi says, so the set is assembled per predecessor instead of from the merged in[b].
func edgeOut(in map[*ssa.BasicBlock]iset, b *ssa.BasicBlock, si int, is tracker) iset {
	plain := in[b].intersect(constraintOnEdge(b, si, is))
	if len(b.Instrs) == 0 || len(b.Succs) != 2 || b.Succs[0] == b.Succs[1] {
		return plain
	}
	iff, ok := b.Instrs[len(b.Instrs)-1].(*ssa.If)
	if !ok {
		return plain
	}
	c, neg := iff.Cond, false
	for {
		if u, ok := c.(*ssa.UnOp); ok && u.Op == token.NOT {
			c, neg = u.X, !neg
			continue
		}
		break
	}
	phi, ok := c.(*ssa.Phi)
	if !ok || phi.Block() != b || basicKind(phi.Type()) != types.Bool {
		return plain
	}
	want := (si == 0) != neg
	var u iset
	for i, e := range phi.Edges {
		pred := b.Preds[i]
		ps, seen := in[pred]
		if !seen {
			continue // not reached (yet)
		}
		for k, succ := range pred.Succs {
			if succ == b {
				ps = ps.intersect(constraintOnEdge(pred, k, is))
			}
		}
		if cb, isC := constBool(e); isC {
			if cb != want {
				continue
			}
		} else {
			ps = ps.intersect(condConstraint(e, want, is))
		}
		u = u.union(ps)
	}
	return u.intersect(in[b])
}

// affineOf strips `x + c` / `x - c` (constant c): e = core + off. (Used so that a condition written
// on `n - 4` constrains n; wrap-around is ignored, which is sound for the int-typed lengths it is
// applied to.)
func affineOf(e ssa.Value) (ssa.Value, int64) {
	var off int64
	for i := 0; i < 4; i++ {
		b, ok := e.(*ssa.BinOp)
		if !ok {
			break
		}
		if b.Op == token.ADD {
			if k, ok := constInt(b.Y); ok {
				off += k
				e = b.X
				continue
			}
			if k, ok := constInt(b.X); ok {
				off += k
				e = b.Y
				continue
			}
		}
		if b.Op == token.SUB {
			if k, ok := constInt(b.Y); ok {
				off -= k
				e = b.X
				continue
			}
		}
		break
	}
	return e, off
}

func overflows(k, off int64) bool {
	r := k - off
	return (off > 0 && r > k) || (off < 0 && r < k)
}

// valueSets computes, for every block of fn, the set of values the tracked value may have when
// control is at the block's entry (⊆ its type range). Unreachable blocks get ∅.
func valueSets(fn *ssa.Function, v ssa.Value, is tracker) map[*ssa.BasicBlock]iset {
	single := is == nil
	if is == nil {
		is = trackValue(v)
	}
	tr := typeRange(v.Type())
	in := map[*ssa.BasicBlock]iset{}
	if len(fn.Blocks) == 0 {
		return in
	}
	// a value computed inside the function says nothing before its definition: control that has not
	// passed the defining block carries no values of it (matters for loops: the entry edge of a loop
	// whose body defines v must not contribute "anything" to the sets after the loop)
	var defBlock *ssa.BasicBlock
	if single {
		if ins, ok := strip(v, false).(ssa.Instruction); ok && ins.Block() != nil && ins.Block().Parent() == fn {
			defBlock = ins.Block()
		}
	}
	if defBlock == nil || defBlock == fn.Blocks[0] {
		in[fn.Blocks[0]] = tr
	} else {
		in[fn.Blocks[0]] = iset{}
	}
	for changed := true; changed; {
		changed = false
		for _, b := range fn.Blocks {
			if _, reached := in[b]; !reached {
				continue
			}
			if b == defBlock && !in[b].equal(tr) {
				in[b] = tr
				changed = true
			}
			for si, s := range b.Succs {
				out := edgeOut(in, b, si, is)
				old, had := in[s]
				nw := old.union(out)
				if !had || !nw.equal(old) {
					in[s] = nw
					changed = true
				}
			}
		}
	}
	return in
}

// setAt: value set of v at instruction i.
func setAt(fn *ssa.Function, v ssa.Value, i ssa.Instruction) iset {
	return valueSets(fn, v, nil)[i.Block()]
}

// valueSetsAssuming is valueSets with correlated-branch pruning: `assume` gives the truth of some
// boolean values (by access path) that holds wherever the caller is interested (typically the
// boolean facts dominating the site of interest, on fields that are not assigned in fn). Edges whose
// branch condition contradicts an assumption are not followed, so a guard such as
// `if !x.flag && len(l) == 0 { return }` constrains len(l) on the paths where x.flag is false.
func valueSetsAssuming(fn *ssa.Function, typ types.Type, is tracker, assume map[string]bool) map[*ssa.BasicBlock]iset {
	in := map[*ssa.BasicBlock]iset{}
	if len(fn.Blocks) == 0 {
		return in
	}
	in[fn.Blocks[0]] = typeRange(typ)
	contradicts := func(b *ssa.BasicBlock, si int) bool {
		iff, ok := b.Instrs[len(b.Instrs)-1].(*ssa.If)
		if !ok || b.Succs[0] == b.Succs[1] {
			return false
		}
		c, ok := normFact(EdgeFact{Cond: iff.Cond, Taken: si == 0})
		if !ok || c.Op != token.EQL {
			return false
		}
		cb, isB := constBool(c.Y)
		if !isB {
			return false
		}
		want, known := assume[pathOf(c.X)]
		return known && want != cb
	}
	work := []*ssa.BasicBlock{fn.Blocks[0]}
	for len(work) > 0 {
		b := work[len(work)-1]
		work = work[:len(work)-1]
		for si, s := range b.Succs {
			if contradicts(b, si) {
				continue
			}
			out := in[b].intersect(constraintOnEdge(b, si, is))
			nw := in[s].union(out)
			if !nw.equal(in[s]) {
				in[s] = nw
				work = append(work, s)
			}
		}
	}
	return in
}

// defRange: the values v can have by construction, looking through value-preserving conversions and
// phis (the union over the incoming values): a phi of uint8 and uint32 lengths widened to int64 is
// never negative although its type admits negative values.
func defRange(v ssa.Value, depth int) iset {
	if depth > 6 {
		return typeRange(v.Type())
	}
	switch x := v.(type) {
	case *ssa.Const:
		if k, ok := constInt(x); ok {
			return rng(k, k)
		}
	case *ssa.Convert:
		if wideningConv(x) {
			return defRange(x.X, depth+1).intersect(typeRange(x.Type()))
		}
	case *ssa.Phi:
		var out iset
		for _, e := range x.Edges {
			if e == ssa.Value(x) {
				continue
			}
			out = out.union(defRange(e, depth+1))
		}
		if !out.empty() {
			return out.intersect(typeRange(x.Type()))
		}
	}
	return typeRange(v.Type())
}
