package main

import (
	"golang.org/x/tools/go/ssa"
)

// natLoop is a natural loop: header + body blocks (including header).
type natLoop struct {
	head *ssa.BasicBlock
	body map[*ssa.BasicBlock]bool
	back []*ssa.BasicBlock // sources of back edges
}

// loopsOf finds the natural loops of fn (loops sharing a header are merged).
func loopsOf(fn *ssa.Function) []*natLoop {
	byHead := map[*ssa.BasicBlock]*natLoop{}
	var order []*ssa.BasicBlock
	for _, b := range fn.Blocks {
		for _, s := range b.Succs {
			if s.Dominates(b) { // back edge b -> s
				l := byHead[s]
				if l == nil {
					l = &natLoop{head: s, body: map[*ssa.BasicBlock]bool{s: true}}
					byHead[s] = l
					order = append(order, s)
				}
				l.back = append(l.back, b)
				// blocks that reach b without passing s
				var stack []*ssa.BasicBlock
				if !l.body[b] {
					l.body[b] = true
					stack = append(stack, b)
				}
				for len(stack) > 0 {
					x := stack[len(stack)-1]
					stack = stack[:len(stack)-1]
					for _, p := range x.Preds {
						if !l.body[p] {
							l.body[p] = true
							stack = append(stack, p)
						}
					}
				}
			}
		}
	}
	var out []*natLoop
	for _, h := range order {
		out = append(out, byHead[h])
	}
	return out
}

// cycleAvoiding: can control go from the loop header around the loop back to the header without
// executing any block for which `progress` is true? (progress blocks are removed from the graph;
// the header itself counts when it is a progress block)
func (l *natLoop) cycleAvoiding(progress func(*ssa.BasicBlock) bool) bool {
	if progress(l.head) {
		return false
	}
	seen := map[*ssa.BasicBlock]bool{}
	var walk func(b *ssa.BasicBlock) bool
	walk = func(b *ssa.BasicBlock) bool {
		for _, s := range b.Succs {
			if !l.body[s] {
				continue
			}
			if s == l.head {
				return true
			}
			if seen[s] || progress(s) {
				continue
			}
			seen[s] = true
			if walk(s) {
				return true
			}
		}
		return false
	}
	return walk(l.head)
}

// sccs computes strongly connected components of a function-level graph.
func sccs(nodes []*ssa.Function, succ func(*ssa.Function) []*ssa.Function) [][]*ssa.Function {
	index := map[*ssa.Function]int{}
	low := map[*ssa.Function]int{}
	on := map[*ssa.Function]bool{}
	var stack []*ssa.Function
	var out [][]*ssa.Function
	n := 0
	var strong func(v *ssa.Function)
	strong = func(v *ssa.Function) {
		index[v] = n
		low[v] = n
		n++
		stack = append(stack, v)
		on[v] = true
		for _, w := range succ(v) {
			if _, ok := index[w]; !ok {
				strong(w)
				if low[w] < low[v] {
					low[v] = low[w]
				}
			} else if on[w] && index[w] < low[v] {
				low[v] = index[w]
			}
		}
		if low[v] == index[v] {
			var comp []*ssa.Function
			for {
				w := stack[len(stack)-1]
				stack = stack[:len(stack)-1]
				on[w] = false
				comp = append(comp, w)
				if w == v {
					break
				}
			}
			out = append(out, comp)
		}
	}
	for _, v := range nodes {
		if _, ok := index[v]; !ok {
			strong(v)
		}
	}
	return out
}
