package main

import (
	"fmt"
	"go/ast"
	"go/constant"
	"go/token"
	"go/types"
	"regexp"
	"sort"
	"strconv"
	"strings"

	"golang.org/x/tools/go/ssa"
)

func toolConst(w *World, rel, name string) (constant.Value, bool) {
	sp := w.Pkg(rel)
	if sp == nil {
		return nil, false
	}
	c, ok := sp.Members[name].(*ssa.NamedConst)
	if !ok {
		return nil, false
	}
	return c.Value.Value, true
}

func init() {
	register(&Rule{ID: "C16.R1", Props: []string{"C16"}, Min: 12, Needs: NeedMain | NeedTool,
		Doc: "the front end terminates: every loop of the parser and lexer without a bounded induction variable (P) advances the input on every path around the loop and (E) cannot go around once the input is exhausted — branch conditions on the current token/byte are folded with the EOF constant, callees are summarised as `cannot return normally at EOF`; the advance primitives yield EOF at end of input; recursive descent advances before recursing",
		Run: func(r *R) {
			type side struct {
				rel     string
				cur     func(v ssa.Value) bool
				eofName string
				advName []string
			}
			sides := []side{
				{"parse", func(v ssa.Value) bool { return pathEndsWith(v, ".tk.T") }, "Eof", []string{"next"}},
				{"lexer", func(v ssa.Value) bool { return pathEndsWith(v, ".current") }, "EOF", []string{"next"}},
			}
			for _, s := range sides {
				sp := r.w.Pkg(s.rel)
				if sp == nil {
					r.AnchorMissing("tars2go package " + s.rel)
					continue
				}
				eof, ok := toolConst(r.w, "token", s.eofName)
				if !ok {
					r.AnchorMissing("token." + s.eofName)
					continue
				}
				adv := map[*ssa.Function]bool{}
				for _, fn := range r.w.Funcs(sp) {
					for _, n := range s.advName {
						if fn.Name() == n && fn.Signature.Recv() != nil {
							adv[fn] = true
						}
					}
				}
				if len(adv) == 0 {
					r.AnchorMissing(s.rel + " advance method (next)")
					continue
				}
				ctx := &eofCtx{w: r.w, curPath: s.cur, eof: eof, memo: map[string]int{}, nret: map[*ssa.Function]int{}, adv: map[*ssa.Function]int{},
					isAdv: func(f *ssa.Function) bool { return adv[f] }}
				for _, fn := range r.w.Funcs(sp) {
					for li, l := range loopsOf(fn) {
						if ranged, _ := isRangeLoop(l); ranged {
							continue
						}
						if countedUp(l) {
							continue // i steps up to a bound fixed before the loop: finitely many iterations
						}
						cons := fmt.Sprintf("loop#%d", li+1)
						pos := firstPos(l.head)
						// (P) progress
						noProgress := l.cycleAvoiding(func(b *ssa.BasicBlock) bool {
							for _, in := range b.Instrs {
								if ctx.advances(in) {
									return true
								}
							}
							return false
						})
						// (E) EOF consistency
						feasible, path := ctx.loopFeasibleAtEOF(l)
						switch {
						case noProgress:
							r.Bad(fname(fn), cons, pos, "an iteration can complete without consuming input (no call of the advance function on some path around the loop): the tool spins forever on that input")
						case feasible:
							r.Bad(fname(fn), cons, pos, "at end of input the loop can go round again (blocks %v): neither an exit nor a diagnostic is reached when the current token is EOF, so a truncated input makes the tool hang", path)
						default:
							r.OK(fname(fn), cons, pos, "every iteration advances, and at EOF every path leaves the loop or raises a diagnostic")
						}
					}
				}
				// the advance primitive yields EOF at end of input (lexer) / takes the lexer's token (parser)
				if s.rel == "lexer" {
					for fn := range adv {
						okk := false
						eachInstr(fn, func(in ssa.Instruction) {
							if st, ok := in.(*ssa.Store); ok && pathEndsWith(st.Addr, ".current") {
								if cv, isC := st.Val.(*ssa.Const); isC && cv.Value != nil && constant.Compare(cv.Value, token.EQL, eof) {
									for _, f := range facts(in.Block()) {
										if c, okc := normFact(f); okc && c.Op == token.NEQ && isNilConst(c.Y) && isErrorType(c.X.Type()) {
											okk = true
										}
									}
								}
							}
						})
						r.Check(okk, fname(fn), "advance yields EOF when the buffer is exhausted", fn.Pos(), "current = EOF on a read error", "the lexer's advance does not set the current byte to EOF when the input is exhausted: end-of-input tests never fire")
					}
				}
				// recursion: an advance dominates every recursive call (descent consumes input)
				fns := r.w.Funcs(sp)
				succ := func(f *ssa.Function) []*ssa.Function {
					var out []*ssa.Function
					eachInstr(f, func(in ssa.Instruction) {
						if c := callCommon(in); c != nil && c.StaticCallee() != nil && c.StaticCallee().Pkg == sp {
							out = append(out, c.StaticCallee())
						}
					})
					return out
				}
				for _, comp := range sccs(fns, succ) {
					in := map[*ssa.Function]bool{}
					consumes, newLexer := false, false
					var helpers []*ssa.Function
					for _, f := range comp {
						in[f] = true
					}
					for _, f := range comp {
						eachInstr(f, func(ai ssa.Instruction) {
							if c := callCommon(ai); c != nil && c.StaticCallee() != nil {
								if adv[c.StaticCallee()] {
									consumes = true
								}
								if c.StaticCallee().Name() == "NewLexState" {
									newLexer = true
								}
								// one level down (the constructor helper)
								if sc := c.StaticCallee(); sc.Pkg == sp && !in[sc] {
									eachInstr(sc, func(bi ssa.Instruction) {
										if c2 := callCommon(bi); c2 != nil && c2.StaticCallee() != nil && c2.StaticCallee().Name() == "NewLexState" {
											newLexer = true
											helpers = append(helpers, sc)
										}
									})
								}
							}
						})
					}
					if !consumes {
						continue // recursion over the finished syntax tree, not over the input
					}
					if newLexer {
						// include recursion: a new lexer per file; bounded by the include-chain check
						okChain := false
						for _, f := range append(append([]*ssa.Function{}, comp...), helpers...) {
							eachInstr(f, func(pi ssa.Instruction) {
								if _, isP := pi.(*ssa.Panic); !isP {
									return
								}
								for _, fct := range facts(pi.Block()) {
									if cm, okc := normFact(fct); okc && cm.Op == token.EQL {
										if _, isPar := cm.X.(*ssa.Parameter); isPar {
											okChain = true
										}
										if _, isPar := cm.Y.(*ssa.Parameter); isPar {
											okChain = true
										}
									}
								}
							})
						}
						r.Check(okChain, fname(comp[len(comp)-1]), "include recursion is cut by the include-chain check", comp[0].Pos(), "a file already on the include chain raises a diagnostic", "the include recursion has no cycle check: two files including each other recurse forever")
						continue
					}
					for _, f := range comp {
						eachInstr(f, func(ci ssa.Instruction) {
							c := callCommon(ci)
							if c == nil || c.StaticCallee() == nil || !in[c.StaticCallee()] || (len(comp) == 1 && c.StaticCallee() != f) {
								return
							}
							if adv[f] {
								return
							}
							dom := false
							eachInstr(f, func(ai ssa.Instruction) {
								if ctx.advances(ai) && instrDominates(ai, ci) {
									dom = true
								}
							})
							r.Check(dom, fname(f), "recursive call to "+c.StaticCallee().Name()+" consumes input first", ci.Pos(), "an advance dominates the recursive call", "a recursive call is reachable without consuming input: unbounded recursion on the same token")
						})
					}
				}
			}
		}})

	register(&Rule{ID: "C16.R2", Props: []string{"C16"}, Min: 2, Needs: NeedTool,
		Doc: "diagnostics are recovered: the generator entry point defers a function that recovers the panic, prints it and exits with status 1, and every exported function of gencode from which a parser/lexer/generator panic is reachable is that entry point",
		Run: func(r *R) {
			gp := r.w.Pkg("gencode")
			if gp == nil {
				r.AnchorMissing("tars2go package gencode")
				return
			}
			gen := r.w.Func("gencode", "GenGo.Gen")
			if gen == nil {
				r.AnchorMissing("gencode.(*GenGo).Gen")
				return
			}
			okk := false
			eachInstr(gen, func(in ssa.Instruction) {
				d, ok := in.(*ssa.Defer)
				if !ok || in.Block() != gen.Blocks[0] {
					return
				}
				var cl *ssa.Function
				if mc, ok := d.Call.Value.(*ssa.MakeClosure); ok {
					cl = mc.Fn.(*ssa.Function)
				} else if f, ok := d.Call.Value.(*ssa.Function); ok {
					cl = f
				}
				if cl == nil {
					return
				}
				rec, exit1 := false, false
				var recVal ssa.Value
				eachInstr(cl, func(j ssa.Instruction) {
					if c, ok := j.(*ssa.Call); ok {
						if builtinName(&c.Call) == "recover" {
							rec = true
							recVal = c
						}
						if funcID(calleeObj(&c.Call)) == "os.Exit" {
							if k, ok := constInt(c.Call.Args[0]); ok && k != 0 {
								// the exit is on the recovered != nil edge
								for _, f := range facts(j.Block()) {
									if cm, okc := normFact(f); okc && cm.Op == token.NEQ && isNilConst(cm.Y) && recVal != nil && cm.X == recVal {
										exit1 = true
									}
								}
							}
						}
					}
				})
				if rec && exit1 {
					okk = true
				}
			})
			r.Check(okk, fname(gen), "deferred recover + exit(1)", gen.Pos(), "Gen defers recover(); on a diagnostic it prints and exits non-zero", "the generator entry point does not recover diagnostics with a non-zero exit: a malformed input crashes with a Go stack trace or exits 0")
			// exported entry points that can reach the parser
			reaches := map[*ssa.Function]bool{}
			fns := r.w.Funcs(gp)
			changed := true
			for changed {
				changed = false
				for _, f := range fns {
					if reaches[f] {
						continue
					}
					eachInstr(f, func(in ssa.Instruction) {
						c := callCommon(in)
						if c == nil {
							return
						}
						if _, isP := in.(*ssa.Panic); isP {
							reaches[f] = true
						}
						if sc := c.StaticCallee(); sc != nil {
							if sc.Pkg != nil && (sc.Pkg == r.w.Pkg("parse") || sc.Pkg == r.w.Pkg("lexer")) {
								if !reaches[f] {
									reaches[f], changed = true, true
								}
							}
							if reaches[sc] && !reaches[f] {
								reaches[f], changed = true, true
							}
						}
					})
					eachInstr(f, func(in ssa.Instruction) {
						if _, isP := in.(*ssa.Panic); isP && !reaches[f] {
							reaches[f], changed = true, true
						}
					})
				}
			}
			var bad []string
			for f := range reaches {
				if f.Parent() == nil && f.Object() != nil && f.Object().Exported() && f != gen {
					bad = append(bad, fname(f))
				}
			}
			sort.Strings(bad)
			r.Check(len(bad) == 0, "tars2go/gencode", "diagnostics only below Gen", gen.Pos(), "the only exported function from which a diagnostic panic is reachable is Gen", "exported functions %v can raise a parser/generator panic outside the recovering entry point", bad)
		}})

	register(&Rule{ID: "C16.R3", Props: []string{"C16", "C03"}, Thorough: false, Min: 20, Needs: NeedMain | NeedTool,
		Doc: "template identifiers resolve: every `buf.X(` / `readBuf.X(` / `codec.X` occurring in a string literal printed by the generator names a method of *codec.Buffer / *codec.Reader / an exported object of package codec (otherwise the emitted code does not compile)",
		Run: func(r *R) {
			gp := r.w.PPkg("gencode")
			cp := r.w.PPkg(codecPkg)
			if gp == nil || cp == nil {
				r.AnchorMissing("gencode / codec packages")
				return
			}
			methods := func(name string) map[string]bool {
				out := map[string]bool{}
				obj := cp.Types.Scope().Lookup(name)
				if obj == nil {
					return out
				}
				ms := types.NewMethodSet(types.NewPointer(obj.Type()))
				for i := 0; i < ms.Len(); i++ {
					out[ms.At(i).Obj().Name()] = true
				}
				return out
			}
			bufM, rdM := methods("Buffer"), methods("Reader")
			reBuf := regexp.MustCompile(`\bbuf\.([A-Za-z_]\w*)\(`)
			reRd := regexp.MustCompile(`\breadBuf\.([A-Za-z_]\w*)\(`)
			reCodec := regexp.MustCompile(`\bcodec\.([A-Za-z_]\w*)`)
			seen := map[string]bool{}
			for _, f := range gp.Syntax {
				ast.Inspect(f, func(n ast.Node) bool {
					bl, ok := n.(*ast.BasicLit)
					if !ok || bl.Kind != token.STRING {
						return true
					}
					s, err := strconv.Unquote(bl.Value)
					if err != nil {
						return true
					}
					chk := func(kind, name string, ok bool) {
						key := kind + "." + name
						if seen[key] && ok {
							return
						}
						seen[key] = true
						if ok {
							r.OKLookup("tars2go/gencode templates", key, bl.Pos(), "resolves")
						} else {
							r.Bad("tars2go/gencode templates", key, bl.Pos(), "the template emits %s, which does not exist in package codec: every freshly generated binding fails to compile (the checked-in bindings were generated earlier and stay green)", key)
						}
					}
					for _, m := range reBuf.FindAllStringSubmatch(s, -1) {
						chk("(*codec.Buffer)", m[1], bufM[m[1]])
					}
					for _, m := range reRd.FindAllStringSubmatch(s, -1) {
						chk("(*codec.Reader)", m[1], rdM[m[1]])
					}
					for _, m := range reCodec.FindAllStringSubmatch(s, -1) {
						if strings.HasPrefix(m[1], "New") || ast.IsExported(m[1]) {
							chk("codec", m[1], cp.Types.Scope().Lookup(m[1]) != nil)
						}
					}
					return true
				})
			}
		}})
}

func firstPos(b *ssa.BasicBlock) token.Pos {
	for _, in := range b.Instrs {
		if in.Pos().IsValid() {
			return in.Pos()
		}
	}
	for _, s := range b.Succs {
		for _, in := range s.Instrs {
			if in.Pos().IsValid() {
				return in.Pos()
			}
		}
	}
	return token.NoPos
}

// countedUp: the loop is `for i := a; i < b; i += k` (k > 0 constant) with b computed before the loop
// and the counter not assigned otherwise: it terminates whatever the input is.
func countedUp(l *natLoop) bool {
	h := l.head
	iff, ok := h.Instrs[len(h.Instrs)-1].(*ssa.If)
	if !ok {
		return false
	}
	c, ok := iff.Cond.(*ssa.BinOp)
	if !ok {
		return false
	}
	ind, bound := c.X, c.Y
	switch c.Op {
	case token.LSS, token.LEQ:
	case token.GTR, token.GEQ:
		ind, bound = c.Y, c.X
	default:
		return false
	}
	// the loop is left on the false edge
	if l.body[h.Succs[1]] && !l.body[h.Succs[0]] {
		return false
	}
	phi, ok := ind.(*ssa.Phi)
	if !ok || phi.Block() != h {
		return false
	}
	for i, e := range phi.Edges {
		if !l.body[h.Preds[i]] {
			continue // entry value
		}
		step, ok := e.(*ssa.BinOp)
		if !ok || step.Op != token.ADD || step.X != ssa.Value(phi) {
			return false
		}
		if k, ok := constInt(step.Y); !ok || k <= 0 {
			return false
		}
	}
	switch b := bound.(type) {
	case *ssa.Const, *ssa.Parameter:
		return true
	case ssa.Instruction:
		if !l.body[b.Block()] {
			return true
		}
	}
	// re-read in the header from a local that nothing in the loop writes (`i < r[1]`, r a local array)
	if ld, ok := bound.(*ssa.UnOp); ok && ld.Op == token.MUL {
		var base ssa.Value = ld.X
		for {
			switch a := base.(type) {
			case *ssa.IndexAddr:
				base = a.X
				continue
			case *ssa.FieldAddr:
				base = a.X
				continue
			}
			break
		}
		al, ok := base.(*ssa.Alloc)
		if !ok {
			return false
		}
		// the local is only read and written in place (its address goes nowhere), and not written in the loop
		var ok2 func(v ssa.Value) bool
		ok2 = func(v ssa.Value) bool {
			for _, ref := range *v.Referrers() {
				switch x := ref.(type) {
				case *ssa.IndexAddr:
					if x.X != v || !ok2(x) {
						return false
					}
				case *ssa.FieldAddr:
					if !ok2(x) {
						return false
					}
				case *ssa.UnOp:
					if x.Op != token.MUL {
						return false
					}
				case *ssa.Store:
					if x.Addr != v || l.body[x.Block()] {
						return false
					}
				case *ssa.DebugRef:
				default:
					return false
				}
			}
			return true
		}
		return ok2(al)
	}
	return false
}
