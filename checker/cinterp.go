package main

// A15 — finite case-split evaluation.
//
// Some clauses say how a small finite choice is mapped ("tcp -> 1, ssl -> 2, anything else 0").  How the
// code writes the mapping (if-chain, switch, a table in a package variable, a predicate method) does not
// matter, so instead of matching a shape the function is evaluated over an abstract domain:
//
//   - constants, and values computed from constants;
//   - strings with a known beginning and an unknown non-empty rest (`tail`);
//   - atoms: strings whose content is not known at all, only their identity, their length and a set of
//     constants they are assumed to differ from (the rule states the assumption; the inputs of a rule
//     together cover the whole domain);
//   - integers known only by a lower bound (lengths of strings with a tail);
//   - unknown.
//
// A branch on an unknown condition is followed both ways (bounded), so what is reported holds for every
// path of the function under the stated input class.  Nothing is executed: calls that leave the module
// are unknown, memory whose address reaches such a call is unknown from then on, and running out of any
// bound makes the rule undecided rather than satisfied.

import (
	"fmt"
	"go/constant"
	"go/token"
	"go/types"
	"strings"

	"golang.org/x/tools/go/ssa"
)

type cv struct {
	k    byte // 0 unknown; 'i' int; 'b' bool; 's' string; 'S' struct; 'T' tuple; 'p' pointer; 'n' nil; 'm' map; 'l' slice
	i    int64
	lb   bool // int: some value >= i
	s    string
	atom int // string: content unknown, identity atom; alen bytes long
	alen int
	tail bool // string: followed by a non-empty unknown rest
	el   []cv
	cell *ccell
	m    *cmap
	lo   int
	hi   int
}

type ccell struct {
	v       cv
	sub     []*ccell
	escaped bool
}

type cmap struct {
	keys []cv
	vals []cv
	unk  bool
}

var cUnknown = cv{}

func cInt(i int64) cv { return cv{k: 'i', i: i} }
func cBool(b bool) cv {
	if b {
		return cv{k: 'b', i: 1}
	}
	return cv{k: 'b'}
}
func cStr(s string) cv { return cv{k: 's', s: s} }

func (v cv) String() string {
	switch v.k {
	case 'i':
		if v.lb {
			return fmt.Sprintf(">=%d", v.i)
		}
		return fmt.Sprint(v.i)
	case 'b':
		return fmt.Sprint(v.i != 0)
	case 's':
		t := ""
		if v.tail {
			t = "…"
		}
		if v.atom != 0 {
			return fmt.Sprintf("<word#%d>%s", v.atom, t)
		}
		return fmt.Sprintf("%q%s", v.s, t)
	case 'S', 'T':
		var p []string
		for _, e := range v.el {
			p = append(p, e.String())
		}
		return "{" + strings.Join(p, ",") + "}"
	case 'p':
		return "&cell"
	case 'n':
		return "nil"
	case 'm':
		return "map"
	case 'l':
		return "slice"
	}
	return "?"
}

type cinterp struct {
	w         *World
	assumeNot map[int][]string // atom -> constants it differs from
	choices   []int
	taken     []int
	steps     int
	maxSteps  int
	maxDec    int
	abort     string // non-empty: the run did not finish ("panic: …", "limit: …")
	gcells    map[*ssa.Global]*ccell
	inInit    bool
	shared    *cshared
}

// cshared survives the runs of one enumeration.
type cshared struct {
	globals map[*ssa.Global]*cv // nil entry: not a constant table
	uses    map[*ssa.Global][]ssa.Instruction
	usesOK  bool
}

func zeroOf(t types.Type) cv {
	switch u := t.Underlying().(type) {
	case *types.Basic:
		switch {
		case u.Info()&types.IsInteger != 0:
			return cInt(0)
		case u.Info()&types.IsString != 0:
			return cStr("")
		case u.Info()&types.IsBoolean != 0:
			return cBool(false)
		}
		return cUnknown
	case *types.Struct:
		out := cv{k: 'S'}
		for i := 0; i < u.NumFields(); i++ {
			out.el = append(out.el, zeroOf(u.Field(i).Type()))
		}
		return out
	case *types.Pointer, *types.Slice, *types.Map, *types.Interface, *types.Chan, *types.Signature:
		return cv{k: 'n'}
	}
	return cUnknown
}

func newCell(t types.Type) *ccell {
	switch u := t.Underlying().(type) {
	case *types.Struct:
		c := &ccell{}
		for i := 0; i < u.NumFields(); i++ {
			c.sub = append(c.sub, newCell(u.Field(i).Type()))
		}
		if len(c.sub) == 0 {
			c.v = cv{k: 'S'}
		}
		return c
	case *types.Array:
		if u.Len() >= 0 && u.Len() <= 1024 {
			c := &ccell{}
			for i := int64(0); i < u.Len(); i++ {
				c.sub = append(c.sub, newCell(u.Elem()))
			}
			if len(c.sub) == 0 {
				c.v = cUnknown
			}
			return c
		}
	}
	return &ccell{v: zeroOf(t)}
}

func (c *ccell) load(t types.Type) cv {
	if c.escaped {
		return cUnknown
	}
	if len(c.sub) > 0 {
		if _, ok := t.Underlying().(*types.Struct); ok {
			out := cv{k: 'S'}
			st := t.Underlying().(*types.Struct)
			for i, s := range c.sub {
				out.el = append(out.el, s.load(st.Field(i).Type()))
			}
			return out
		}
		return cUnknown
	}
	return c.v
}

func (c *ccell) store(v cv) {
	if len(c.sub) > 0 {
		if v.k == 'S' && len(v.el) == len(c.sub) {
			for i, s := range c.sub {
				s.store(v.el[i])
			}
			return
		}
		for _, s := range c.sub {
			s.store(cUnknown)
		}
		return
	}
	c.v = v
}

func (c *ccell) escape(seen map[*ccell]bool) {
	if c == nil || seen[c] {
		return
	}
	seen[c] = true
	c.escaped = true
	escapeVal(c.v, seen)
	for _, s := range c.sub {
		s.escape(seen)
	}
}

func escapeVal(v cv, seen map[*ccell]bool) {
	switch v.k {
	case 'p', 'l':
		v.cell.escape(seen)
	case 'm':
		if v.m != nil {
			v.m.unk = true
		}
	case 'S', 'T':
		for _, e := range v.el {
			escapeVal(e, seen)
		}
	}
}

// ceq: equality of two abstract values; known=false when it cannot be told.
func (ci *cinterp) ceq(a, b cv) (eq, known bool) {
	if a.k == 0 || b.k == 0 {
		return false, false
	}
	if a.k == 'n' || b.k == 'n' {
		if a.k == 'n' && b.k == 'n' {
			return true, true
		}
		o := a
		if a.k == 'n' {
			o = b
		}
		if o.k == 'p' || o.k == 'm' || o.k == 'l' {
			return false, true
		}
		return false, false
	}
	if a.k != b.k {
		return false, false
	}
	switch a.k {
	case 'i':
		if !a.lb && !b.lb {
			return a.i == b.i, true
		}
		if a.lb && !b.lb && b.i < a.i {
			return false, true
		}
		if b.lb && !a.lb && a.i < b.i {
			return false, true
		}
		return false, false
	case 'b':
		return a.i == b.i, true
	case 's':
		if a.atom == 0 && b.atom == 0 && !a.tail && !b.tail {
			return a.s == b.s, true
		}
		if a.atom != 0 && b.atom != 0 {
			if a.atom == b.atom && !a.tail && !b.tail {
				return true, true
			}
			return false, false
		}
		if b.atom != 0 || (b.tail && a.atom == 0 && !a.tail) {
			a, b = b, a
		}
		// a is the abstract one; b is concrete or has a tail as well
		if b.tail {
			return false, false
		}
		if a.atom != 0 {
			if a.tail && len(b.s) <= a.alen {
				return false, true
			}
			if !a.tail && len(b.s) != a.alen {
				return false, true
			}
			if !a.tail {
				for _, c := range ci.assumeNot[a.atom] {
					if c == b.s {
						return false, true
					}
				}
			}
			return false, false
		}
		// a = prefix + non-empty rest
		if len(b.s) <= len(a.s) || !strings.HasPrefix(b.s, a.s) {
			return false, true
		}
		return false, false
	case 'p':
		return a.cell == b.cell, true
	case 'S', 'T':
		if len(a.el) != len(b.el) {
			return false, false
		}
		all := true
		for i := range a.el {
			e, k := ci.ceq(a.el[i], b.el[i])
			if k && !e {
				return false, true
			}
			if !k {
				all = false
			}
		}
		return all, all
	}
	return false, false
}

func truncTo(x int64, t types.Type) int64 {
	b, ok := t.Underlying().(*types.Basic)
	if !ok {
		return x
	}
	switch b.Kind() {
	case types.Int8:
		return int64(int8(x))
	case types.Int16:
		return int64(int16(x))
	case types.Int32:
		return int64(int32(x))
	case types.Uint8:
		return int64(uint8(x))
	case types.Uint16:
		return int64(uint16(x))
	case types.Uint32:
		return int64(uint32(x))
	}
	return x
}

func (ci *cinterp) constOf(c *ssa.Const) cv {
	if c.Value == nil {
		return zeroOf(c.Type())
	}
	switch c.Value.Kind() {
	case constant.Int:
		if i, ok := constant.Int64Val(c.Value); ok {
			return cInt(i)
		}
	case constant.Bool:
		return cBool(constant.BoolVal(c.Value))
	case constant.String:
		return cStr(constant.StringVal(c.Value))
	}
	return cUnknown
}

type cframe struct {
	env map[ssa.Value]cv
}

func (ci *cinterp) get(f *cframe, v ssa.Value) cv {
	switch x := v.(type) {
	case *ssa.Const:
		return ci.constOf(x)
	case *ssa.Global:
		if c := ci.gcells[x]; c != nil {
			return cv{k: 'p', cell: c}
		}
		return cUnknown
	case *ssa.Function:
		return cUnknown
	}
	return f.env[v]
}

// decide: a branch on an unknown condition.
func (ci *cinterp) decide() (bool, bool) {
	n := len(ci.taken)
	if n >= ci.maxDec {
		ci.abort = "limit: more than " + fmt.Sprint(ci.maxDec) + " undetermined branches on one path"
		return false, false
	}
	c := 0
	if n < len(ci.choices) {
		c = ci.choices[n]
	}
	ci.taken = append(ci.taken, c)
	return c == 1, true
}

func (ci *cinterp) strLen(v cv) cv {
	n := int64(len(v.s))
	if v.atom != 0 {
		n = int64(v.alen)
	}
	if v.tail {
		return cv{k: 'i', i: n + 1, lb: true}
	}
	return cInt(n)
}

// call evaluates fn on args; ok=false when the run was aborted (ci.abort says why).
func (ci *cinterp) call(fn *ssa.Function, args []cv, bindings []cv, depth int) (cv, bool) {
	f := &cframe{env: map[ssa.Value]cv{}}
	for i, p := range fn.Params {
		if i < len(args) {
			f.env[p] = args[i]
		}
	}
	for i, fv := range fn.FreeVars {
		if i < len(bindings) {
			f.env[fv] = bindings[i]
		}
	}
	b := fn.Blocks[0]
	var prev *ssa.BasicBlock
	for {
		// phis read the values of the predecessor together
		var phiVals []cv
		var phis []*ssa.Phi
		for _, in := range b.Instrs {
			phi, ok := in.(*ssa.Phi)
			if !ok {
				break
			}
			val := cUnknown
			for i, p := range b.Preds {
				if p == prev {
					val = ci.get(f, phi.Edges[i])
				}
			}
			phis = append(phis, phi)
			phiVals = append(phiVals, val)
		}
		for i, phi := range phis {
			f.env[phi] = phiVals[i]
		}
		for _, in := range b.Instrs[len(phis):] {
			ci.steps++
			if ci.steps > ci.maxSteps {
				ci.abort = "limit: step budget"
				return cUnknown, false
			}
			switch x := in.(type) {
			case *ssa.Return:
				if len(x.Results) == 0 {
					return cv{k: 'T'}, true
				}
				if len(x.Results) == 1 {
					return ci.get(f, x.Results[0]), true
				}
				out := cv{k: 'T'}
				for _, r := range x.Results {
					out.el = append(out.el, ci.get(f, r))
				}
				return out, true
			case *ssa.If:
				c := ci.get(f, x.Cond)
				var t bool
				if c.k == 'b' {
					t = c.i != 0
				} else {
					var ok bool
					if t, ok = ci.decide(); !ok {
						return cUnknown, false
					}
				}
				prev = b
				if t {
					b = b.Succs[0]
				} else {
					b = b.Succs[1]
				}
			case *ssa.Jump:
				prev = b
				b = b.Succs[0]
			case *ssa.Panic:
				ci.abort = "panic: explicit panic"
				return cUnknown, false
			default:
				if !ci.step(f, in, depth) {
					return cUnknown, false
				}
			}
		}
	}
}

func (ci *cinterp) intBin(op token.Token, a, c cv, t types.Type) cv {
	if a.lb || c.lb {
		// only comparisons of a lower bound with a constant are decided
		if a.lb && !c.lb {
			switch op {
			case token.GTR:
				if a.i > c.i {
					return cBool(true)
				}
			case token.GEQ:
				if a.i >= c.i {
					return cBool(true)
				}
			case token.LSS:
				if a.i >= c.i {
					return cBool(false)
				}
			case token.LEQ:
				if a.i > c.i {
					return cBool(false)
				}
			case token.EQL:
				if a.i > c.i {
					return cBool(false)
				}
			case token.NEQ:
				if a.i > c.i {
					return cBool(true)
				}
			}
		}
		if c.lb && !a.lb {
			switch op {
			case token.LSS:
				if c.i > a.i {
					return cBool(true)
				}
			case token.LEQ:
				if c.i >= a.i {
					return cBool(true)
				}
			case token.GTR:
				if c.i >= a.i {
					return cBool(false)
				}
			case token.GEQ:
				if c.i > a.i {
					return cBool(false)
				}
			case token.EQL:
				if c.i > a.i {
					return cBool(false)
				}
			case token.NEQ:
				if c.i > a.i {
					return cBool(true)
				}
			}
		}
		return cUnknown
	}
	switch op {
	case token.ADD:
		return cInt(truncTo(a.i+c.i, t))
	case token.SUB:
		return cInt(truncTo(a.i-c.i, t))
	case token.MUL:
		return cInt(truncTo(a.i*c.i, t))
	case token.QUO:
		if c.i == 0 {
			return cUnknown
		}
		return cInt(truncTo(a.i/c.i, t))
	case token.REM:
		if c.i == 0 {
			return cUnknown
		}
		return cInt(truncTo(a.i%c.i, t))
	case token.AND:
		return cInt(a.i & c.i)
	case token.OR:
		return cInt(a.i | c.i)
	case token.XOR:
		return cInt(truncTo(a.i^c.i, t))
	case token.SHL:
		return cInt(truncTo(a.i<<uint(c.i&63), t))
	case token.SHR:
		return cInt(a.i >> uint(c.i&63))
	case token.LSS:
		return cBool(a.i < c.i)
	case token.LEQ:
		return cBool(a.i <= c.i)
	case token.GTR:
		return cBool(a.i > c.i)
	case token.GEQ:
		return cBool(a.i >= c.i)
	}
	return cUnknown
}

func (ci *cinterp) step(f *cframe, in ssa.Instruction, depth int) bool {
	set := func(v cv) {
		if val, ok := in.(ssa.Value); ok {
			f.env[val] = v
		}
	}
	switch x := in.(type) {
	case *ssa.Alloc:
		set(cv{k: 'p', cell: newCell(x.Type().Underlying().(*types.Pointer).Elem())})
	case *ssa.FieldAddr:
		p := ci.get(f, x.X)
		if p.k == 'p' && x.Field < len(p.cell.sub) {
			set(cv{k: 'p', cell: p.cell.sub[x.Field]})
		} else {
			set(cUnknown)
		}
	case *ssa.Field:
		s := ci.get(f, x.X)
		if s.k == 'S' && x.Field < len(s.el) {
			set(s.el[x.Field])
		} else {
			set(cUnknown)
		}
	case *ssa.IndexAddr:
		p, ix := ci.get(f, x.X), ci.get(f, x.Index)
		if (p.k == 'p' || p.k == 'l') && ix.k == 'i' && !ix.lb && len(p.cell.sub) > 0 {
			lo, hi := 0, len(p.cell.sub)
			if p.k == 'l' {
				lo, hi = p.lo, p.hi
			}
			if ix.i < 0 || lo+int(ix.i) >= hi {
				ci.abort = "panic: index out of range"
				return false
			}
			set(cv{k: 'p', cell: p.cell.sub[lo+int(ix.i)]})
		} else {
			set(cUnknown)
		}
	case *ssa.Store:
		p := ci.get(f, x.Addr)
		v := ci.get(f, x.Val)
		if p.k == 'p' {
			p.cell.store(v)
			if p.cell.escaped {
				escapeVal(v, map[*ccell]bool{})
			}
		} else {
			// a store through an unknown pointer publishes the value
			escapeVal(v, map[*ccell]bool{})
		}
	case *ssa.UnOp:
		a := ci.get(f, x.X)
		switch x.Op {
		case token.MUL:
			if g, ok := x.X.(*ssa.Global); ok && ci.gcells[g] == nil {
				set(ci.globalVal(g))
				return true
			}
			if a.k == 'p' {
				set(a.cell.load(x.Type()))
			} else {
				set(cUnknown)
			}
		case token.NOT:
			if a.k == 'b' {
				set(cBool(a.i == 0))
			} else {
				set(cUnknown)
			}
		case token.SUB:
			if a.k == 'i' && !a.lb {
				set(cInt(truncTo(-a.i, x.Type())))
			} else {
				set(cUnknown)
			}
		default:
			set(cUnknown)
		}
	case *ssa.BinOp:
		a, c := ci.get(f, x.X), ci.get(f, x.Y)
		if x.Op == token.EQL || x.Op == token.NEQ {
			eq, known := ci.ceq(a, c)
			if !known {
				set(cUnknown)
			} else {
				set(cBool(eq == (x.Op == token.EQL)))
			}
			return true
		}
		switch {
		case a.k == 'i' && c.k == 'i':
			set(ci.intBin(x.Op, a, c, x.Type()))
		case a.k == 's' && c.k == 's' && a.atom == 0 && c.atom == 0 && !a.tail && !c.tail:
			switch x.Op {
			case token.ADD:
				set(cStr(a.s + c.s))
			case token.LSS:
				set(cBool(a.s < c.s))
			case token.LEQ:
				set(cBool(a.s <= c.s))
			case token.GTR:
				set(cBool(a.s > c.s))
			case token.GEQ:
				set(cBool(a.s >= c.s))
			default:
				set(cUnknown)
			}
		case a.k == 'b' && c.k == 'b' && (x.Op == token.AND || x.Op == token.OR):
			if x.Op == token.AND {
				set(cBool(a.i != 0 && c.i != 0))
			} else {
				set(cBool(a.i != 0 || c.i != 0))
			}
		default:
			set(cUnknown)
		}
	case *ssa.Convert:
		a := ci.get(f, x.X)
		tb, _ := x.Type().Underlying().(*types.Basic)
		switch {
		case a.k == 'i' && !a.lb && tb != nil && tb.Info()&types.IsInteger != 0:
			set(cInt(truncTo(a.i, x.Type())))
		case a.k == 's' && tb != nil && tb.Info()&types.IsString != 0:
			set(a)
		default:
			set(cUnknown)
		}
	case *ssa.ChangeType:
		set(ci.get(f, x.X))
	case *ssa.MakeInterface:
		set(ci.get(f, x.X))
	case *ssa.ChangeInterface:
		set(ci.get(f, x.X))
	case *ssa.Extract:
		t := ci.get(f, x.Tuple)
		if t.k == 'T' && x.Index < len(t.el) {
			set(t.el[x.Index])
		} else {
			set(cUnknown)
		}
	case *ssa.Phi:
		// handled at block entry
	case *ssa.MakeMap:
		set(cv{k: 'm', m: &cmap{}})
	case *ssa.MapUpdate:
		m, k, v := ci.get(f, x.Map), ci.get(f, x.Key), ci.get(f, x.Value)
		if m.k != 'm' {
			escapeVal(v, map[*ccell]bool{})
			return true
		}
		if !isConcreteKey(k) {
			m.m.unk = true
			return true
		}
		for i, kk := range m.m.keys {
			if eq, _ := ci.ceq(kk, k); eq {
				m.m.vals[i] = v
				return true
			}
		}
		m.m.keys = append(m.m.keys, k)
		m.m.vals = append(m.m.vals, v)
	case *ssa.Lookup:
		m, k := ci.get(f, x.X), ci.get(f, x.Index)
		res, found, known := cUnknown, false, false
		switch {
		case m.k == 'm' && !m.m.unk:
			known = true
			for i, kk := range m.m.keys {
				eq, kn := ci.ceq(kk, k)
				if !kn {
					known = false
					break
				}
				if eq {
					res, found = m.m.vals[i], true
					break
				}
			}
			if known && !found {
				res = zeroOf(x.X.Type().Underlying().(*types.Map).Elem())
			}
		case m.k == 'n':
			if mt, ok := x.X.Type().Underlying().(*types.Map); ok {
				known, res = true, zeroOf(mt.Elem())
			}
		case m.k == 's' && m.atom == 0 && k.k == 'i' && !k.lb:
			if k.i < 0 || (k.i >= int64(len(m.s)) && !m.tail) {
				ci.abort = "panic: string index out of range"
				return false
			}
			if k.i < int64(len(m.s)) {
				set(cInt(int64(m.s[k.i])))
				return true
			}
		}
		if x.CommaOk {
			if known {
				set(cv{k: 'T', el: []cv{res, cBool(found)}})
			} else {
				set(cUnknown)
			}
		} else if known {
			set(res)
		} else {
			set(cUnknown)
		}
	case *ssa.Slice:
		a := ci.get(f, x.X)
		bound := func(v ssa.Value, def cv) cv {
			if v == nil {
				return def
			}
			return ci.get(f, v)
		}
		switch a.k {
		case 's':
			total := ci.strLen(a)
			lo, hi := bound(x.Low, cInt(0)), bound(x.High, total)
			known := int64(len(a.s))
			if a.atom != 0 {
				known = int64(a.alen)
			}
			if lo.k != 'i' || lo.lb || hi.k != 'i' {
				set(cUnknown)
				return true
			}
			if hi.lb {
				// s[lo:] of a string with a tail
				if x.High != nil || lo.i > known {
					set(cUnknown)
					return true
				}
				if a.atom != 0 {
					if lo.i == 0 {
						set(a)
					} else {
						set(cUnknown)
					}
					return true
				}
				set(cv{k: 's', s: a.s[lo.i:], tail: true})
				return true
			}
			if lo.i < 0 || lo.i > hi.i || (hi.i > known && !a.tail) {
				ci.abort = fmt.Sprintf("panic: slice bounds [%d:%d] of a string of length %d", lo.i, hi.i, known)
				return false
			}
			if hi.i > known {
				set(cUnknown) // reaches into the unknown rest
				return true
			}
			if a.atom != 0 {
				if lo.i == 0 && hi.i == known {
					set(cv{k: 's', atom: a.atom, alen: a.alen})
				} else if lo.i == hi.i {
					set(cStr(""))
				} else {
					set(cUnknown)
				}
				return true
			}
			set(cStr(a.s[lo.i:hi.i]))
		case 'p', 'l':
			if len(a.cell.sub) == 0 {
				set(cUnknown)
				return true
			}
			clo, chi := 0, len(a.cell.sub)
			if a.k == 'l' {
				clo, chi = a.lo, a.hi
			}
			lo, hi := bound(x.Low, cInt(0)), bound(x.High, cInt(int64(chi-clo)))
			if lo.k != 'i' || lo.lb || hi.k != 'i' || hi.lb {
				a.cell.escape(map[*ccell]bool{})
				set(cUnknown)
				return true
			}
			if lo.i < 0 || lo.i > hi.i || clo+int(hi.i) > len(a.cell.sub) {
				ci.abort = "panic: slice bounds out of range"
				return false
			}
			set(cv{k: 'l', cell: a.cell, lo: clo + int(lo.i), hi: clo + int(hi.i)})
		case 'n':
			set(a)
		default:
			set(cUnknown)
		}
	case *ssa.MakeSlice:
		n := ci.get(f, x.Len)
		if n.k == 'i' && !n.lb && n.i >= 0 && n.i <= 1024 {
			el := x.Type().Underlying().(*types.Slice).Elem()
			set(cv{k: 'l', cell: newCell(types.NewArray(el, n.i)), lo: 0, hi: int(n.i)})
			if n.i == 0 {
				set(cv{k: 'l', cell: &ccell{}, lo: 0, hi: 0})
			}
		} else {
			set(cUnknown)
		}
	case *ssa.Call:
		return ci.doCall(f, x, depth)
	case *ssa.Defer:
		ci.unknownCall(f, &x.Call)
	case *ssa.Go:
		ci.unknownCall(f, &x.Call)
	case *ssa.MakeClosure:
		for _, b := range x.Bindings {
			escapeVal(ci.get(f, b), map[*ccell]bool{})
		}
		set(cUnknown)
	case *ssa.RunDefers, *ssa.DebugRef:
	case *ssa.Send:
		escapeVal(ci.get(f, x.X), map[*ccell]bool{})
	default:
		// TypeAssert, Range, Next, Select, Index, MakeChan, …: not modelled
		for _, op := range in.Operands(nil) {
			if *op != nil {
				escapeVal(ci.get(f, *op), map[*ccell]bool{})
			}
		}
		set(cUnknown)
	}
	return true
}

func isConcreteKey(k cv) bool {
	switch k.k {
	case 'i':
		return !k.lb
	case 'b':
		return true
	case 's':
		return !k.tail
	}
	return false
}

func (ci *cinterp) unknownCall(f *cframe, c *ssa.CallCommon) {
	seen := map[*ccell]bool{}
	for _, a := range c.Args {
		escapeVal(ci.get(f, a), seen)
	}
	if !c.IsInvoke() {
		if mc, ok := c.Value.(*ssa.MakeClosure); ok {
			for _, b := range mc.Bindings {
				escapeVal(ci.get(f, b), seen)
			}
		}
	} else {
		escapeVal(ci.get(f, c.Value), seen)
	}
}

func (ci *cinterp) doCall(f *cframe, x *ssa.Call, depth int) bool {
	c := &x.Call
	if b, ok := c.Value.(*ssa.Builtin); ok {
		switch b.Name() {
		case "len", "cap":
			a := ci.get(f, c.Args[0])
			switch a.k {
			case 's':
				f.env[x] = ci.strLen(a)
			case 'l':
				f.env[x] = cInt(int64(a.hi - a.lo))
			case 'm':
				if a.m.unk {
					f.env[x] = cUnknown
				} else {
					f.env[x] = cInt(int64(len(a.m.keys)))
				}
			case 'n':
				f.env[x] = cInt(0)
			default:
				f.env[x] = cUnknown
			}
			return true
		}
		ci.unknownCall(f, c)
		f.env[x] = cUnknown
		return true
	}
	if callee := c.StaticCallee(); callee != nil {
		var args []cv
		for _, a := range c.Args {
			args = append(args, ci.get(f, a))
		}
		if v, ok := ci.stdModel(callee, args); ok {
			f.env[x] = v
			return true
		}
		inModule := callee.Pkg != nil && (strings.HasPrefix(callee.Pkg.Pkg.Path(), modPath) || strings.HasPrefix(callee.Pkg.Pkg.Path(), toolMod))
		if callee.Blocks != nil && inModule && depth < 6 && callee.Name() != "init" {
			var bind []cv
			if mc, ok := c.Value.(*ssa.MakeClosure); ok {
				for _, b := range mc.Bindings {
					bind = append(bind, ci.get(f, b))
				}
			}
			v, ok := ci.call(callee, args, bind, depth+1)
			if !ok {
				return false
			}
			f.env[x] = v
			return true
		}
	}
	ci.unknownCall(f, c)
	f.env[x] = cUnknown
	return true
}

// stdModel: a few pure library functions on fully known strings.
func (ci *cinterp) stdModel(fn *ssa.Function, args []cv) (cv, bool) {
	if fn.Pkg == nil {
		return cUnknown, false
	}
	id := fn.Pkg.Pkg.Path() + "." + fn.Name()
	conc := func(i int) (string, bool) {
		if i < len(args) && args[i].k == 's' && args[i].atom == 0 && !args[i].tail {
			return args[i].s, true
		}
		return "", false
	}
	switch id {
	case "strings.ToLower", "strings.ToUpper", "strings.TrimSpace":
		if s, ok := conc(0); ok {
			switch id {
			case "strings.ToLower":
				return cStr(strings.ToLower(s)), true
			case "strings.ToUpper":
				return cStr(strings.ToUpper(s)), true
			}
			return cStr(strings.TrimSpace(s)), true
		}
	case "strings.HasPrefix", "strings.HasSuffix", "strings.EqualFold", "strings.Contains":
		a, ok1 := conc(0)
		b, ok2 := conc(1)
		if ok2 && !ok1 && id == "strings.HasPrefix" && len(args) > 0 && args[0].k == 's' && args[0].atom == 0 && args[0].tail && len(b) <= len(args[0].s) {
			return cBool(strings.HasPrefix(args[0].s, b)), true
		}
		if ok1 && ok2 {
			switch id {
			case "strings.HasPrefix":
				return cBool(strings.HasPrefix(a, b)), true
			case "strings.HasSuffix":
				return cBool(strings.HasSuffix(a, b)), true
			case "strings.EqualFold":
				return cBool(strings.EqualFold(a, b)), true
			}
			return cBool(strings.Contains(a, b)), true
		}
	}
	return cUnknown, false
}

// globalVal: the value of a package variable that is written only by its initialiser and never
// changed afterwards (a constant table); anything else is unknown.
func (ci *cinterp) globalVal(g *ssa.Global) cv {
	sh := ci.shared
	if v, ok := sh.globals[g]; ok {
		if v == nil {
			return cUnknown
		}
		return *v
	}
	sh.globals[g] = nil
	if ci.inInit || g.Pkg == nil || !strings.HasPrefix(g.Pkg.Pkg.Path(), modPath) && !strings.HasPrefix(g.Pkg.Pkg.Path(), toolMod) {
		return cUnknown
	}
	if !sh.usesOK {
		sh.usesOK = true
		sh.uses = map[*ssa.Global][]ssa.Instruction{}
		var rands []*ssa.Value
		for _, m := range []map[string]*ssa.Package{ci.w.SSA, ci.w.ToolSSA} {
			for _, sp := range m {
				fns := ci.w.Funcs(sp)
				if init := sp.Func("init"); init != nil {
					fns = append(fns, init)
				}
				for _, fn := range fns {
					eachInstr(fn, func(in ssa.Instruction) {
						rands = in.Operands(rands[:0])
						for _, op := range rands {
							if gg, ok := (*op).(*ssa.Global); ok {
								sh.uses[gg] = append(sh.uses[gg], in)
							}
						}
					})
				}
			}
		}
	}
	initFn := g.Pkg.Func("init")
	if initFn == nil {
		return cUnknown
	}
	_, isMap := g.Type().Underlying().(*types.Pointer).Elem().Underlying().(*types.Map)
	for _, in := range sh.uses[g] {
		switch x := in.(type) {
		case *ssa.Store:
			if x.Addr != ssa.Value(g) || in.Parent() != initFn {
				return cUnknown
			}
		case *ssa.UnOp:
			if x.Op != token.MUL {
				return cUnknown
			}
			if in.Parent() == initFn {
				continue
			}
			for _, r := range *x.Referrers() {
				switch u := r.(type) {
				case *ssa.Lookup:
					if u.X != ssa.Value(x) {
						return cUnknown
					}
				case *ssa.BinOp, *ssa.If, *ssa.DebugRef:
				case *ssa.Call:
					b, ok := u.Call.Value.(*ssa.Builtin)
					if !ok || b.Name() != "len" {
						if isMap {
							return cUnknown
						}
					}
				case *ssa.Range:
				default:
					if isMap {
						return cUnknown
					}
				}
			}
		default:
			return cUnknown
		}
	}
	// evaluate the package initialiser once, with the guard open
	sub := &cinterp{w: ci.w, maxSteps: 200000, maxDec: 1, gcells: map[*ssa.Global]*ccell{}, inInit: true, shared: sh, assumeNot: map[int][]string{}}
	for name, m := range g.Pkg.Members {
		if gg, ok := m.(*ssa.Global); ok {
			sub.gcells[gg] = newCell(gg.Type().Underlying().(*types.Pointer).Elem())
			if name == "init$guard" {
				sub.gcells[gg].v = cBool(false)
			}
		}
	}
	if _, ok := sub.call(initFn, nil, nil, 0); !ok || len(sub.taken) > 0 {
		return cUnknown
	}
	c := sub.gcells[g]
	if c == nil || c.escaped {
		return cUnknown
	}
	v := c.load(g.Type().Underlying().(*types.Pointer).Elem())
	if v.k == 'm' && v.m.unk {
		return cUnknown
	}
	sh.globals[g] = &v
	return v
}

// cRun: one path of an enumeration.
type cRun struct {
	res   cv
	abort string
}

// cEnumerate evaluates fn on args along every path (branches on unknown conditions both ways).
// complete=false when a bound was hit; such a result must not be taken as "holds".
func cEnumerate(w *World, fn *ssa.Function, args []cv, assumeNot map[int][]string, maxRuns int) (runs []cRun, complete bool) {
	sh := &cshared{globals: map[*ssa.Global]*cv{}}
	stack := [][]int{nil}
	complete = true
	for len(stack) > 0 {
		pre := stack[len(stack)-1]
		stack = stack[:len(stack)-1]
		if len(runs) >= maxRuns {
			return runs, false
		}
		ci := &cinterp{w: w, assumeNot: assumeNot, choices: pre, maxSteps: 20000, maxDec: 14, gcells: map[*ssa.Global]*ccell{}, shared: sh}
		// arguments may hold cells; copy them so that runs do not see each other's stores
		res, ok := ci.call(fn, copyArgs(args), nil, 0)
		r := cRun{res: res}
		if !ok {
			r.abort = ci.abort
			if strings.HasPrefix(ci.abort, "limit") {
				complete = false
			}
		}
		runs = append(runs, r)
		for j := len(pre); j < len(ci.taken); j++ {
			alt := append(append([]int{}, ci.taken[:j]...), 1-ci.taken[j])
			stack = append(stack, alt)
		}
	}
	return runs, complete
}

func copyArgs(a []cv) []cv {
	out := make([]cv, len(a))
	copy(out, a)
	return out
}
