package main

import (
	"fmt"
	"go/token"
	"go/types"
	"sort"
	"strings"

	"golang.org/x/tools/go/ssa"
)

// staticCone: functions reachable from roots through static calls and, for interface calls, every
// method of that name in the same package (over-approximation), staying inside pkgs.
func staticCone(w *World, roots []*ssa.Function, pkgs map[*ssa.Package]bool) []*ssa.Function {
	seen := map[*ssa.Function]bool{}
	var out []*ssa.Function
	var visit func(f *ssa.Function)
	visit = func(f *ssa.Function) {
		if f == nil || seen[f] || f.Blocks == nil || !pkgs[f.Pkg] {
			return
		}
		seen[f] = true
		out = append(out, f)
		for _, a := range f.AnonFuncs {
			visit(a)
		}
		eachInstr(f, func(in ssa.Instruction) {
			c := callCommon(in)
			if c == nil {
				return
			}
			if sc := c.StaticCallee(); sc != nil {
				visit(sc)
				return
			}
			if c.IsInvoke() {
				for _, g := range w.Funcs(f.Pkg) {
					if g.Name() == c.Method.Name() && g.Signature.Recv() != nil {
						if it, ok := c.Value.Type().Underlying().(*types.Interface); ok && types.Implements(g.Signature.Recv().Type(), it) {
							visit(g)
						}
					}
				}
			}
		})
	}
	for _, r := range roots {
		visit(r)
	}
	sort.Slice(out, func(i, j int) bool { return fname(out[i]) < fname(out[j]) })
	return out
}

func init() {
	register(&Rule{ID: "C14.R1", Props: []string{"C14"}, Min: 4, Needs: NeedMain,
		Doc: "hash routing is a pure function of (code, installed set): the call cones of ModHash.Select and ConsistentHash.Select/Find/FindInt32 contain no math/rand, no clock, no atomic read-modify-write and no store to selector state",
		Run: func(r *R) {
			for _, spec := range []struct{ pkg, typ string }{{"tars/selector/modhash", "ModHash"}, {"tars/selector/consistenthash", "ConsistentHash"}} {
				sp := r.w.Pkg(spec.pkg)
				if sp == nil {
					r.AnchorMissing("package " + spec.pkg)
					continue
				}
				var roots []*ssa.Function
				for _, n := range []string{"Select", "Find", "FindInt32"} {
					if f := r.w.Func(spec.pkg, spec.typ+"."+n); f != nil {
						roots = append(roots, f)
					}
				}
				if len(roots) == 0 {
					r.AnchorMissing(spec.typ + ".Select")
					continue
				}
				for _, f := range staticCone(r.w, roots, map[*ssa.Package]bool{sp: true}) {
					impure := ""
					eachInstr(f, func(in ssa.Instruction) {
						if c := callCommon(in); c != nil {
							if o := calleeObj(c); o != nil && o.Pkg() != nil {
								switch {
								case o.Pkg().Path() == "math/rand" || o.Pkg().Path() == "crypto/rand":
									impure = "calls " + funcID(o)
								case o.Pkg().Path() == "time" && (o.Name() == "Now" || o.Name() == "Since"):
									impure = "reads the clock (" + funcID(o) + ")"
								case o.Pkg().Path() == "sync/atomic" && !strings.HasPrefix(o.Name(), "Load"):
									impure = "atomic read-modify-write " + o.Name()
								}
							}
						}
						if st, ok := in.(*ssa.Store); ok {
							if fa, ok := st.Addr.(*ssa.FieldAddr); ok && isRecvValue(f, fa.X) {
								impure = "stores to selector field " + pathOf(fa)
							}
							if _, ok := st.Addr.(*ssa.Global); ok {
								impure = "stores to a package variable"
							}
						}
						if mu, ok := in.(*ssa.MapUpdate); ok {
							if _, _, _, isF := loadedField(mu.Map); isF {
								impure = "updates a map field"
							}
						}
					})
					r.Check(impure == "", fname(f), "pure", f.Pos(), "no randomness, clock, atomic RMW or state update in the routing cone", "%s: the same hash code can be routed to different endpoints while the set is unchanged", impure)
				}
			}
		}})

	register(&Rule{ID: "C14.R3", Props: []string{"C14"}, Min: 3, Needs: NeedMain,
		Doc: "ring points depend only on the endpoint: the keys inserted into the ring by add and the keys deleted by Remove are computed by structurally identical expressions of the endpoint parameter and loop counters (never of ring state), so removal deletes exactly the points that were added and the ring is history independent",
		Run: func(r *R) {
			sp := r.w.Pkg("tars/selector/consistenthash")
			if sp == nil {
				r.AnchorMissing("package consistenthash")
				return
			}
			ins := map[string]bool{}
			del := map[string]bool{}
			var insKeys, delKeys []ssa.Value
			var insFn, delFn *ssa.Function
			for _, fn := range r.w.Funcs(sp) {
				eachInstr(fn, func(in ssa.Instruction) {
					if mu, ok := in.(*ssa.MapUpdate); ok && strings.HasSuffix(pathOf(mu.Map), ".hashRing") {
						ins[keyExpr(mu.Key)] = true
						insKeys = append(insKeys, mu.Key)
						insFn = fn
					}
					if c := callCommon(in); c != nil && builtinName(c) == "delete" && strings.HasSuffix(pathOf(c.Args[0]), ".hashRing") {
						del[keyExpr(c.Args[1])] = true
						delKeys = append(delKeys, c.Args[1])
						delFn = fn
					}
				})
			}
			if insFn == nil || delFn == nil {
				r.Undecided("consistenthash", "ring insert/delete", token.NoPos, "no insertion into / deletion from hashRing found")
				return
			}
			same := len(ins) == len(del)
			for k := range ins {
				if !del[k] {
					same = false
				}
			}
			if !same && len(ins) == len(del) {
				// written differently: compare the expressions that differ bit by bit over their loop iterations
				var a, b []map[string]bool
				okSem := true
				for _, k := range insKeys {
					if !del[keyExpr(k)] {
						if s, ok := symKeySet(k); ok {
							a = append(a, s)
						} else {
							okSem = false
						}
					}
				}
				for _, k := range delKeys {
					if !ins[keyExpr(k)] {
						if s, ok := symKeySet(k); ok {
							b = append(b, s)
						} else {
							okSem = false
						}
					}
				}
				if okSem && len(a) == len(b) && len(a) > 0 {
					match := 0
					for _, x := range a {
						for _, y := range b {
							if len(x) == len(y) {
								eq := true
								for kx := range x {
									if !y[kx] {
										eq = false
									}
								}
								if eq {
									match++
									break
								}
							}
						}
					}
					if match == len(a) {
						same = true
					}
				}
			}
			r.Check(same, fname(delFn), "Remove deletes the keys add inserted", delFn.Pos(), "add and Remove compute identical key expressions (%d forms)", "the ring keys deleted by Remove are not the expressions add inserts (insert %v / delete %v): removing an endpoint leaves its points behind or deletes other endpoints' points", map[bool]any{true: len(ins), false: keys(ins)}[same], keys(del))
			for k := range ins {
				bad := strings.Contains(k, "hashRing") || strings.Contains(k, "sortedKeys") || strings.Contains(k, "mapValues") || strings.Contains(k, "len(")
				r.Check(!bad, fname(insFn), "ring key is a function of the endpoint only", insFn.Pos(), "key = %s", "the ring key %s depends on the selector's current state: the ring then depends on the history of adds/removes, two clients with the same set disagree", k)
			}
			// the number of points per endpoint: same bound expression in both loops, derived from the endpoint's weight only
			wi, wd := "", ""
			for _, p := range []struct {
				fn  *ssa.Function
				out *string
			}{{insFn, &wi}, {delFn, &wd}} {
				for _, l := range loopsOf(p.fn) {
					if iff, ok := l.head.Instrs[len(l.head.Instrs)-1].(*ssa.If); ok {
						if c, ok := iff.Cond.(*ssa.BinOp); ok {
							if _, isC := constInt(c.Y); !isC {
								*p.out = pathOf(c.Y)
							}
						}
					}
				}
			}
			r.Check(wi != "" && wi == wd && !strings.Contains(wi, "len("), fname(delFn), "same number of points added and removed", delFn.Pos(), "both loops run to %s", "add creates %q points per endpoint, Remove deletes %q", wi, wd)
		}})

	register(&Rule{ID: "C14.R4", Props: []string{"C14"}, Min: 2, Needs: NeedMain,
		Doc: "mod-hash slot: the index into a list is msg.HashCode() modulo the length of that same list (the weighted cycle when non-empty, whose elements index the member list)",
		Run: func(r *R) {
			fn := r.w.Func("tars/selector/modhash", "ModHash.Select")
			if fn == nil {
				r.AnchorMissing("modhash.(*ModHash).Select")
				return
			}
			n := 0
			eachInstr(fn, func(in ssa.Instruction) {
				b, ok := in.(*ssa.BinOp)
				if !ok || b.Op != token.REM {
					return
				}
				n++
				codeOK := false
				code := b.X
				for {
					// the code may be widened first (uint64(msg.HashCode())): same remainder
					if cv, ok := code.(*ssa.Convert); ok {
						if w, _, isInt := intWidth(cv.Type()); isInt && w >= 32 {
							code = cv.X
							continue
						}
					}
					break
				}
				if c, ok := code.(*ssa.Call); ok && c.Call.IsInvoke() && c.Call.Method.Name() == "HashCode" {
					codeOK = true
				}
				lenPath := pathOf(b.Y)
				idxOK := false
				// the remainder reaches the index of the list whose length it was reduced by, possibly
				// through conversions and a variable shared by both branches
				seenV := map[ssa.Value]bool{}
				var follow func(v ssa.Value, d int)
				follow = func(v ssa.Value, d int) {
					if d > 6 || seenV[v] || v.Referrers() == nil {
						return
					}
					seenV[v] = true
					for _, ref := range *v.Referrers() {
						switch x := ref.(type) {
						case *ssa.IndexAddr:
							if x.Index == v && "len("+pathOf(x.X)+")" == lenPath {
								idxOK = true
							}
						case *ssa.Convert:
							follow(x, d+1)
						case *ssa.Phi:
							follow(x, d+1)
						}
					}
				}
				follow(b, 0)
				r.Check(codeOK && idxOK, fname(fn), "slot = HashCode() % "+lenPath, in.Pos(), "the caller's hash code modulo the length of the list it indexes", "the slot is not msg.HashCode() reduced modulo the length of the list it indexes (%s)", lenPath)
			})
			if n != 2 {
				r.Bad(fname(fn), "slot computations", fn.Pos(), "found %d modulo reductions (expected the plain and the weighted list)", n)
			}
		}})

	register(&Rule{ID: "C14.R5", Props: []string{"C14"}, Min: 4, Needs: NeedMain,
		Doc: "hash type dispatch: tars.ModHash/ConsistentHash equal selector.ModHash/ConsistentHash (the code converts by cast); in the adapter selection the Select reached on the hashType == K edge (with isHash) belongs to the consistent-hash selector for K = ConsistentHash and to the mod-hash selector for K = ModHash, everything else goes to round robin",
		Run: func(r *R) {
			tp, sp := r.w.Pkg("tars"), r.w.Pkg("tars/selector")
			vals := map[string]int64{}
			for _, n := range []string{"ModHash", "ConsistentHash"} {
				a, ok1 := namedConstInt(tp, n)
				b, ok2 := namedConstInt(sp, n)
				if !ok1 || !ok2 {
					r.AnchorMissing("const " + n)
					return
				}
				vals[n] = a
				r.Check(a == b, "tars/selector", "const "+n, token.NoPos, "tars.%s == selector.%s", "tars.%s = %d but selector.%s = %d", n, n)
			}
			fn := r.w.Func("tars", "endpointManager.SelectAdapterProxy")
			if fn == nil {
				r.AnchorMissing("tars.(*endpointManager).SelectAdapterProxy")
				return
			}
			want := map[string]string{"consistenthash": "ConsistentHash", "modhash": "ModHash"}
			// selection sites: a static call of a selector's Select, or a Select through an interface variable
			// that was bound to one of the selectors on the way (one site per way it can be bound)
			type site struct {
				pkg string
				fs  []EdgeFact
				pos token.Pos
			}
			var sites []site
			eachInstr(fn, func(in ssa.Instruction) {
				c := callCommon(in)
				if c == nil {
					return
				}
				if sc := c.StaticCallee(); sc != nil && sc.Name() == "Select" && sc.Pkg != nil {
					sites = append(sites, site{sc.Pkg.Pkg.Name(), facts(in.Block()), in.Pos()})
					return
				}
				if c.IsInvoke() && c.Method.Name() == "Select" {
					for _, vp := range splitPaths([]ssa.Value{c.Value}, in.Block()) {
						v := vp.vals[0]
						if mi, ok := v.(*ssa.MakeInterface); ok {
							v = mi.X
						}
						if pt, ok := v.Type().Underlying().(*types.Pointer); ok {
							if nt, ok := pt.Elem().(*types.Named); ok && nt.Obj().Pkg() != nil && strings.Contains(nt.Obj().Pkg().Path(), "/tars/selector/") {
								sites = append(sites, site{nt.Obj().Pkg().Name(), vp.pathFacts(), in.Pos()})
							}
						}
					}
				}
			})
			for _, st := range sites {
				pkg, in := st.pkg, st
				var ht *int64
				isHash := false
				for _, f := range st.fs {
					cm, ok := normFact(f)
					if !ok {
						continue
					}
					if strings.HasSuffix(pathOf(cm.X), ".hashType") && cm.Op == token.EQL {
						if k, ok := constInt(cm.Y); ok {
							kk := k
							ht = &kk
						}
					}
					if strings.HasSuffix(pathOf(cm.X), ".isHash") && cm.boolIs(cm.X, true) {
						isHash = true
					}
				}
				switch pkg {
				case "consistenthash", "modhash":
					r.Check(ht != nil && *ht == vals[want[pkg]] && isHash, fname(fn), pkg+".Select on its hash type", in.pos, "reached exactly for isHash && hashType == %s", "%s.Select is not reached exactly on the isHash && hashType == %s edge: hash-routed calls go to the wrong strategy", want[pkg])
				case "roundrobin":
					r.Check(ht == nil, fname(fn), "round robin is the default", in.pos, "reached when no hash routing applies", "round robin is selected on a hash-type edge")
				}
			}
		}})

	register(&Rule{ID: "C14.R6", Props: []string{"C14"}, Min: 4, Needs: NeedMain,
		Doc: "the caller's hash code reaches the selector: the invoke entry copies results #1/#2/#3 of GetClientHash into the message's hashType/hashCode/isHash, and Message.HashCode/IsHash return those fields",
		Run: func(r *R) {
			fn := r.w.Func("tars", "ServantProxy.TarsInvoke")
			if fn == nil {
				r.AnchorMissing("tars.(*ServantProxy).TarsInvoke")
				return
			}
			want := map[string]int{"hashType": 1, "hashCode": 2, "isHash": 3}
			got := map[string]int{}
			eachInstr(fn, func(in ssa.Instruction) {
				st, ok := in.(*ssa.Store)
				if !ok {
					return
				}
				fv, _, ok := fieldAddrOf(st.Addr)
				if !ok {
					return
				}
				if _, w := want[fv.Name()]; !w {
					return
				}
				v := st.Val
				if cv, ok := v.(*ssa.Convert); ok {
					v = cv.X
				}
				if ct, ok := v.(*ssa.ChangeType); ok {
					v = ct.X
				}
				if ex, ok := v.(*ssa.Extract); ok {
					if c, ok := ex.Tuple.(*ssa.Call); ok {
						if o := calleeObj(&c.Call); o != nil && o.Name() == "GetClientHash" {
							got[fv.Name()] = ex.Index
						}
					}
				}
			})
			for f, i := range want {
				r.Check(got[f] == i, fname(fn), "msg."+f+" <- GetClientHash #"+string(rune('0'+i)), fn.Pos(), "copied from result #%d", "msg.%s is not set from result #%d of GetClientHash (got #%d): the caller's hash routing request is lost or mixed up", map[bool]any{true: i, false: f}[got[f] == i], i, got[f])
			}
			hc := r.w.Func("tars", "Message.HashCode")
			okk := false
			if hc != nil {
				for _, b := range hc.Blocks {
					if ret, ok := b.Instrs[len(b.Instrs)-1].(*ssa.Return); ok {
						if _, name, _, isF := loadedField(ret.Results[0]); isF && name == "hashCode" {
							okk = true
						}
					}
				}
			}
			r.Check(okk, "(*tars.Message).HashCode", "returns the hashCode field", token.NoPos, "HashCode() = m.hashCode", "Message.HashCode does not return the stored hash code")
		}})

	register(&Rule{ID: "C14.R7", Props: []string{"C14"}, Min: 2, Needs: NeedMain,
		Doc: "ring lookup: the ring key index is sort.Search(len(sortedKeys), sortedKeys[x] >= key), replaced by 0 only when it ran past the end (or the key is strictly above the last point): first point >= key, wrapping",
		Run: func(r *R) {
			sp := r.w.Pkg("tars/selector/consistenthash")
			if sp == nil {
				r.AnchorMissing("package consistenthash")
				return
			}
			for _, fn := range r.w.Funcs(sp) {
				if fn.Parent() != nil {
					continue
				}
				var search *ssa.Call
				eachInstr(fn, func(in ssa.Instruction) {
					if c, ok := in.(*ssa.Call); ok && funcID(calleeObj(&c.Call)) == "sort.Search" {
						search = c
					}
				})
				if search == nil {
					continue
				}
				where := fname(fn)
				nOK := pathOf(search.Call.Args[0]) == "len(c.sortedKeys)" || strings.HasSuffix(pathOf(search.Call.Args[0]), ".sortedKeys)")
				predOK := false
				if mc, ok := search.Call.Args[1].(*ssa.MakeClosure); ok {
					cl := mc.Fn.(*ssa.Function)
					for _, b := range cl.Blocks {
						if ret, ok := b.Instrs[len(b.Instrs)-1].(*ssa.Return); ok {
							if bo, ok := ret.Results[0].(*ssa.BinOp); ok && bo.Op == token.GEQ && strings.Contains(pathOf(bo.X), ".sortedKeys[") {
								predOK = true
							}
							if bo, ok := ret.Results[0].(*ssa.BinOp); ok && bo.Op == token.LEQ && strings.Contains(pathOf(bo.Y), ".sortedKeys[") {
								predOK = true
							}
						}
					}
				}
				r.Check(nOK && predOK, where, "search = first ring point >= key", search.Pos(), "sort.Search over all ring keys with predicate sortedKeys[x] >= key", "the ring search is not `first sortedKeys[x] >= key` over the whole ring")
				// uses of the index
				okIdx := true
				why := ""
				eachInstr(fn, func(in ssa.Instruction) {
					ia, ok := in.(*ssa.IndexAddr)
					if !ok || !strings.HasSuffix(pathOf(ia.X), ".sortedKeys") {
						return
					}
					var leaves []ssa.Value
					var preds []*ssa.BasicBlock
					if phi, ok := ia.Index.(*ssa.Phi); ok {
						for i, e := range phi.Edges {
							leaves = append(leaves, e)
							preds = append(preds, phi.Block().Preds[i])
						}
					} else {
						leaves = append(leaves, ia.Index)
						preds = append(preds, in.Block())
					}
					for i, l := range leaves {
						if l == ssa.Value(search) {
							continue
						}
						// Search returns a value in [0, n]: `Search(n, ..) % n` is the same wrap-around
						if bo, isB := l.(*ssa.BinOp); isB && bo.Op == token.REM && bo.X == ssa.Value(search) && pathOf(bo.Y) == pathOf(search.Call.Args[0]) {
							continue
						}
						k, isC := constInt(l)
						if !isC || k != 0 {
							okIdx, why = false, "index "+pathOf(l)
							continue
						}
						// wrap edge: index >= len(sortedKeys)
						wrap := false
						fs := append(facts(preds[i]), edgeFactOf(preds[i], in.Block())...)
						if phi, ok := ia.Index.(*ssa.Phi); ok {
							fs = append(facts(preds[i]), edgeFactOf(preds[i], phi.Block())...)
						}
						for _, f := range fs {
							c, ok := normFact(f)
							if !ok {
								continue
							}
							if c.X == ssa.Value(search) && strings.HasSuffix(pathOf(c.Y), ".sortedKeys)") && (c.Op == token.GEQ || c.Op == token.EQL) {
								wrap = true
							}
							// strictly above the last point
							if c.Op == token.GTR && strings.Contains(pathOf(c.Y), ".sortedKeys[") && strings.Contains(pathOf(c.Y), "-1") {
								wrap = true
							}
						}
						if !wrap {
							okIdx, why = false, "index 0 is used on a path that is not the ran-past-the-end case"
						}
					}
				})
				r.Check(okIdx, where, "wrap-around only past the last point", search.Pos(), "index 0 replaces the search result only when it ran past the end", "%s: a code equal to a ring point (or the last point) is routed to the wrong owner", why)
			}
		}})
}

func keys(m map[string]bool) []string {
	var ks []string
	for k := range m {
		ks = append(ks, k)
	}
	sort.Strings(ks)
	return ks
}

// keyExpr renders a ring-key expression structurally; loop counters and locals print by name.
func keyExpr(v ssa.Value) string { return pathOf(v) }

func init() {
	register(&Rule{ID: "C14.R8", Props: []string{"C14", "C13"}, Min: 3, Needs: NeedMain,
		Doc: "selectors follow the weight mode of the current set: a selector's weight mode is fixed when it is constructed, and the endpoint manager recomputes its weightType on every refresh — so in the function that assigns weightType every selector it installs (round robin, consistent hash, mod hash) is, on every path, a selector constructed there by New(enableWeight(), ...) after the last assignment of weightType (never a selector kept from an earlier refresh): otherwise the routing depends on the history of refreshes and two clients with the same set disagree",
		Run: func(r *R) {
			sp := r.w.Pkg("tars")
			if sp == nil {
				r.AnchorMissing("package tars")
				return
			}
			for _, fn := range r.w.Funcs(sp) {
				var wstores []ssa.Instruction
				eachInstr(fn, func(in ssa.Instruction) {
					if st, ok := in.(*ssa.Store); ok {
						if fv, base, ok := fieldAddrOf(st.Addr); ok && fv.Name() == "weightType" && strings.HasSuffix(typeID(base.Type()), "tars.endpointManager") {
							wstores = append(wstores, in)
						}
					}
				})
				if len(wstores) == 0 {
					continue
				}
				eachInstr(fn, func(in ssa.Instruction) {
					st, ok := in.(*ssa.Store)
					if !ok {
						return
					}
					fv, base, ok := fieldAddrOf(st.Addr)
					if !ok || !strings.HasSuffix(typeID(base.Type()), "tars.endpointManager") {
						return
					}
					pt, isPtr := fv.Type().Underlying().(*types.Pointer)
					if !isPtr || !strings.Contains(typeID(pt), "/tars/selector/") {
						return
					}
					bad := ""
					for _, leaf := range phiLeaves(st.Val) {
						c, isCall := leaf.(*ssa.Call)
						if !isCall || c.Call.StaticCallee() == nil || c.Call.StaticCallee().Name() != "New" || len(c.Call.Args) == 0 {
							bad = "the installed selector can be " + pathOf(leaf) + ", which is not constructed by this refresh"
							continue
						}
						mode, isMode := c.Call.Args[0].(*ssa.Call)
						if !isMode || mode.Call.StaticCallee() == nil || mode.Call.StaticCallee().Name() != "enableWeight" {
							bad = "the selector is constructed with weight mode " + pathOf(c.Call.Args[0]) + ", not enableWeight() of the refreshed set"
							continue
						}
						for _, ws := range wstores {
							if reaches(mode, ws) {
								bad = "weightType is assigned after enableWeight() was evaluated for the selector"
							}
						}
					}
					r.Check(bad == "", fname(fn), "selector "+fv.Name()+" rebuilt with the current weight mode", in.Pos(), "= New(enableWeight(), ...) evaluated after weightType is set", "%s: a client that lived through a change of the weight mode routes differently from one that starts with the same set", bad)
				})
			}
		}})
}

// ---- bit-level comparison of ring key expressions (used when the structural comparison fails) ----

// symKeySet renders the ring key `key` for every value of the constant-bounded loop counter it depends
// on, bit by bit: each of the 32 bits is 0, 1 or an atom "<source>[i].b" (bit b of byte i of the array
// the key is assembled from). Two key computations that produce the same set are the same function of
// the digest, whatever the loop stride, masks or operand order used to write them.
func symKeySet(key ssa.Value) (map[string]bool, bool) {
	// the loop counters the key depends on
	var phis []*ssa.Phi
	seen := map[ssa.Value]bool{}
	var find func(v ssa.Value, d int)
	find = func(v ssa.Value, d int) {
		if v == nil || seen[v] || d > 24 {
			return
		}
		seen[v] = true
		switch x := v.(type) {
		case *ssa.Phi:
			phis = append(phis, x)
		case *ssa.BinOp:
			find(x.X, d+1)
			find(x.Y, d+1)
		case *ssa.UnOp:
			find(x.X, d+1)
		case *ssa.Convert:
			find(x.X, d+1)
		case *ssa.IndexAddr:
			find(x.Index, d+1)
		case *ssa.Index:
			find(x.Index, d+1)
		}
	}
	find(key, 0)
	if len(phis) != 1 {
		return nil, false
	}
	phi := phis[0]
	// iteration space: start, step constants; header condition phi < / <= const
	var start, step int64
	haveStart, haveStep := false, false
	for _, e := range phi.Edges {
		if bo, ok := e.(*ssa.BinOp); ok && bo.X == ssa.Value(phi) && (bo.Op == token.ADD || bo.Op == token.SUB) {
			if k, ok := constInt(bo.Y); ok {
				step, haveStep = k, true
				if bo.Op == token.SUB {
					step = -k
				}
				continue
			}
		}
		if k, ok := constInt(e); ok {
			start, haveStart = k, true
		}
	}
	iff, ok := phi.Block().Instrs[len(phi.Block().Instrs)-1].(*ssa.If)
	if !ok || !haveStart || !haveStep || step == 0 {
		return nil, false
	}
	cond, ok := iff.Cond.(*ssa.BinOp)
	if !ok || cond.X != ssa.Value(phi) {
		return nil, false
	}
	bound, ok := constInt(cond.Y)
	if !ok {
		return nil, false
	}
	holds := func(v int64) bool {
		switch cond.Op {
		case token.LSS:
			return v < bound
		case token.LEQ:
			return v <= bound
		case token.GTR:
			return v > bound
		case token.GEQ:
			return v >= bound
		case token.NEQ:
			return v != bound
		}
		return false
	}
	var evalInt func(v ssa.Value, k int64) (int64, bool)
	evalInt = func(v ssa.Value, k int64) (int64, bool) {
		switch x := v.(type) {
		case *ssa.Const:
			return constInt(x)
		case *ssa.Phi:
			if x == phi {
				return k, true
			}
		case *ssa.Convert:
			return evalInt(x.X, k)
		case *ssa.BinOp:
			a, ok1 := evalInt(x.X, k)
			b, ok2 := evalInt(x.Y, k)
			if ok1 && ok2 {
				switch x.Op {
				case token.ADD:
					return a + b, true
				case token.SUB:
					return a - b, true
				case token.MUL:
					return a * b, true
				}
			}
		}
		return 0, false
	}
	type bits [32]string
	zero := func() bits {
		var b bits
		for i := range b {
			b[i] = "0"
		}
		return b
	}
	var sym func(v ssa.Value, k int64, d int) (bits, bool)
	sym = func(v ssa.Value, k int64, d int) (bits, bool) {
		if d > 24 {
			return bits{}, false
		}
		switch x := v.(type) {
		case *ssa.Const:
			c, ok := constInt(x)
			if !ok {
				return bits{}, false
			}
			b := zero()
			for i := 0; i < 32; i++ {
				if c>>uint(i)&1 == 1 {
					b[i] = "1"
				}
			}
			return b, true
		case *ssa.Convert:
			in, ok := sym(x.X, k, d+1)
			if !ok {
				return bits{}, false
			}
			// zero-extension from the source width (only unsigned sources occur here)
			w := 32
			if bt, ok := x.X.Type().Underlying().(*types.Basic); ok {
				switch bt.Kind() {
				case types.Uint8:
					w = 8
				case types.Uint16:
					w = 16
				case types.Int8, types.Int16, types.Int32, types.Int, types.Int64:
					return bits{}, false
				}
			}
			for i := w; i < 32; i++ {
				in[i] = "0"
			}
			return in, true
		case *ssa.UnOp:
			if x.Op != token.MUL {
				return bits{}, false
			}
			ia, ok := x.X.(*ssa.IndexAddr)
			if !ok {
				return bits{}, false
			}
			idx, ok := evalInt(ia.Index, k)
			if !ok {
				return bits{}, false
			}
			src := "buf"
			if al, ok := ia.X.(*ssa.Alloc); ok {
				if sv, ok := singleStore(al); ok && sv != nil {
					if c, ok := sv.(*ssa.Call); ok {
						src = funcID(calleeObj(&c.Call))
					}
				}
			}
			b := zero()
			for i := 0; i < 8; i++ {
				b[i] = fmt.Sprintf("%s[%d].%d", src, idx, i)
			}
			return b, true
		case *ssa.BinOp:
			switch x.Op {
			case token.SHL, token.SHR:
				in, ok := sym(x.X, k, d+1)
				n, ok2 := evalInt(x.Y, k)
				if !ok || !ok2 || n < 0 || n > 31 {
					return bits{}, false
				}
				out := zero()
				for i := 0; i < 32; i++ {
					j := i + int(n)
					if x.Op == token.SHR {
						j = i - int(n)
					}
					if j >= 0 && j < 32 {
						out[j] = in[i]
					}
				}
				return out, true
			case token.OR, token.AND, token.XOR, token.ADD:
				a, ok1 := sym(x.X, k, d+1)
				b, ok2 := sym(x.Y, k, d+1)
				if !ok1 || !ok2 {
					return bits{}, false
				}
				out := zero()
				for i := 0; i < 32; i++ {
					p, q := a[i], b[i]
					if p > q {
						p, q = q, p
					}
					switch x.Op {
					case token.OR, token.XOR, token.ADD:
						switch {
						case p == "0":
							out[i] = q
						case x.Op == token.OR && (p == "1" || q == "1"):
							out[i] = "1"
						case x.Op == token.OR && p == q:
							out[i] = p
						default:
							if x.Op == token.ADD {
								return bits{}, false // carries: not bit-wise
							}
							out[i] = "(" + p + x.Op.String() + q + ")"
						}
					case token.AND:
						switch {
						case p == "0" || q == "0":
							out[i] = "0"
						case p == "1":
							out[i] = q
						case q == "1":
							out[i] = p
						case p == q:
							out[i] = p
						default:
							out[i] = "(" + p + "&" + q + ")"
						}
					}
				}
				return out, true
			}
		}
		return bits{}, false
	}
	out := map[string]bool{}
	n := 0
	for k := start; holds(k) && n < 64; k, n = k+step, n+1 {
		b, ok := sym(key, k, 0)
		if !ok {
			return nil, false
		}
		out[strings.Join(b[:], ",")] = true
	}
	return out, n > 0 && n < 64
}
