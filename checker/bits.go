package main

import (
	"fmt"
	"go/token"
	"go/types"
	"strings"

	"golang.org/x/tools/go/ssa"
)

// A11: known-bits / bit-provenance domain for byte values.
// A cell is: '0', '1', an input bit (src value + bit index) or top.

type bitCell struct {
	k   byte // '0', '1', 'i' (input), 'T' (top)
	src ssa.Value
	bit int
}

type bitVec [8]bitCell // index 0 = least significant bit

func topVec() bitVec {
	var v bitVec
	for i := range v {
		v[i] = bitCell{k: 'T'}
	}
	return v
}

func constVec(c uint64) bitVec {
	var v bitVec
	for i := range v {
		if c>>uint(i)&1 == 1 {
			v[i] = bitCell{k: '1'}
		} else {
			v[i] = bitCell{k: '0'}
		}
	}
	return v
}

func inputVec(src ssa.Value, known iset) bitVec {
	var v bitVec
	// high bits known zero from the interval
	var max int64 = 255
	if len(known) > 0 {
		max = known[len(known)-1].hi
		if known[0].lo < 0 {
			max = 255
		}
	}
	for i := range v {
		if max < (1 << uint(i)) {
			v[i] = bitCell{k: '0'}
		} else {
			v[i] = bitCell{k: 'i', src: src, bit: i}
		}
	}
	return v
}

func (v bitVec) String(names map[ssa.Value]string) string {
	var parts []string
	for i := 7; i >= 0; i-- {
		c := v[i]
		switch c.k {
		case 'i':
			n := names[c.src]
			if n == "" {
				n = c.src.Name()
			}
			parts = append(parts, fmt.Sprintf("%s%d", n, c.bit))
		default:
			parts = append(parts, string(c.k))
		}
	}
	return "[" + strings.Join(parts, " ") + "]"
}

func (v bitVec) equal(w bitVec) bool {
	for i := range v {
		if v[i].k != w[i].k {
			return false
		}
		if v[i].k == 'i' && (v[i].src != w[i].src || v[i].bit != w[i].bit) {
			return false
		}
		if v[i].k == 'T' {
			return false
		}
	}
	return true
}

type bitEnv struct {
	inputs map[ssa.Value]iset // values treated as inputs, with the interval known on this path
}

// eval computes the abstract byte of v. Only byte-typed (uint8) expressions are supported.
func (e *bitEnv) eval(v ssa.Value, depth int) bitVec {
	if depth > 16 {
		return topVec()
	}
	if known, ok := e.inputs[v]; ok {
		return inputVec(v, known)
	}
	if c, ok := constInt(v); ok {
		return constVec(uint64(c))
	}
	switch x := v.(type) {
	case *ssa.Convert:
		if b, ok := x.X.Type().Underlying().(*types.Basic); ok && b.Kind() == types.Uint8 {
			return e.eval(x.X, depth+1)
		}
		return topVec()
	case *ssa.BinOp:
		switch x.Op {
		case token.SHL:
			if n, ok := constInt(x.Y); ok {
				a := e.eval(x.X, depth+1)
				var r bitVec
				for i := range r {
					j := i - int(n)
					if j < 0 {
						r[i] = bitCell{k: '0'}
					} else {
						r[i] = a[j]
					}
				}
				return r
			}
		case token.SHR:
			if n, ok := constInt(x.Y); ok {
				a := e.eval(x.X, depth+1)
				var r bitVec
				for i := range r {
					j := i + int(n)
					if j > 7 {
						r[i] = bitCell{k: '0'}
					} else {
						r[i] = a[j]
					}
				}
				return r
			}
		case token.AND, token.OR:
			a := e.eval(x.X, depth+1)
			b := e.eval(x.Y, depth+1)
			var r bitVec
			for i := range r {
				r[i] = combine(x.Op, a[i], b[i])
			}
			return r
		}
	}
	return topVec()
}

func combine(op token.Token, a, b bitCell) bitCell {
	if op == token.AND {
		if a.k == '0' || b.k == '0' {
			return bitCell{k: '0'}
		}
		if a.k == '1' {
			return b
		}
		if b.k == '1' {
			return a
		}
	} else {
		if a.k == '1' || b.k == '1' {
			return bitCell{k: '1'}
		}
		if a.k == '0' {
			return b
		}
		if b.k == '0' {
			return a
		}
	}
	if a.k == 'i' && b.k == 'i' && a.src == b.src && a.bit == b.bit {
		return a
	}
	return bitCell{k: 'T'}
}
