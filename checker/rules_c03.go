package main

import (
	"fmt"
	"go/ast"
	"go/token"
	"go/types"
	"reflect"
	"sort"
	"strconv"
	"strings"

	"golang.org/x/tools/go/packages"
)

type genMember struct {
	name    string
	goType  types.Type
	tag     int64
	require bool
	wire    string // name in the tars tag
}

type genStruct struct {
	pkg     *packages.Package
	name    string
	nt      *types.Named
	members []genMember
	methods map[string]*ast.FuncDecl
	pos     token.Pos
}

// resPackages: the generated binding packages with syntax.
func (w *World) resPackages() []*packages.Package {
	var out []*packages.Package
	for path, p := range w.Pkgs {
		if strings.HasPrefix(path, modPath+"/tars/protocol/res/") {
			out = append(out, p)
		}
	}
	sort.Slice(out, func(i, j int) bool { return out[i].PkgPath < out[j].PkgPath })
	return out
}

// generatedStructs: struct types with tars tags and generated codec methods.
func generatedStructs(w *World) []*genStruct {
	var out []*genStruct
	for _, p := range w.resPackages() {
		methods := map[string]map[string]*ast.FuncDecl{}
		for _, f := range p.Syntax {
			for _, d := range f.Decls {
				fd, ok := d.(*ast.FuncDecl)
				if !ok || fd.Recv == nil || len(fd.Recv.List) != 1 {
					continue
				}
				rt := fd.Recv.List[0].Type
				if se, ok := rt.(*ast.StarExpr); ok {
					rt = se.X
				}
				id, ok := rt.(*ast.Ident)
				if !ok {
					continue
				}
				if methods[id.Name] == nil {
					methods[id.Name] = map[string]*ast.FuncDecl{}
				}
				methods[id.Name][fd.Name.Name] = fd
			}
		}
		scope := p.Types.Scope()
		names := scope.Names()
		sort.Strings(names)
		for _, n := range names {
			tn, ok := scope.Lookup(n).(*types.TypeName)
			if !ok {
				continue
			}
			nt, ok := tn.Type().(*types.Named)
			if !ok {
				continue
			}
			st, ok := nt.Underlying().(*types.Struct)
			if !ok || methods[n] == nil || methods[n]["WriteTo"] == nil || methods[n]["ReadFrom"] == nil {
				continue
			}
			gs := &genStruct{pkg: p, name: n, nt: nt, methods: methods[n], pos: tn.Pos()}
			for i := 0; i < st.NumFields(); i++ {
				tag := reflect.StructTag(st.Tag(i)).Get("tars")
				if tag == "" {
					continue
				}
				m := genMember{name: st.Field(i).Name(), goType: st.Field(i).Type(), tag: -1}
				for j, part := range strings.Split(tag, ",") {
					if j == 0 {
						m.wire = part
					}
					if v, ok := strings.CutPrefix(part, "tag:"); ok {
						m.tag, _ = strconv.ParseInt(v, 10, 64)
					}
					if v, ok := strings.CutPrefix(part, "require:"); ok {
						m.require = v == "true"
					}
				}
				gs.members = append(gs.members, m)
			}
			out = append(out, gs)
		}
	}
	return out
}

// bodyFields parses the codec events of a generated method body. Leading calls such as
// st.ResetDefault() and the trailing `return nil` are allowed around the fields.
func bodyFields(p *packages.Package, fd *ast.FuncDecl, side string) ([]cfield, *shapeParser, []ast.Stmt) {
	sp := &shapeParser{info: p.TypesInfo, side: side}
	var stmts []ast.Stmt
	for _, s := range fd.Body.List {
		if es, ok := s.(*ast.ExprStmt); ok {
			if call, ok := es.X.(*ast.CallExpr); ok {
				if _, name := selCall(call); name == "ResetDefault" {
					continue
				}
			}
		}
		stmts = append(stmts, s)
	}
	c := &cursor{stmts: stmts}
	var fs []cfield
	if side == "W" {
		fs = sp.parseWriterFields(c)
	} else {
		fs = sp.parseReaderFields(c)
	}
	var rest []ast.Stmt
	for s := c.peek(); s != nil; s = c.peek() {
		c.next()
		if _, isRet := s.(*ast.ReturnStmt); isRet {
			continue
		}
		rest = append(rest, s)
	}
	return fs, sp, rest
}

// resetDefaults: field -> literal assigned by ResetDefault (and the set of nested resets).
func resetDefaults(p *packages.Package, fd *ast.FuncDecl) (map[string]string, map[string]bool) {
	vals, nested := map[string]string{}, map[string]bool{}
	if fd == nil {
		return vals, nested
	}
	sp := &shapeParser{info: p.TypesInfo}
	for _, s := range fd.Body.List {
		switch x := s.(type) {
		case *ast.AssignStmt:
			if len(x.Lhs) == 1 && strings.HasPrefix(exprStr(x.Lhs[0]), "st.") {
				vals[strings.TrimPrefix(exprStr(x.Lhs[0]), "st.")] = sp.litStr(x.Rhs[0])
			}
		case *ast.ExprStmt:
			if call, ok := x.X.(*ast.CallExpr); ok {
				if recv, name := selCall(call); name == "ResetDefault" && recv != nil {
					nested[strings.TrimPrefix(exprStr(recv), "st.")] = true
				}
			}
		}
	}
	return vals, nested
}

func zeroLit(t types.Type) string {
	if b, ok := t.Underlying().(*types.Basic); ok {
		switch {
		case b.Info()&types.IsString != 0:
			return `""`
		case b.Info()&types.IsBoolean != 0:
			return "false"
		case b.Info()&types.IsNumeric != 0:
			return "0"
		}
	}
	return "?"
}

func init() {
	register(&Rule{ID: "C03.R1", Props: []string{"C03", "C06"}, Min: 200, Needs: NeedMain,
		Doc: "schema ⇄ writer ⇄ reader, per member: the shape (Prim(T) | Struct | SimpleList | List(e) | Map(k,v), elements tag 0, map key 0 / value 1) and tag under which WriteTo writes a member, the shape and tag under which ReadFrom reads it, the member's Go type and its `tars:\"…,tag:N,require:B\"` struct tag all agree; the reader passes require=B; vector readers reject every wire type other than LIST/SimpleList",
		Run: func(r *R) {
			for _, gs := range generatedStructs(r.w) {
				where := relPkg(gs.pkg.Types) + "." + gs.name
				wf, wp, wrest := bodyFields(gs.pkg, gs.methods["WriteTo"], "W")
				rf, rp, rrest := bodyFields(gs.pkg, gs.methods["ReadFrom"], "R")
				for i, e := range wp.errs {
					r.Undecided(where, "WriteTo", wp.pos[i], "%s", e)
				}
				for i, e := range rp.errs {
					r.Undecided(where, "ReadFrom", rp.pos[i], "%s", e)
				}
				for _, s := range wrest {
					r.Undecided(where, "WriteTo statement", s.Pos(), "statement not recognised as a codec event (hand-edited binding?)")
				}
				for _, s := range rrest {
					r.Undecided(where, "ReadFrom statement", s.Pos(), "statement not recognised as a codec event (hand-edited binding?)")
				}
				wBy, rBy := map[string]cfield{}, map[string]cfield{}
				for _, f := range wf {
					wBy[strings.TrimPrefix(f.expr, "st.")] = f
				}
				for _, f := range rf {
					rBy[strings.TrimPrefix(f.expr, "st.")] = f
				}
				for _, m := range gs.members {
					want := typeShape(m.goType)
					w, okW := wBy[m.name]
					rd, okR := rBy[m.name]
					if !okW {
						r.Bad(where, "write "+m.name, gs.methods["WriteTo"].Pos(), "member %s (tag %d) is never written by WriteTo", m.name, m.tag)
					} else {
						r.Check(w.tag == m.tag && w.shape == want, where, "write "+m.name, w.pos, "tag %d, %s", "member %s is written as tag %d %s; its schema (struct tag and Go type) says tag "+fmt.Sprint(m.tag)+" "+want+": the bytes are not what the IDL prescribes / the reader looks elsewhere", map[bool]any{true: w.tag, false: m.name}[w.tag == m.tag && w.shape == want], map[bool]any{true: w.shape, false: w.tag}[w.tag == m.tag && w.shape == want], w.shape)
					}
					if !okR {
						r.Bad(where, "read "+m.name, gs.methods["ReadFrom"].Pos(), "member %s (tag %d) is never read by ReadFrom", m.name, m.tag)
					} else {
						okk := rd.tag == m.tag && readerAccepts(want, rd) && rd.require == fmt.Sprint(m.require)
						r.Check(okk, where, "read "+m.name, rd.pos, "tag %d, %s, require=%s", "member %s is read as tag %d %s require=%s; its schema says tag "+fmt.Sprint(m.tag)+" "+want+" require="+fmt.Sprint(m.require), map[bool]any{true: rd.tag, false: m.name}[okk], map[bool]any{true: rd.shape, false: rd.tag}[okk], map[bool]any{true: rd.require, false: rd.shape}[okk], rd.require)
					}
				}
				// nothing written/read that is not a member
				for name := range wBy {
					found := false
					for _, m := range gs.members {
						if m.name == name {
							found = true
						}
					}
					if !found {
						r.Bad(where, "write "+name, wBy[name].pos, "WriteTo writes %s, which is not a schema member", name)
					}
				}
			}
		}})

	register(&Rule{ID: "C03.R2", Props: []string{"C03"}, Min: 40, Needs: NeedMain,
		Doc: "order and multiplicity: in WriteTo and in ReadFrom every member appears exactly once and tags are strictly ascending (the reader only scans forward)",
		Run: func(r *R) {
			for _, gs := range generatedStructs(r.w) {
				where := relPkg(gs.pkg.Types) + "." + gs.name
				for _, side := range []string{"W", "R"} {
					name := map[string]string{"W": "WriteTo", "R": "ReadFrom"}[side]
					fs, _, _ := bodyFields(gs.pkg, gs.methods[name], side)
					asc := len(fs) == len(gs.members)
					for i := 1; i < len(fs); i++ {
						if fs[i].tag <= fs[i-1].tag {
							asc = false
						}
					}
					var tags []int64
					for _, f := range fs {
						tags = append(tags, f.tag)
					}
					r.Check(asc, where, name+" tag order", gs.methods[name].Pos(), "%d members, tags strictly ascending %v", "%s handles %d fields for %d members with tags %v: tags must be strictly ascending, each member exactly once (a member out of order is never found by a forward-scanning reader)", map[bool]any{true: len(fs), false: name}[asc], map[bool]any{true: tags, false: len(fs)}[asc], len(gs.members), tags)
				}
			}
		}})

	register(&Rule{ID: "C03.R3", Props: []string{"C03", "C04"}, Min: 100, Needs: NeedMain,
		Doc: "presence: required members are written unconditionally; an optional scalar is skipped exactly when it equals D, and D is the value ResetDefault leaves in that field (its assignment, or the zero value); optional containers are skipped exactly when empty; struct members are always written",
		Run: func(r *R) {
			for _, gs := range generatedStructs(r.w) {
				where := relPkg(gs.pkg.Types) + "." + gs.name
				fs, _, _ := bodyFields(gs.pkg, gs.methods["WriteTo"], "W")
				defs, _ := resetDefaults(gs.pkg, gs.methods["ResetDefault"])
				by := map[string]cfield{}
				for _, f := range fs {
					by[strings.TrimPrefix(f.expr, "st.")] = f
				}
				for _, m := range gs.members {
					f, ok := by[m.name]
					if !ok {
						continue
					}
					shape := typeShape(m.goType)
					switch {
					case m.require || shape == "Struct":
						r.Check(f.guard == "", where, "presence "+m.name, f.pos, "always written", "%s member %s is written only under a condition (%s): a decoder that requires it fails on the skipped value", map[bool]string{true: "required", false: "struct"}[m.require], m.name, f.guard)
					case strings.HasPrefix(shape, "Prim("):
						d, has := defs[m.name]
						if !has {
							d = zeroLit(m.goType)
						}
						want := "ne:" + d + "|st." + m.name
						r.Check(f.guard == want || f.guard == "", where, "presence "+m.name, f.pos, "skipped exactly when equal to its default %s (or always written)", "optional member %s is written under guard %q; it must be skipped exactly when it equals the reader's default %s (else a value equal to the writer's constant but different from the reader's default does not round-trip)", map[bool]any{true: d, false: m.name}[f.guard == want || f.guard == ""], f.guard, d)
					default:
						want := "len>0|st." + m.name
						r.Check(f.guard == want || f.guard == "", where, "presence "+m.name, f.pos, "skipped exactly when empty (or always written)", "optional container %s is written under guard %q instead of len(...) > 0", m.name, f.guard)
					}
				}
			}
		}})

	register(&Rule{ID: "C03.R5", Props: []string{"C03", "C04"}, Min: 40, Needs: NeedMain,
		Doc: "block framing: WriteBlock = Head(StructBegin, tag), WriteTo, Head(StructEnd, 0); ReadBlock = SkipTo(StructBegin, tag, require), ReadFrom, SkipToStructEnd",
		Run: func(r *R) {
			callSeq := func(fd *ast.FuncDecl) []string {
				var out []string
				ast.Inspect(fd.Body, func(n ast.Node) bool {
					call, ok := n.(*ast.CallExpr)
					if !ok {
						return true
					}
					_, name := selCall(call)
					switch name {
					case "WriteHead":
						out = append(out, "WriteHead("+exprStr(call.Args[0])+","+exprStr(call.Args[1])+")")
					case "WriteTo", "ReadFrom", "SkipToStructEnd":
						out = append(out, name)
					case "SkipTo":
						out = append(out, "SkipTo("+exprStr(call.Args[0])+","+exprStr(call.Args[1])+","+exprStr(call.Args[2])+")")
					}
					return true
				})
				return out
			}
			for _, gs := range generatedStructs(r.w) {
				where := relPkg(gs.pkg.Types) + "." + gs.name
				if fd := gs.methods["WriteBlock"]; fd != nil {
					got := strings.Join(callSeq(fd), ";")
					r.Check(got == "WriteHead(codec.StructBegin,tag);WriteTo;WriteHead(codec.StructEnd,0)", where, "WriteBlock framing", fd.Pos(), "StructBegin(tag), members, StructEnd(0)", "WriteBlock emits %s", got)
				} else {
					r.Bad(where, "WriteBlock framing", gs.pos, "no WriteBlock method")
				}
				if fd := gs.methods["ReadBlock"]; fd != nil {
					got := strings.Join(callSeq(fd), ";")
					r.Check(got == "SkipTo(codec.StructBegin,tag,require);ReadFrom;SkipToStructEnd", where, "ReadBlock framing", fd.Pos(), "SkipTo(StructBegin, tag, require), members, SkipToStructEnd", "ReadBlock performs %s", got)
				} else {
					r.Bad(where, "ReadBlock framing", gs.pos, "no ReadBlock method")
				}
			}
		}})
}

func init() {
	register(&Rule{ID: "C03.R6", Props: []string{"C03", "C16", "C04"}, Min: 150, Needs: NeedMain,
		Doc: "IDL ⇄ binding: every struct of the framework's .tars files has a Go struct whose members carry the IDL's tag, require flag, wire shape (IDL→Go type map) and default (what ResetDefault assigns); every IDL enum member and constant has the Go constant of the same value; every IDL interface function has proxy methods and a Dispatch case with the IDL's parameter order and out flags (catches a self-consistent edit of a binding that the writer/reader agreement cannot see)",
		Run: func(r *R) {
			mods, err := loadIDLs(r.w.Repo)
			if err != nil {
				r.Bad("tars/protocol/res", "IDL files", token.NoPos, "cannot read the IDL files: %v", err)
				return
			}
			if len(mods) < 10 {
				r.Bad("tars/protocol/res", "IDL files", token.NoPos, "only %d .tars files found", len(mods))
			}
			enumNames := map[string]bool{}
			for _, m := range mods {
				for _, e := range m.enums {
					enumNames[e.name] = true
				}
			}
			isEnum := func(n string) bool { return enumNames[n] }
			gsBy := map[string]*genStruct{}
			for _, gs := range generatedStructs(r.w) {
				gsBy[gs.pkg.Types.Name()+"."+gs.name] = gs
			}
			for _, m := range mods {
				pkgName := strings.ToLower(m.name)
				var pkg *packages.Package
				for _, p := range r.w.resPackages() {
					if p.Types.Name() == pkgName {
						pkg = p
					}
				}
				where := "IDL " + m.file
				if pkg == nil {
					r.Bad(where, "module "+m.name, token.NoPos, "no binding package %s for module %s", pkgName, m.name)
					continue
				}
				for _, s := range m.structs {
					gs := gsBy[pkgName+"."+s.name]
					if gs == nil {
						r.Bad(where, "struct "+s.name, token.NoPos, "the IDL struct %s has no generated Go struct", s.name)
						continue
					}
					defs, _ := resetDefaults(gs.pkg, gs.methods["ResetDefault"])
					byName := map[string]genMember{}
					for _, gm := range gs.members {
						byName[gm.name] = gm
					}
					for _, mb := range s.members {
						gm, ok := byName[upperFirst(mb.name)]
						cons := s.name + "." + mb.name
						if !ok {
							r.Bad(where, cons, gs.pos, "IDL member %s has no field in the Go struct", mb.name)
							continue
						}
						want := idlShape(mb.typ, isEnum)
						got := typeShape(gm.goType)
						okk := gm.tag == mb.tag && gm.require == mb.require && got == want && gm.wire == mb.name
						r.Check(okk, where, cons, gs.pos, "tag %d require=%v %s", "the binding has %s tag %d require=%v %s, the IDL says tag "+fmt.Sprint(mb.tag)+" require="+fmt.Sprint(mb.require)+" "+want+": the binding no longer interoperates with other Tars peers", map[bool]any{true: gm.tag, false: gm.wire}[okk], map[bool]any{true: gm.require, false: gm.tag}[okk], map[bool]any{true: got, false: gm.require}[okk], got)
						if mb.hasDef {
							d, has := defs[gm.name]
							wantD := normDefault(mb.def)
							r.Check(has && normDefault(d) == wantD, where, cons+" default", gs.pos, "ResetDefault assigns %s", "ResetDefault assigns %q to %s, the IDL default is %s: an absent optional field decodes to the wrong value", map[bool]any{true: d, false: d}[true], gm.name, mb.def)
						}
					}
					if len(gs.members) != len(s.members) {
						r.Bad(where, "struct "+s.name+" member count", gs.pos, "the Go struct has %d tagged members, the IDL struct %d", len(gs.members), len(s.members))
					}
				}
				scope := pkg.Types.Scope()
				for _, e := range m.enums {
					for _, n := range e.order {
						obj, ok := scope.Lookup(e.name + "_" + n).(*types.Const)
						if !ok {
							r.Bad(where, "enum "+e.name+"."+n, token.NoPos, "no Go constant %s_%s", e.name, n)
							continue
						}
						r.Check(obj.Val().ExactString() == fmt.Sprint(e.members[n]), where, "enum "+e.name+"."+n, obj.Pos(), "= %d", "Go constant is %s, IDL value is %d", map[bool]any{true: e.members[n], false: obj.Val().ExactString()}[obj.Val().ExactString() == fmt.Sprint(e.members[n])], e.members[n])
					}
				}
				for _, c := range m.consts {
					obj, ok := scope.Lookup(c.name).(*types.Const)
					if !ok {
						r.Bad(where, "const "+c.name, token.NoPos, "no Go constant %s", c.name)
						continue
					}
					r.Check(normDefault(obj.Val().ExactString()) == normDefault(c.value), where, "const "+c.name, obj.Pos(), "= %s", "Go constant is %s, IDL value is %s", map[bool]any{true: c.value, false: obj.Val().ExactString()}[normDefault(obj.Val().ExactString()) == normDefault(c.value)], c.value)
				}
				for _, it := range m.interfaces {
					tn, ok := scope.Lookup(it.name).(*types.TypeName)
					if !ok {
						r.Bad(where, "interface "+it.name, token.NoPos, "no Go proxy type %s", it.name)
						continue
					}
					ms := types.NewMethodSet(types.NewPointer(tn.Type()))
					for _, f := range it.funcs {
						sel := ms.Lookup(pkg.Types, upperFirst(f.name)+"WithContext")
						cons := it.name + "." + f.name
						if sel == nil {
							r.Bad(where, cons, tn.Pos(), "no proxy method %sWithContext", upperFirst(f.name))
							continue
						}
						sig := sel.Type().(*types.Signature)
						// params: ctx, args..., opts...
						okk := sig.Params().Len() == len(f.args)+2
						detail := ""
						if okk {
							for i, a := range f.args {
								pt := sig.Params().At(i + 1).Type()
								_, isPtr := pt.(*types.Pointer)
								elem := pt
								if isPtr {
									elem = pt.(*types.Pointer).Elem()
								}
								want := idlShape(a.typ, isEnum)
								// structs are passed by pointer also for in parameters
								if typeShape(elem) != want || (a.out && !isPtr) || (!a.out && isPtr && want != "Struct") {
									okk = false
									detail = fmt.Sprintf("parameter %d is %s (out=%v), IDL says %s (out=%v)", i+1, pt, isPtr, want, a.out)
								}
							}
						} else {
							detail = fmt.Sprintf("%d parameters, IDL has %d", sig.Params().Len()-2, len(f.args))
						}
						r.Check(okk, where, cons, sel.Obj().Pos(), "proxy signature follows the IDL (%d parameters)", "proxy signature differs from the IDL: %s", map[bool]any{true: len(f.args), false: detail}[okk])
					}
				}
			}
		}})
}

func normDefault(s string) string {
	s = strings.TrimSpace(s)
	if v, err := strconv.ParseInt(s, 0, 64); err == nil {
		return strconv.FormatInt(v, 10)
	}
	if v, err := strconv.ParseFloat(s, 64); err == nil {
		return strconv.FormatFloat(v, 'g', -1, 64)
	}
	return s
}
