package main

import (
	"fmt"
	"go/constant"
	"go/token"
	"go/types"
	"strings"

	"golang.org/x/tools/go/ssa"
)

// A12: EOF-consistency. Assume the input is exhausted: the "current token/byte" equals the EOF
// constant at every program point. Branch conditions that read the current token are folded with
// that constant; everything else is unknown (both edges feasible). A loop is EOF-consistent iff no
// feasible path leads from its header back to its header.

type eofCtx struct {
	w       *World
	curPath func(v ssa.Value) bool // does v denote the current token kind / byte?
	eof     constant.Value
	memo    map[string]int // 0 computing, 1 returns-at-EOF, 2 does-not-return
	nret    map[*ssa.Function]int
	adv     map[*ssa.Function]int
	isAdv   func(f *ssa.Function) bool // primitive advance functions
}

type env map[ssa.Value]constant.Value

// evalConst evaluates v to a constant under the EOF assumption and parameter environment.
func (c *eofCtx) evalConst(v ssa.Value, e env, depth int) (constant.Value, bool) {
	if depth > 8 {
		return nil, false
	}
	if k, ok := v.(*ssa.Const); ok && k.Value != nil {
		return k.Value, true
	}
	if cv, ok := e[v]; ok {
		return cv, true
	}
	if c.curPath(v) {
		return c.eof, true
	}
	switch x := v.(type) {
	case *ssa.Convert:
		if cv, ok := c.evalConst(x.X, e, depth+1); ok && cv.Kind() == constant.Int {
			return cv, true
		}
	case *ssa.ChangeType:
		return c.evalConst(x.X, e, depth+1)
	case *ssa.UnOp:
		if x.Op == token.NOT {
			if cv, ok := c.evalConst(x.X, e, depth+1); ok && cv.Kind() == constant.Bool {
				return constant.MakeBool(!constant.BoolVal(cv)), true
			}
		}
	case *ssa.BinOp:
		a, ok1 := c.evalConst(x.X, e, depth+1)
		b, ok2 := c.evalConst(x.Y, e, depth+1)
		if ok1 && ok2 {
			switch x.Op {
			case token.EQL, token.NEQ, token.LSS, token.LEQ, token.GTR, token.GEQ:
				if a.Kind() == b.Kind() || (a.Kind() == constant.Int && b.Kind() == constant.Int) {
					return constant.MakeBool(constant.Compare(a, x.Op, b)), true
				}
			}
		}
	case *ssa.Call:
		// small pure predicate applied to evaluable arguments
		if sc := x.Call.StaticCallee(); sc != nil && sc.Blocks != nil && len(sc.Blocks) <= 12 && sc.Signature.Results().Len() == 1 {
			if bt, ok := sc.Signature.Results().At(0).Type().Underlying().(*types.Basic); ok && bt.Kind() == types.Bool {
				ne := env{}
				for i, p := range sc.Params {
					if i < len(x.Call.Args) {
						if cv, ok := c.evalConst(x.Call.Args[i], e, depth+1); ok {
							ne[p] = cv
						}
					}
				}
				if len(ne) == len(sc.Params) {
					return c.runPure(sc, ne, depth+1)
				}
			}
		}
	}
	return nil, false
}

// runPure executes a side-effect free function symbolically along decided branches, keeping the
// constants computed on the executed path (phis are resolved by the edge actually taken).
func (c *eofCtx) runPure(fn *ssa.Function, e env, depth int) (constant.Value, bool) {
	vals := env{}
	for k, v := range e {
		vals[k] = v
	}
	b := fn.Blocks[0]
	var prev *ssa.BasicBlock
	for steps := 0; steps < 64; steps++ {
		for _, in := range b.Instrs {
			switch x := in.(type) {
			case *ssa.Store, *ssa.MapUpdate, *ssa.Send, *ssa.Go, *ssa.Defer, *ssa.Panic:
				return nil, false
			case *ssa.Phi:
				if prev == nil {
					return nil, false
				}
				for i, p := range b.Preds {
					if p == prev {
						if cv, ok := c.evalConst(x.Edges[i], vals, depth+1); ok {
							vals[x] = cv
						}
					}
				}
			case ssa.Value:
				if cv, ok := c.evalConst(x, vals, depth+1); ok {
					vals[x] = cv
				} else if _, isCall := in.(*ssa.Call); isCall {
					return nil, false
				}
			}
		}
		switch t := b.Instrs[len(b.Instrs)-1].(type) {
		case *ssa.Return:
			return c.evalConst(t.Results[0], vals, depth+1)
		case *ssa.If:
			cv, ok := c.evalConst(t.Cond, vals, depth+1)
			if !ok || cv.Kind() != constant.Bool {
				return nil, false
			}
			prev = b
			if constant.BoolVal(cv) {
				b = b.Succs[0]
			} else {
				b = b.Succs[1]
			}
		case *ssa.Jump:
			prev = b
			b = b.Succs[0]
		default:
			return nil, false
		}
	}
	return nil, false
}

// feasibleSuccs returns the successors of b that are feasible at EOF.
func (c *eofCtx) feasibleSuccs(b *ssa.BasicBlock, e env) []*ssa.BasicBlock {
	if iff, ok := b.Instrs[len(b.Instrs)-1].(*ssa.If); ok {
		if cv, ok := c.evalConst(iff.Cond, e, 0); ok && cv.Kind() == constant.Bool {
			if constant.BoolVal(cv) {
				return b.Succs[:1]
			}
			return b.Succs[1:2]
		}
	}
	return b.Succs
}

// blockStops: executing b at EOF never reaches its terminator (a call that does not return).
func (c *eofCtx) blockStops(b *ssa.BasicBlock, e env) bool {
	for _, in := range b.Instrs {
		if _, ok := in.(*ssa.Panic); ok {
			return true
		}
		call, ok := in.(*ssa.Call)
		if !ok {
			continue
		}
		sc := call.Call.StaticCallee()
		if sc == nil {
			continue
		}
		if neverReturns(sc, c.nret) {
			return true
		}
		if sc.Blocks != nil && sc.Pkg == b.Parent().Pkg && !c.returnsAtEOF(sc, &call.Call, e) {
			return true
		}
	}
	return false
}

// returnsAtEOF: can a call of fn (with the constant arguments of this call) return normally when
// the input is exhausted?
func (c *eofCtx) returnsAtEOF(fn *ssa.Function, call *ssa.CallCommon, caller env) bool {
	ne := env{}
	key := fn.String()
	for i, p := range fn.Params {
		if i < len(call.Args) {
			if cv, ok := c.evalConst(call.Args[i], caller, 0); ok {
				ne[p] = cv
				key += fmt.Sprintf("|%d=%s", i, cv.ExactString())
			}
		}
	}
	if v, ok := c.memo[key]; ok {
		return v != 2 // in progress (0) → assume it may return (conservative for recursion)
	}
	c.memo[key] = 0
	seen := map[*ssa.BasicBlock]bool{}
	var walk func(b *ssa.BasicBlock) bool
	walk = func(b *ssa.BasicBlock) bool {
		if seen[b] {
			return false
		}
		seen[b] = true
		if c.blockStops(b, ne) {
			return false
		}
		if _, isRet := b.Instrs[len(b.Instrs)-1].(*ssa.Return); isRet {
			return true
		}
		for _, s := range c.feasibleSuccs(b, ne) {
			if walk(s) {
				return true
			}
		}
		return false
	}
	r := walk(fn.Blocks[0])
	if r {
		c.memo[key] = 1
	} else {
		c.memo[key] = 2
	}
	return r
}

// loopFeasibleAtEOF: is there a feasible path from the loop header around the loop back to it?
func (c *eofCtx) loopFeasibleAtEOF(l *natLoop) (bool, []int) {
	seen := map[*ssa.BasicBlock]bool{}
	var path []int
	var walk func(b *ssa.BasicBlock) bool
	walk = func(b *ssa.BasicBlock) bool {
		if c.blockStops(b, env{}) {
			return false
		}
		for _, s := range c.feasibleSuccs(b, env{}) {
			if !l.body[s] {
				continue
			}
			if s == l.head {
				path = append(path, b.Index)
				return true
			}
			if seen[s] {
				continue
			}
			seen[s] = true
			if walk(s) {
				path = append(path, b.Index)
				return true
			}
		}
		return false
	}
	ok := walk(l.head)
	return ok, path
}

// mustAdvance: every path from entry to a return of fn calls an advancing function.
func (c *eofCtx) mustAdvance(fn *ssa.Function) bool {
	if c.isAdv(fn) {
		return true
	}
	if v, ok := c.adv[fn]; ok {
		return v == 1
	}
	c.adv[fn] = 2
	if fn.Blocks == nil {
		return false
	}
	bad := reachFromEntryAvoiding(fn, isReturn, func(in ssa.Instruction) bool { return c.advances(in) })
	if bad == nil {
		c.adv[fn] = 1
		return true
	}
	return false
}

func (c *eofCtx) advances(in ssa.Instruction) bool {
	call, ok := in.(*ssa.Call)
	if !ok {
		return false
	}
	sc := call.Call.StaticCallee()
	if sc == nil {
		return false
	}
	if neverReturns(sc, c.nret) {
		return true // the path ends here
	}
	return c.mustAdvance(sc)
}

func pathEndsWith(v ssa.Value, suffixes ...string) bool {
	p := pathOf(v)
	for _, s := range suffixes {
		if p == s || strings.HasSuffix(p, s) {
			return true
		}
	}
	return false
}
