package main

import (
	"fmt"
	"go/token"
	"go/types"
	"strings"

	"golang.org/x/tools/go/ssa"
)

// C05.R4-style rule restricted to one package: every index / slice operation on a slice or string
// must be discharged by a recognised dominating guard, or be listed as a justified exception.

type indexSite struct {
	in    ssa.Instruction
	expr  string // rendered expression, e.g. "kv[1]" or "endpoint[0:3]"
	safe  bool
	why   string
	param bool   // the indexed value derives from a string/slice parameter (input)
	shape string // the expression with the indexed value written as $ and its type in front: "[]*T|$[(len($)-1)]"
}

// isLenOf2: v is len(y) with y the same value as x (identical SSA value, structurally equal, or the
// same access path).
func isLenOf2(v ssa.Value, x ssa.Value) bool {
	c, ok := v.(*ssa.Call)
	if !ok || builtinName(&c.Call) != "len" {
		return false
	}
	y := c.Call.Args[0]
	return y == x || strip(y, false) == strip(x, false) || sameValue(y, x) || pathOf(y) == pathOf(x)
}

func lenFactAtLeast(b *ssa.BasicBlock, xv ssa.Value, need int64) bool {
	for _, f := range facts(b) {
		c, ok := normFact(f)
		if !ok {
			continue
		}
		x, y, op := c.X, c.Y, c.Op
		if _, isC := constInt(x); isC {
			x, y, op = y, x, swapOp(op)
		}
		// s != "" is len(s) >= 1
		if need <= 1 && op == token.NEQ {
			sx, sy := x, y
			if e, isS := constString(sx); isS && e == "" {
				sx, sy = sy, sx
			}
			if e, isS := constString(sy); isS && e == "" {
				if sx == xv || strip(sx, false) == strip(xv, false) || sameValue(sx, xv) || pathOf(sx) == pathOf(xv) {
					return true
				}
			}
		}
		k, isK := constInt(y)
		if !isK || !isLenOf2(x, xv) {
			continue
		}
		switch op {
		case token.GTR:
			if k >= need-1 {
				return true
			}
		case token.GEQ:
			if k >= need {
				return true
			}
		case token.EQL:
			if k >= need {
				return true
			}
		case token.NEQ:
			if k == 0 && need <= 1 {
				return true
			}
		}
	}
	return false
}

// fromSplit: x is the result of strings.Split / SplitN / SplitAfter (always >= 1 element).
func fromSplit(x ssa.Value) bool {
	x = strip(x, false)
	if c, ok := x.(*ssa.Call); ok {
		id := funcID(calleeObj(&c.Call))
		return id == "strings.Split" || id == "strings.SplitN" || id == "strings.SplitAfter" || id == "strings.SplitAfterN"
	}
	if phi, ok := x.(*ssa.Phi); ok {
		for _, e := range phi.Edges {
			if !fromSplit(e) {
				return false
			}
		}
		return len(phi.Edges) > 0
	}
	return false
}

func indexBoundedByLen(b *ssa.BasicBlock, idx ssa.Value, xv ssa.Value) bool {
	// lengths known equal to len(x) by a dominating fact (`if len(a) != len(b) { return }`)
	same := func(v ssa.Value) bool {
		if isLenOf2(v, xv) {
			return true
		}
		for _, f := range facts(b) {
			c, ok := normFact(f)
			if !ok || c.Op != token.EQL {
				continue
			}
			if (isLenOf2(c.X, xv) && sameValue(c.Y, v)) || (isLenOf2(c.Y, xv) && sameValue(c.X, v)) {
				return true
			}
			if (isLenOf2(c.X, xv) && pathOf(c.Y) == pathOf(v)) || (isLenOf2(c.Y, xv) && pathOf(c.X) == pathOf(v)) {
				return true
			}
		}
		return false
	}
	for _, f := range facts(b) {
		c, ok := normFact(f)
		if !ok {
			continue
		}
		if c.X == idx && same(c.Y) && c.Op == token.LSS {
			return true
		}
		if c.Y == idx && same(c.X) && c.Op == token.GTR {
			return true
		}
	}
	// a count-down: i starts at len(x)-1 (or a length known equal), only ever decreases, and the
	// index is used under i >= 0
	if phi, ok := idx.(*ssa.Phi); ok {
		startOK, stepOK := false, true
		for _, e := range phi.Edges {
			if sub, isSub := e.(*ssa.BinOp); isSub && sub.Op == token.SUB {
				if k, isK := constInt(sub.Y); isK && k >= 1 {
					if sub.X == ssa.Value(phi) {
						continue // i -= k
					}
					if same(sub.X) {
						startOK = true // len - k
						continue
					}
				}
			}
			stepOK = false
		}
		if startOK && stepOK {
			for _, f := range facts(b) {
				c, ok := normFact(f)
				if !ok {
					continue
				}
				if k, isK := constInt(c.Y); isK && c.X == idx && ((c.Op == token.GEQ && k >= 0) || (c.Op == token.GTR && k >= -1)) {
					return true
				}
			}
		}
	}
	return false
}

// lenMinus: idx is len(x) - k → k.
func lenMinus(idx ssa.Value, xv ssa.Value) (int64, bool) {
	b, ok := idx.(*ssa.BinOp)
	if !ok || b.Op != token.SUB {
		return 0, false
	}
	k, isK := constInt(b.Y)
	if !isK || !isLenOf2(b.X, xv) {
		return 0, false
	}
	return k, true
}

func checkIndex(in ssa.Instruction, x, idx ssa.Value, isSliceBound bool) (bool, string) {
	b := in.Block()
	xp := pathOf(x)
	t := x.Type()
	if p, ok := t.Underlying().(*types.Pointer); ok {
		t = p.Elem()
	}
	if at, ok := t.Underlying().(*types.Array); ok {
		if k, isK := constInt(idx); isK && k >= 0 && (k < at.Len() || (isSliceBound && k <= at.Len())) {
			return true, "constant index into a fixed array"
		}
		// loop index bounded by a constant
		for _, f := range facts(b) {
			if c, ok := normFact(f); ok && c.X == idx && c.Op == token.LSS {
				if k, isK := constInt(c.Y); isK && k <= at.Len() {
					return true, "index bounded by the array length"
				}
			}
		}
	}
	need := int64(-1)
	if k, isK := constInt(idx); isK {
		if k < 0 {
			return false, "negative constant index"
		}
		need = k + 1
		if isSliceBound {
			need = k
		}
	} else if k, ok := lenMinus(idx, x); ok && k >= 0 {
		need = k
		if !isSliceBound && k == 0 {
			return false, "index len(x)"
		}
	}
	if need >= 0 {
		if need == 0 {
			return true, "bound 0"
		}
		if lenFactAtLeast(b, x, need) {
			return true, fmt.Sprintf("dominated by len(%s) >= %d", xp, need)
		}
		if need == 1 && fromSplit(x) {
			return true, "strings.Split* returns at least one element"
		}
		return false, fmt.Sprintf("needs len(%s) >= %d, no dominating guard", xp, need)
	}
	if indexBoundedByLen(b, idx, x) {
		return true, "index < len(" + xp + ") (loop bound)"
	}
	// i := strings.Index*(x, ...) is in [-1, len(x)-1]: x[:i], x[i:], x[i+1:] and x[i] are in range once
	// i is known non-negative (i >= 0, i != -1, i > -1)
	core, off := affineOf(idx)
	if c, ok := core.(*ssa.Call); ok && (off == 0 || (off == 1 && isSliceBound)) {
		switch funcID(calleeObj(&c.Call)) {
		case "strings.Index", "strings.IndexByte", "strings.IndexRune", "strings.IndexAny", "strings.LastIndex", "strings.LastIndexByte", "bytes.IndexByte", "bytes.Index":
			if len(c.Call.Args) > 0 && (c.Call.Args[0] == x || pathOf(c.Call.Args[0]) == xp) {
				if s := setAt(in.Parent(), core, in); s.subsetOf(rng(0, posInf)) {
					return true, "result of " + calleeShort(&c.Call) + " on the same string, known found"
				}
			}
		}
	}
	return false, "index " + pathOf(idx) + " is not related to len(" + xp + ") by a dominating guard"
}

// indexSites lists every index / slice operation on slices and strings (and arrays with
// non-constant index) in fn.
func indexSites(fn *ssa.Function) []indexSite {
	var out []indexSite
	isInputDerived := func(v ssa.Value) bool {
		p := pathOf(v)
		for _, prm := range fn.Params {
			if strings.HasPrefix(p, prm.Name()) || strings.Contains(p, "("+prm.Name()) || strings.Contains(p, ","+prm.Name()) {
				return true
			}
		}
		return false
	}
	eachInstr(fn, func(in ssa.Instruction) {
		switch x := in.(type) {
		case *ssa.IndexAddr:
			ok, why := checkIndex(in, x.X, x.Index, false)
			out = append(out, indexSite{in, pathOf(x.X) + "[" + pathOf(x.Index) + "]", ok, why, isInputDerived(x.X), shapeOf(x.X, pathOf(x.X)+"["+pathOf(x.Index)+"]")})
		case *ssa.Index:
			ok, why := checkIndex(in, x.X, x.Index, false)
			out = append(out, indexSite{in, pathOf(x.X) + "[" + pathOf(x.Index) + "]", ok, why, isInputDerived(x.X), shapeOf(x.X, pathOf(x.X)+"["+pathOf(x.Index)+"]")})
		case *ssa.Slice:
			t := x.X.Type()
			if p, ok := t.Underlying().(*types.Pointer); ok {
				if _, isArr := p.Elem().Underlying().(*types.Array); isArr && x.Low == nil && x.High == nil {
					return // arr[:]
				}
			}
			if x.Low == nil && x.High == nil {
				return
			}
			okAll, whys := true, []string{}
			for _, bnd := range []ssa.Value{x.Low, x.High} {
				if bnd == nil {
					continue
				}
				ok, why := checkIndex(in, x.X, bnd, true)
				if !ok {
					okAll = false
				}
				whys = append(whys, why)
			}
			out = append(out, indexSite{in, pathOf(x), okAll, strings.Join(whys, "; "), isInputDerived(x.X), shapeOf(x.X, pathOf(x))})
		}
	})
	return out
}

// shapeOf renders an index expression independently of what the indexed local is called.
func shapeOf(x ssa.Value, expr string) string {
	base := pathOf(x)
	t := types.TypeString(x.Type(), func(p *types.Package) string { return p.Name() })
	if base == "" {
		return t + "|" + expr
	}
	return t + "|" + strings.ReplaceAll(expr, base, "$")
}
