package main

import (
	"go/ast"
	"go/token"
	"go/types"
	"regexp"
	"strconv"
	"strings"

	"golang.org/x/tools/go/ssa"
)

// lessByTag: fn is a less function over (i, j) that returns s[i].Tag < s[j].Tag for one slice s
// and its two DISTINCT index parameters.
func lessByTag(fn *ssa.Function) (bool, string) {
	if fn == nil || fn.Blocks == nil {
		return false, "no body"
	}
	ps := fn.Params
	if fn.Signature.Recv() != nil {
		ps = ps[1:]
	}
	if len(ps) != 2 {
		return false, "not a binary less function"
	}
	var ret *ssa.Return
	n := 0
	eachInstr(fn, func(in ssa.Instruction) {
		if r, ok := in.(*ssa.Return); ok {
			ret, n = r, n+1
		}
	})
	if n != 1 || len(ret.Results) != 1 {
		return false, "more than one return"
	}
	bo, ok := ret.Results[0].(*ssa.BinOp)
	if !ok || bo.Op != token.LSS {
		return false, "the result is not a `<` comparison"
	}
	side := func(v ssa.Value) (idx ssa.Value, field string) {
		u, ok := v.(*ssa.UnOp)
		if !ok || u.Op != token.MUL {
			return nil, ""
		}
		fa, ok := u.X.(*ssa.FieldAddr)
		if !ok {
			return nil, ""
		}
		fv, _, _ := fieldAddrOf(fa)
		ia, ok := fa.X.(*ssa.IndexAddr)
		if !ok || fv == nil {
			return nil, ""
		}
		return ia.Index, fv.Name()
	}
	ix, fx := side(bo.X)
	iy, fy := side(bo.Y)
	if fx != "Tag" || fy != "Tag" {
		return false, "the compared fields are " + fx + " and " + fy + ", not Tag and Tag"
	}
	if ix == ssa.Value(ps[0]) && iy == ssa.Value(ps[1]) {
		return true, ""
	}
	return false, "the comparison does not relate element i (left) to element j (right): " + pathOf(bo.X) + " < " + pathOf(bo.Y)
}

func init() {
	register(&Rule{ID: "C16.R6", Props: []string{"C16", "C03"}, Min: 1, Needs: NeedTool,
		Doc: "members are emitted in ascending tag order whatever the declaration order: the struct parser sorts Struct.Mb (directly or through a helper) with a less function that is exactly Mb[i].Tag < Mb[j].Tag on its two index parameters; the writers and readers the generator emits walk Mb in that order and the codec's tag search only moves forward",
		Run: func(r *R) {
			ps := r.w.Func("parse", "Parse.parseStruct")
			if ps == nil {
				r.AnchorMissing("parse.(*Parse).parseStruct")
				return
			}
			var found bool
			var why string
			var pos token.Pos = ps.Pos()
			seen := map[*ssa.Function]bool{}
			var visit func(f *ssa.Function, d int)
			visit = func(f *ssa.Function, d int) {
				if f == nil || seen[f] || f.Blocks == nil || d > 2 {
					return
				}
				seen[f] = true
				eachInstr(f, func(in ssa.Instruction) {
					c, ok := in.(*ssa.Call)
					if !ok {
						return
					}
					id := funcID(calleeObj(&c.Call))
					switch id {
					case "sort.Sort", "sort.Stable":
						arg := strip(c.Call.Args[0], false)
						if mi, ok := c.Call.Args[0].(*ssa.MakeInterface); ok {
							arg = mi.X
						}
						if !strings.HasSuffix(pathOf(arg), ".Mb") {
							return
						}
						pos = in.Pos()
						ms := f.Prog.MethodSets.MethodSet(arg.Type())
						sel := ms.Lookup(nil, "Less")
						if sel == nil {
							for i := 0; i < ms.Len(); i++ {
								if ms.At(i).Obj().Name() == "Less" {
									sel = ms.At(i)
								}
							}
						}
						if sel == nil {
							why = "no Less method on " + arg.Type().String()
							return
						}
						lf := f.Prog.MethodValue(sel)
						found, why = lessByTag(lf)
					case "sort.Slice", "sort.SliceStable":
						if !strings.HasSuffix(pathOf(c.Call.Args[0]), ".Mb") {
							return
						}
						pos = in.Pos()
						if mc, ok := strip(c.Call.Args[1], false).(*ssa.MakeClosure); ok {
							found, why = lessByTag(mc.Fn.(*ssa.Function))
						} else if lf, ok := c.Call.Args[1].(*ssa.Function); ok {
							found, why = lessByTag(lf)
						} else {
							why = "less function not resolved"
						}
					default:
						if sc := c.Call.StaticCallee(); sc != nil && sc.Pkg == ps.Pkg {
							visit(sc, d+1)
						}
					}
				})
			}
			visit(ps, 0)
			if !found && why == "" {
				why = "no sort of Struct.Mb is reachable from parseStruct"
			}
			r.Check(found, fname(ps), "members sorted by tag", pos, "Struct.Mb is sorted with Mb[i].Tag < Mb[j].Tag", "the members of a struct are not sorted by tag before code is generated (%s): for IDL that declares members out of tag order the emitted WriteTo writes descending tags and the forward-only tag search of the reader misses fields", why)
		}})
}

var _ = types.Typ

// templateOf flattens a string-building expression of the generator into a template: string
// literals verbatim, everything else as "§".
func templateOf(e ast.Expr) string {
	switch x := e.(type) {
	case *ast.BasicLit:
		if x.Kind == token.STRING {
			if s, err := strconv.Unquote(x.Value); err == nil {
				return s
			}
		}
		return "§"
	case *ast.BinaryExpr:
		if x.Op == token.ADD {
			return templateOf(x.X) + templateOf(x.Y)
		}
	case *ast.ParenExpr:
		return templateOf(x.X)
	}
	return "§"
}

var countedLoopRe = regexp.MustCompile(`\bfor\b([^;{]*);([^;{]*);`)

var sprintfVerbRe = regexp.MustCompile(`%(\[\d+\])?[-+# 0]*[0-9]*(\.[0-9]+)?[a-zA-Z]`)

func init() {
	register(&Rule{ID: "C16.R7", Props: []string{"C16", "C03"}, Min: 1, Needs: NeedTool,
		Doc: "emitted element loops snapshot their bound: no counted `for` header the generator prints (g.P arguments or string concatenations, literals joined) tests the shared scratch variable `length` in its condition — the element decoders emitted inside the body assign `length` again (nested vectors, maps, byte lists), so the bound must be copied into a loop-local first",
		Run: func(r *R) {
			p := r.w.PPkg("gencode")
			if p == nil {
				r.AnchorMissing("tars2go package gencode")
				return
			}
			wordLength := regexp.MustCompile(`\blength\b`)
			seen := map[token.Pos]bool{}
			check := func(fn string, pos token.Pos, tpl string) {
				for _, m := range countedLoopRe.FindAllStringSubmatch(tpl, -1) {
					if seen[pos] {
						continue
					}
					seen[pos] = true
					cond := m[2]
					r.Check(!wordLength.MatchString(cond), "tars2go/gencode."+fn, "counted loop header `for"+strings.TrimSpace(m[1])+"; …`", pos, "condition `"+strings.TrimSpace(cond)+"` does not read the scratch variable", "the emitted loop condition `%s` reads `length`, which the decoders emitted inside the loop body overwrite: an array or vector of containers is decoded with the wrong element count", strings.TrimSpace(cond))
				}
			}
			for _, f := range p.Syntax {
				for _, d := range f.Decls {
					fd, ok := d.(*ast.FuncDecl)
					if !ok || fd.Body == nil {
						continue
					}
					ast.Inspect(fd.Body, func(n ast.Node) bool {
						switch x := n.(type) {
						case *ast.CallExpr:
							// a loop head built with fmt.Sprintf: the format string is the template
							if se, ok := x.Fun.(*ast.SelectorExpr); ok && se.Sel.Name == "Sprintf" && len(x.Args) > 0 {
								if bl, ok := x.Args[0].(*ast.BasicLit); ok && bl.Kind == token.STRING {
									if f, err := strconv.Unquote(bl.Value); err == nil {
										check(fd.Name.Name, x.Pos(), sprintfVerbRe.ReplaceAllString(f, "\u00a7"))
									}
								}
							}
							if se, ok := x.Fun.(*ast.SelectorExpr); ok && se.Sel.Name == "P" {
								var sb strings.Builder
								for _, a := range x.Args {
									sb.WriteString(templateOf(a))
								}
								check(fd.Name.Name, x.Pos(), sb.String())
							}
						case *ast.BinaryExpr:
							if x.Op == token.ADD {
								check(fd.Name.Name, x.Pos(), templateOf(x))
								return false
							}
						}
						return true
					})
				}
			}
		}})
}

// appendedElems: the element values of `append(s, e1, e2...)` (variadic array form of go/ssa).
func appendedElems(c *ssa.Call) []ssa.Value {
	if builtinName(&c.Call) != "append" || len(c.Call.Args) != 2 {
		return nil
	}
	sl, ok := c.Call.Args[1].(*ssa.Slice)
	if !ok {
		return nil
	}
	al, ok := sl.X.(*ssa.Alloc)
	if !ok {
		return nil
	}
	var out []ssa.Value
	for _, ref := range *al.Referrers() {
		if ia, ok := ref.(*ssa.IndexAddr); ok {
			for _, r2 := range *ia.Referrers() {
				if st, ok := r2.(*ssa.Store); ok && st.Addr == ssa.Value(ia) {
					out = append(out, st.Val)
				}
			}
		}
	}
	return out
}

func init() {
	register(&Rule{ID: "C16.R8", Props: []string{"C16"}, Min: 2, Needs: NeedTool,
		Doc: "the include graph stays acyclic: no parser links the file it is itself building (the receiver's p.tarsFile pointer) into another file's IncTarsFile list — only files of freshly created parsers and snapshot copies are linked — because FindTNameType / FindEnumName recurse over IncTarsFile without a visited set and a cycle ends in a stack overflow that recover() cannot catch",
		Run: func(r *R) {
			pp := r.w.Pkg("parse")
			if pp == nil {
				r.AnchorMissing("tars2go package parse")
				return
			}
			for _, fn := range r.w.Funcs(pp) {
				if fn.Signature.Recv() == nil {
					continue
				}
				recv := fn.Params[0]
				eachInstr(fn, func(in ssa.Instruction) {
					st, ok := in.(*ssa.Store)
					if !ok {
						return
					}
					fv, _, ok := fieldAddrOf(st.Addr)
					if !ok || fv.Name() != "IncTarsFile" {
						return
					}
					c, ok := st.Val.(*ssa.Call)
					if !ok {
						return
					}
					for _, e := range appendedElems(c) {
						live := false
						if u, ok := e.(*ssa.UnOp); ok && u.Op == token.MUL {
							if f2, base, ok := fieldAddrOf(u.X); ok && f2.Name() == "tarsFile" && base == ssa.Value(recv) {
								live = true
							}
						}
						r.Check(!live, fname(fn), "include link "+pathOf(st.Addr)+" += "+pathOf(e), in.Pos(), "links a fresh parser's file or a snapshot copy", "the file under construction (%s) is linked into the include list %s; that file is in turn reachable from its own include list, and the recursive lookups over IncTarsFile never terminate", pathOf(e), pathOf(st.Addr))
					}
				})
			}
		}})
}
