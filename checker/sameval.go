package main

import (
	"go/token"
	"go/types"

	"golang.org/x/tools/go/ssa"
)

// A2: go/ssa performs no CSE, so `int(length)` written twice is two Convert instructions over two
// loads. sameValue decides structural equality of two values: identical SSA value, or the same
// pure operator over sameValue operands, or two loads of the same address with no possible write
// to that address on any path between them.
func sameValue(a, b ssa.Value) bool { return sameValueD(a, b, 0) }

func sameValueD(a, b ssa.Value, d int) bool {
	if a == b {
		return true
	}
	if d > 12 {
		return false
	}
	if ca, ok := a.(*ssa.Const); ok {
		if cb, ok := b.(*ssa.Const); ok {
			if ca.Value == nil || cb.Value == nil {
				return ca.Value == nil && cb.Value == nil
			}
			return ca.Value.ExactString() == cb.Value.ExactString()
		}
		return false
	}
	switch x := a.(type) {
	case *ssa.Convert:
		y, ok := b.(*ssa.Convert)
		return ok && types.Identical(x.Type(), y.Type()) && sameValueD(x.X, y.X, d+1)
	case *ssa.ChangeType:
		y, ok := b.(*ssa.ChangeType)
		return ok && types.Identical(x.Type(), y.Type()) && sameValueD(x.X, y.X, d+1)
	case *ssa.BinOp:
		y, ok := b.(*ssa.BinOp)
		return ok && x.Op == y.Op && sameValueD(x.X, y.X, d+1) && sameValueD(x.Y, y.Y, d+1)
	case *ssa.FieldAddr:
		y, ok := b.(*ssa.FieldAddr)
		return ok && x.Field == y.Field && sameValueD(x.X, y.X, d+1)
	case *ssa.Field:
		y, ok := b.(*ssa.Field)
		return ok && x.Field == y.Field && sameValueD(x.X, y.X, d+1)
	case *ssa.IndexAddr:
		y, ok := b.(*ssa.IndexAddr)
		return ok && sameValueD(x.X, y.X, d+1) && sameValueD(x.Index, y.Index, d+1)
	case *ssa.Extract:
		y, ok := b.(*ssa.Extract)
		return ok && x.Index == y.Index && x.Tuple == y.Tuple
	case *ssa.UnOp:
		y, ok := b.(*ssa.UnOp)
		if !ok || x.Op != y.Op {
			return false
		}
		if x.Op != token.MUL {
			return sameValueD(x.X, y.X, d+1)
		}
		if !sameValueD(x.X, y.X, d+1) {
			return false
		}
		return !mayWriteBetween(x, y)
	case *ssa.Call:
		// len(x) of the same value
		y, ok := b.(*ssa.Call)
		if !ok {
			return false
		}
		if bn := builtinName(&x.Call); bn != "" && bn == builtinName(&y.Call) && (bn == "len" || bn == "cap") {
			return sameValueD(x.Call.Args[0], y.Call.Args[0], d+1)
		}
	}
	return false
}

// rootAlloc finds the local Alloc/Parameter at the root of an address expression.
func rootOfAddr(v ssa.Value) ssa.Value {
	for i := 0; i < 16; i++ {
		switch x := v.(type) {
		case *ssa.FieldAddr:
			v = x.X
		case *ssa.IndexAddr:
			v = x.X
		case *ssa.ChangeType:
			v = x.X
		case *ssa.UnOp:
			if x.Op == token.MUL {
				v = x.X
				continue
			}
			return v
		default:
			return v
		}
	}
	return v
}

// mayWriteBetween: for two loads l1,l2 of the same address, is there an instruction that may
// write that memory and that lies on a path from l1 to l2 or from l2 to l1?
// Local allocs: writers are Stores through an address rooted at the alloc and calls that
// receive such an address (or closures binding it). Anything else (memory reached through a
// parameter or a field of a heap object): any Store through an address of the same field /
// any call is ignored — such loads are considered equal only when in the same block with no
// intervening store to the same field and no intervening call.
func mayWriteBetween(l1, l2 *ssa.UnOp) bool {
	root := rootOfAddr(l1.X)
	alloc, isAlloc := root.(*ssa.Alloc)
	fn := l1.Parent()
	var writers []ssa.Instruction
	isWriter := func(i ssa.Instruction) bool {
		switch w := i.(type) {
		case *ssa.Store:
			if isAlloc {
				return rootOfAddr(w.Addr) == alloc
			}
			// heap memory: same field path root type
			return addrMayAlias(w.Addr, l1.X)
		case ssa.CallInstruction:
			if isAlloc {
				for _, a := range w.Common().Args {
					if rootOfAddr(a) == alloc && isPointerLike(a.Type()) {
						return true
					}
				}
				if w.Common().IsInvoke() {
					return false
				}
				return false
			}
			return true // unknown memory: any call may write it
		case *ssa.MakeClosure:
			if isAlloc {
				for _, b := range w.Bindings {
					if rootOfAddr(b) == alloc {
						return true
					}
				}
			}
		}
		return false
	}
	eachInstr(fn, func(i ssa.Instruction) {
		if isWriter(i) {
			writers = append(writers, i)
		}
	})
	if isAlloc {
		// an alloc captured by a closure that stores to it can be written by any call
		for _, ref := range *alloc.Referrers() {
			if mc, ok := ref.(*ssa.MakeClosure); ok {
				_ = mc
			}
		}
	}
	if len(writers) == 0 {
		return false
	}
	between := func(a, b *ssa.UnOp) bool {
		// is some writer reachable from a and then b reachable from the writer?
		for _, w := range writers {
			if reaches(a, w) && reaches(w, b) {
				return true
			}
		}
		return false
	}
	return between(l1, l2) || between(l2, l1)
}

func isPointerLike(t types.Type) bool {
	switch t.Underlying().(type) {
	case *types.Pointer, *types.Slice, *types.Map, *types.Interface, *types.Signature, *types.Chan:
		return true
	}
	return false
}

func addrMayAlias(a, b ssa.Value) bool {
	fa, ok1 := a.(*ssa.FieldAddr)
	fb, ok2 := b.(*ssa.FieldAddr)
	if ok1 && ok2 {
		return fa.Field == fb.Field && types.Identical(fa.X.Type(), fb.X.Type())
	}
	if ok1 != ok2 {
		return false
	}
	return types.Identical(a.Type(), b.Type())
}

// reaches: is instruction b reachable from just after instruction a (same function)?
func reaches(a, b ssa.Instruction) bool {
	if a.Block() == b.Block() && instrIndex(a) < instrIndex(b) {
		return true
	}
	return blocksReachableFrom(a)[b.Block()]
}

// stripWiden removes value-preserving integer conversions.
func stripWiden(v ssa.Value) ssa.Value {
	for i := 0; i < 8; i++ {
		if c, ok := v.(*ssa.Convert); ok && wideningConv(c) {
			v = c.X
			continue
		}
		break
	}
	return v
}

// sameNum: the two integer values are numerically equal (same value modulo widening conversions).
func sameNum(a, b ssa.Value) bool {
	return sameValue(a, b) || sameValue(stripWiden(a), stripWiden(b))
}
