package main

import (
	"fmt"
	"go/token"
	"go/types"

	"golang.org/x/tools/go/ssa"
)

func namedConstInt(sp *ssa.Package, name string) (int64, bool) {
	if sp == nil {
		return 0, false
	}
	c, ok := sp.Members[name].(*ssa.NamedConst)
	if !ok {
		return 0, false
	}
	return constInt(c.Value)
}

// recvLoops: functions in tars/transport that call net.Conn.Read and ParsePackage.
func recvLoops(w *World) []*ssa.Function {
	var out []*ssa.Function
	sp := w.Pkg("tars/transport")
	if sp == nil {
		return nil
	}
	for _, fn := range w.Funcs(sp) {
		hasRead, hasParse := false, false
		eachInstr(fn, func(in ssa.Instruction) {
			if c := callCommon(in); c != nil && c.IsInvoke() {
				if c.Method.Name() == "Read" && typeID(c.Value.Type()) == "net.Conn" {
					hasRead = true
				}
				if c.Method.Name() == "ParsePackage" {
					hasParse = true
				}
			}
		})
		if hasRead && hasParse {
			out = append(out, fn)
		}
	}
	return out
}

func sliceOf(v ssa.Value) *ssa.Slice {
	s, _ := v.(*ssa.Slice)
	return s
}

func zeroOrNil(v ssa.Value) bool {
	if v == nil {
		return true
	}
	k, ok := constInt(v)
	return ok && k == 0
}

func init() {
	register(&Rule{ID: "C07.R0", Props: []string{"C07"}, Min: 3, Needs: NeedMain,
		Doc: "the framing status tables agree: PackageLess/PackageFull/PackageError have the same values in the producer (tars/protocol) and the consumer (tars/transport)",
		Run: func(r *R) {
			p, t := r.w.Pkg("tars/protocol"), r.w.Pkg("tars/transport")
			for _, n := range []string{"PackageLess", "PackageFull", "PackageError"} {
				a, ok1 := namedConstInt(p, n)
				b, ok2 := namedConstInt(t, n)
				if !ok1 || !ok2 {
					r.AnchorMissing("const " + n + " in tars/protocol and tars/transport")
					continue
				}
				if a == b {
					r.OKLookup("protocol/transport", "const "+n, token.NoPos, "protocol.%s == transport.%s == %d", n, n, a)
				} else {
					r.Bad("protocol/transport", "const "+n, token.NoPos, "protocol.%s = %d but transport.%s = %d: the receive loops misread the framing verdict", n, a, n, b)
				}
			}
		}})

	register(&Rule{ID: "C07.R1", Props: []string{"C07", "C05"}, Min: 7, Needs: NeedMain,
		Doc: "length classification in TarsRequest: PackageFull is returned exactly when 4 <= header <= maxPackageLength and len(buf) >= header, with the header itself as length; PackageLess when fewer than 4 bytes are present or the announced packet is incomplete; everything else is PackageError",
		Run: func(r *R) {
			fn := r.w.Func("tars/protocol", "TarsRequest")
			sp := r.w.Pkg("tars/protocol")
			if fn == nil {
				r.AnchorMissing("protocol.TarsRequest")
				return
			}
			less, _ := namedConstInt(sp, "PackageLess")
			fullC, _ := namedConstInt(sp, "PackageFull")
			errC, _ := namedConstInt(sp, "PackageError")
			rev := fn.Params[0]
			where := fname(fn)
			isLenRev := func(e ssa.Value) bool {
				e = strip(e, false)
				for {
					// int64(len(rev)): a widening conversion of the length is the length
					if cv, ok := e.(*ssa.Convert); ok {
						if w, _, isInt := intWidth(cv.Type()); isInt && w >= 32 {
							e = strip(cv.X, false)
							continue
						}
					}
					break
				}
				c, ok := e.(*ssa.Call)
				return ok && builtinName(&c.Call) == "len" && c.Call.Args[0] == rev
			}
			// header value: conversion of binary.BigEndian.Uint32(rev[0:4])
			var h ssa.Value
			eachInstr(fn, func(in ssa.Instruction) {
				c, ok := in.(*ssa.Call)
				if !ok || funcID(calleeObj(&c.Call)) != "encoding/binary.(bigEndian).Uint32" {
					return
				}
				sl := sliceOf(c.Call.Args[len(c.Call.Args)-1])
				if sl == nil || sl.X != rev || !zeroOrNil(sl.Low) {
					return
				}
				if hi, ok := constInt(sl.High); !ok || hi != 4 {
					return
				}
				h = c
				for _, ref := range *c.Referrers() {
					if cv, ok := ref.(*ssa.Convert); ok {
						h = cv
					}
				}
			})
			if h == nil {
				// written without encoding/binary: the value whose bits are exactly the big-endian composition
				// of rev[0..3], zero-extended (decided at bit level, A13); the widest such value is the header
				memo := map[ssa.Value]*sval{}
				eachInstr(fn, func(in ssa.Instruction) {
					v, ok := in.(ssa.Value)
					if !ok {
						return
					}
					w, _, isInt := intWidth(v.Type())
					if !isInt || w < 32 {
						return
					}
					sv, ok := symExprOver(v, rev, memo, 0)
					if !ok {
						return
					}
					for i := 0; i < w; i++ {
						want := sbit("0")
						if i < 32 {
							want = sbit(fmt.Sprintf("src%d.%d", 3-i/8, i%8))
						}
						if sv.b[i] != want {
							return
						}
					}
					if h == nil || w >= 64 {
						h = v
					}
				})
			}
			if h == nil {
				r.Undecided(where, "header", fn.Pos(), "the 4-byte big-endian header read is not recognised")
				return
			}
			r.OK(where, "header = BigEndian.Uint32(rev[0:4])", h.Pos(), "header is the first four bytes, big-endian")
			var anyLen ssa.Value
			eachInstr(fn, func(in ssa.Instruction) {
				if v, ok := in.(ssa.Value); ok && isLenRev(v) && anyLen == nil {
					anyLen = v
				}
			})
			var lenSets map[*ssa.BasicBlock]iset
			if anyLen != nil {
				lenSets = valueSets(fn, anyLen, isLenRev)
			}
			// the header may appear in several integer widths (uint32 for the lower bound, int64 for the
			// comparison with the maximum, int for the result): all conversions of the decoded value
			// are the header
			hClass := map[ssa.Value]bool{h: true}
			if cv, ok := h.(*ssa.Convert); ok {
				hClass[cv.X] = true
			}
			for grew := true; grew; {
				grew = false
				for v := range hClass {
					if refs := v.Referrers(); refs != nil {
						for _, ref := range *refs {
							switch x := ref.(type) {
							case *ssa.Convert:
								if w, _, isInt := intWidth(x.Type()); isInt && w >= 32 && !hClass[x] {
									hClass[x] = true
									grew = true
								}
							case *ssa.ChangeType:
								if !hClass[x] {
									hClass[x] = true
									grew = true
								}
							}
						}
					}
				}
			}
			isH := func(v ssa.Value) bool { return v != nil && hClass[v] }
			hSets := valueSets(fn, h, tracker(isH))
			isMax := func(v ssa.Value) bool {
				if cv, ok := v.(*ssa.Convert); ok {
					v = cv.X
				}
				u, ok := v.(*ssa.UnOp)
				if !ok || u.Op != token.MUL {
					return false
				}
				g, ok := u.X.(*ssa.Global)
				return ok && g.Name() == "maxPackageLength"
			}
			nFull, nLess, nErr := 0, 0, 0
			for _, rp := range returnPaths(fn) {
				ret := rp.ret
				if len(rp.vals) != 2 {
					continue
				}
				st, ok := constInt(rp.vals[1])
				if !ok {
					r.Undecided(where, "return status", ret.Pos(), "status is not a constant")
					continue
				}
				var upper, complete, incomplete bool
				for _, f := range rp.pathFacts() {
					c, ok := normFact(f)
					if !ok {
						continue
					}
					if (isH(c.X) && isMax(c.Y) && c.Op == token.LEQ) || (isH(c.Y) && isMax(c.X) && c.Op == token.GEQ) {
						upper = true
					}
					ax, ox := affineOf(c.X)
					ay, oy := affineOf(c.Y)
					if ox == oy { // `len(rev)-4 >= header-4` is the same fact as `len(rev) >= header`
						if (isLenRev(ax) && isH(ay) && c.Op == token.GEQ) || (isH(ax) && isLenRev(ay) && c.Op == token.LEQ) {
							complete = true
						}
						if (isLenRev(ax) && isH(ay) && c.Op == token.LSS) || (isH(ax) && isLenRev(ay) && c.Op == token.GTR) {
							incomplete = true
						}
					}
				}
				hs := rp.pathSet(hSets, tracker(isH))
				switch st {
				case fullC:
					nFull++
					r.Check(hs.equal(rng(4, posInf)), where, "Full: header lower bound", ret.Pos(), "header ∈ %s at the PackageFull return", "header ∈ %s at the PackageFull return; a packet is at least its own 4-byte header, and exactly 4 is legal — required [4,+inf]", hs)
					r.Check(upper, where, "Full: header <= maxPackageLength", ret.Pos(), "dominated by header <= maxPackageLength", "the PackageFull return is not dominated by `header <= maxPackageLength` on the header itself (a packet of exactly the maximum is legal, maximum+1 is not)")
					r.Check(complete, where, "Full: len(buf) >= header", ret.Pos(), "dominated by len(buf) >= header", "the PackageFull return is not dominated by len(buf) >= header: an incomplete packet would be handed on")
					r.Check(isH(rp.vals[0]), where, "Full: returned length is the header", ret.Pos(), "returns the header as packet length", "the packet length returned with PackageFull is not the header value")
				case less:
					nLess++
					ls := iset{}
					if lenSets != nil {
						ls = rp.pathSet(lenSets, isLenRev).intersect(rng(0, posInf))
					}
					short := ls.equal(rng(0, 3))
					okIncomplete := incomplete && upper && hs.equal(rng(4, posInf))
					r.Check(short || okIncomplete, where, fmt.Sprintf("Less return %d", nLess), ret.Pos(),
						"PackageLess exactly when fewer than 4 bytes are buffered (len ∈ %s) or a legal header announces more than is buffered",
						"PackageLess is returned with len(buf) ∈ %s, header ∈ "+hs.String()+": it must be exactly `len<4` or `legal header && len<header` (waiting for more input on an illegal header never ends)", ls)
				case errC:
					nErr++
				default:
					r.Bad(where, "return status", ret.Pos(), "status %d is not one of the three framing verdicts", st)
				}
			}
			r.Check(nFull == 1 && nLess == 2 && nErr >= 1, where, "verdict returns", fn.Pos(), "1 Full, 2 Less, %d Error return(s)", "unexpected number of verdict returns: Full=%d Less=%d Error=%d", map[bool]any{true: nErr, false: nFull}[nFull == 1 && nLess == 2 && nErr >= 1], nLess, nErr)
		}})

	register(&Rule{ID: "C07.R2", Props: []string{"C07", "C10"}, Min: 14, Needs: NeedMain,
		Doc: "reassembly dataflow in both receive loops: appended bytes are exactly buffer[:n] of that Read; on Full the packet is a fresh copy of cur[:L], the buffer becomes cur[L:] with the same L, the copy (not an alias) is handed on; on Less the buffer is unchanged; the remainder is dropped only when observed empty; on Error the function returns without reading again",
		Run: func(r *R) {
			tsp := r.w.Pkg("tars/transport")
			fullC, ok1 := namedConstInt(tsp, "PackageFull")
			lessC, ok2 := namedConstInt(tsp, "PackageLess")
			if !ok1 || !ok2 {
				r.AnchorMissing("transport.PackageFull/PackageLess")
				return
			}
			loops := recvLoops(r.w)
			if len(loops) < 2 {
				r.Bad("tars/transport", "receive loops", token.NoPos, "found %d receive loops (functions calling net.Conn.Read and ParsePackage), expected the server and the client one", len(loops))
			}
			for _, fn := range loops {
				checkRecvLoop(r, fn, fullC, lessC)
			}
		}})
}

func init() {
	register(&Rule{ID: "C07.R3", Props: []string{"C07", "C10", "C05"}, Min: 3, Needs: NeedMain,
		Doc: "receive buffers do not escape: the buffer a transport loop passes to Read / ReadFromUDP is reused by the next read, so it (or a slice of it) may only be parsed, appended from or copied from — never handed to a handler, a goroutine, a closure or a channel (the packet handed on is always a fresh copy)",
		Run: func(r *R) {
			sp := r.w.Pkg("tars/transport")
			if sp == nil {
				r.AnchorMissing("package tars/transport")
				return
			}
			for _, fn := range r.w.Funcs(sp) {
				eachInstr(fn, func(in ssa.Instruction) {
					c, ok := in.(*ssa.Call)
					if !ok {
						return
					}
					isRead := (c.Call.IsInvoke() && c.Call.Method.Name() == "Read" && isNetConn(c.Call.Value.Type())) || funcID(calleeObj(&c.Call)) == "net.(UDPConn).ReadFromUDP"
					if !isRead {
						return
					}
					inLoop := false
					for _, l := range loopsOf(fn) {
						if l.body[c.Block()] {
							inLoop = true
						}
					}
					if !inLoop {
						return
					}
					buf := c.Call.Args[len(c.Call.Args)-1]
					if c.Call.IsInvoke() {
						buf = c.Call.Args[0]
					}
					buf = strip(buf, false)
					// all aliases: the buffer value and every Slice of it
					aliases := map[ssa.Value]bool{buf: true}
					eachInstr(fn, func(j ssa.Instruction) {
						if sl, ok := j.(*ssa.Slice); ok && aliases[strip(sl.X, false)] {
							aliases[sl] = true
						}
					})
					bad := ""
					eachInstr(fn, func(j ssa.Instruction) {
						if j == ssa.Instruction(c) {
							return
						}
						switch x := j.(type) {
						case ssa.CallInstruction:
							cc := x.Common()
							bn := builtinName(cc)
							for ai, a := range cc.Args {
								if !aliases[strip(a, false)] {
									continue
								}
								switch {
								case bn == "copy" && ai == 1, bn == "append" && ai == 1, bn == "len", bn == "cap":
								case cc.IsInvoke() && cc.Method.Name() == "ParsePackage":
								case cc.IsInvoke() && cc.Method.Name() == "Read", funcID(calleeObj(cc)) == "net.(UDPConn).ReadFromUDP":
								default:
									if _, isCall := j.(*ssa.Call); isCall && bn == "" {
										bad = "passed to " + shortInstr(j)
									} else if bn == "" {
										bad = "handed to a goroutine/deferred call"
									} else {
										bad = "used as argument " + bn
									}
								}
							}
						case *ssa.MakeClosure:
							for _, b := range x.Bindings {
								if aliases[strip(b, false)] {
									bad = "captured by a closure"
								}
							}
						case *ssa.Send:
							if aliases[strip(x.X, false)] {
								bad = "sent on a channel"
							}
						case *ssa.Store:
							if aliases[strip(x.Val, false)] {
								if _, isAlloc := x.Addr.(*ssa.Alloc); !isAlloc {
									bad = "stored into " + pathOf(x.Addr)
								}
							}
						}
					})
					r.Check(bad == "", fname(fn), "receive buffer does not escape", c.Pos(), "the read buffer is only parsed / copied from", "the reused receive buffer is %s: the bytes are overwritten by the next read while the handler (or the handle-timeout path) still decodes them — one request is answered twice with another's identity, another never", bad)
				})
			}
		}})
}

func checkRecvLoop(r *R, fn *ssa.Function, fullC, lessC int64) {
	where := fname(fn)
	var readCall, parseCall, appendCall, copyCall *ssa.Call
	var appends []*ssa.Call
	eachInstr(fn, func(in ssa.Instruction) {
		c, ok := in.(*ssa.Call)
		if !ok {
			return
		}
		if c.Call.IsInvoke() && c.Call.Method.Name() == "Read" && typeID(c.Call.Value.Type()) == "net.Conn" {
			readCall = c
		}
		if c.Call.IsInvoke() && c.Call.Method.Name() == "ParsePackage" {
			parseCall = c
		}
		switch builtinName(&c.Call) {
		case "append":
			if isByteSlice(c.Type()) {
				appends = append(appends, c)
			}
		case "copy":
			copyCall = c
		}
	})
	// the stream append takes a slice of the Read buffer; a packet may also be copied out with
	// append(<fresh empty slice>, cur[:L]...) instead of make+copy
	var pktAppend *ssa.Call
	for _, a := range appends {
		sl := sliceOf(a.Call.Args[1])
		if readCall != nil && sl != nil && strip(sl.X, false) == strip(readCall.Call.Args[0], false) {
			appendCall = a
			continue
		}
		if parseCall != nil && sl != nil && sl.X == parseCall.Call.Args[0] {
			switch d := a.Call.Args[0].(type) {
			case *ssa.MakeSlice:
				if k, ok := constInt(d.Len); ok && k == 0 {
					pktAppend = a
				}
			case *ssa.Const:
				if d.Value == nil {
					pktAppend = a
				}
			}
		}
	}
	if appendCall == nil && len(appends) == 1 {
		appendCall = appends[0]
	}
	if readCall == nil || parseCall == nil || appendCall == nil || (copyCall == nil && pktAppend == nil) {
		r.Undecided(where, "receive loop shape", fn.Pos(), "Read/append/ParsePackage/copy structure not recognised (a restructured receive path needs an idiom update)")
		return
	}
	ext := func(c *ssa.Call, i int) ssa.Value {
		for _, ref := range *c.Referrers() {
			if e, ok := ref.(*ssa.Extract); ok && e.Index == i {
				return e
			}
		}
		return nil
	}
	n := ext(readCall, 0)
	L := ext(parseCall, 0)
	status := ext(parseCall, 1)
	ioBuf := readCall.Call.Args[0]
	cur := parseCall.Call.Args[0]

	// F1: append(prev, buffer[:n]...)
	sl := sliceOf(appendCall.Call.Args[1])
	f1 := sl != nil && strip(sl.X, false) == strip(ioBuf, false) && zeroOrNil(sl.Low) && sl.High != nil && n != nil && strip(sl.High, false) == n && instrDominates(readCall, appendCall)
	r.Check(f1, where, "F1 append exactly the bytes read", appendCall.Pos(), "appends buffer[:n] with n the count of that Read", "what is appended to the stream buffer is not buffer[:n] with n the count returned by the same Read (stale or missing bytes enter the stream)")

	// F6: what was read is parsed before anything else is read
	unparsed := reachAvoiding(appendCall, func(in ssa.Instruction) bool { return in == ssa.Instruction(readCall) }, func(in ssa.Instruction) bool { return in == ssa.Instruction(parseCall) })
	r.Check(unparsed == nil, where, "F6 every read is followed by a parse", appendCall.Pos(), "no path from the append back to Read that skips ParsePackage", "bytes can be appended and the loop can go back to Read without parsing them: complete packets wait in the buffer until some later read happens to be short (for ever, when the peer stops after a burst that fills the read buffer exactly), and an illegal length prefix is not rejected")

	// F2: fresh copy of cur[:L], remainder cur[L:], same L, under status == Full
	var statusSets map[*ssa.BasicBlock]iset
	underFull := func(b *ssa.BasicBlock) bool {
		for _, f := range facts(b) {
			if c, ok := normFact(f); ok && c.Op == token.EQL && c.X == status {
				if k, ok := constInt(c.Y); ok && k == fullC {
					return true
				}
			}
		}
		// the other statuses were sent elsewhere one by one (status != Less && status != Full -> error;
		// status == Less -> break): the values status can still have here
		if status != nil {
			if statusSets == nil {
				statusSets = valueSets(fn, status, nil)
			}
			if s, ok := statusSets[b]; ok && s.equal(rng(fullC, fullC)) {
				return true
			}
		}
		return false
	}
	var pkt ssa.Value // the fresh packet slice
	var pktPos token.Pos
	var f2a, f2b bool
	if pktAppend != nil {
		pkt, pktPos = pktAppend, pktAppend.Pos()
		src := sliceOf(pktAppend.Call.Args[1])
		f2a = L != nil && underFull(pktAppend.Block())
		f2b = src != nil && src.X == cur && zeroOrNil(src.Low) && src.High != nil && strip(src.High, false) == L
	} else {
		pktPos = copyCall.Pos()
		if ms, ok := copyCall.Call.Args[0].(*ssa.MakeSlice); ok {
			pkt = ms
			f2a = L != nil && strip(ms.Len, false) == L && underFull(ms.Block())
		}
		src := sliceOf(copyCall.Call.Args[1])
		f2b = src != nil && src.X == cur && zeroOrNil(src.Low) && src.High != nil && strip(src.High, false) == L
	}
	r.Check(f2a, where, "F2 packet = make([]byte, L) on the Full branch", pktPos, "fresh slice of the length ParsePackage returned, on status == PackageFull", "the packet is not a fresh slice of exactly the length returned by ParsePackage on the PackageFull branch")
	r.Check(f2b, where, "F2 copy source is cur[:L]", pktPos, "copy(pkt, cur[:L]) from the buffer that was parsed", "the packet is not copied from cur[:L] of the parsed buffer with the same L")
	var rem *ssa.Slice
	eachInstr(fn, func(in ssa.Instruction) {
		if s, ok := in.(*ssa.Slice); ok && s.X == cur && s.High == nil && s.Low != nil && strip(s.Low, false) == L && underFull(s.Block()) {
			rem = s
		}
	})
	r.Check(rem != nil, where, "F2 remainder is cur[L:]", pktPos, "buffer advances by exactly L", "after a packet is taken the buffer is not advanced to cur[L:] with the same L (bytes are lost or duplicated)")
	// handed on: some call/go after the copy takes pkt (and no call takes a slice of cur)
	handed := false
	if pkt != nil {
		for _, ref := range *pkt.Referrers() {
			if ci, ok := ref.(ssa.CallInstruction); ok && (copyCall == nil || ci != ssa.CallInstruction(copyCall)) {
				if builtinName(ci.Common()) == "" {
					handed = true
				}
			}
		}
	}
	r.Check(handed, where, "F2 the copy is handed to the protocol", pktPos, "the fresh packet slice is passed on", "the fresh packet is never passed on (an alias of the stream buffer would be overwritten by later appends)")

	// F3/F4: every value carried into the next iteration is the buffer itself, the appended buffer,
	// the remainder, or nil only where the remainder is known to be empty
	if rem == nil {
		return
	}
	carry := map[ssa.Value]bool{appendCall: true, rem: true, cur: true}
	// grow: phis whose edges are all carried/nil
	changed := true
	var phis []*ssa.Phi
	eachInstr(fn, func(in ssa.Instruction) {
		if p, ok := in.(*ssa.Phi); ok && isByteSlice(p.Type()) {
			phis = append(phis, p)
		}
	})
	for changed {
		changed = false
		for _, p := range phis {
			if carry[p] {
				continue
			}
			for _, e := range p.Edges {
				if carry[e] {
					carry[p] = true
					changed = true
					break
				}
			}
		}
	}
	isLenRem := func(e ssa.Value) bool {
		c, ok := strip(e, false).(*ssa.Call)
		return ok && builtinName(&c.Call) == "len" && c.Call.Args[0] == ssa.Value(rem)
	}
	var anyLen ssa.Value
	eachInstr(fn, func(in ssa.Instruction) {
		if v, ok := in.(ssa.Value); ok && isLenRem(v) && anyLen == nil {
			anyLen = v
		}
	})
	var remSets map[*ssa.BasicBlock]iset
	if anyLen != nil {
		remSets = valueSets(fn, anyLen, isLenRem)
	}
	inLoop := map[*ssa.BasicBlock]bool{}
	for _, l := range loopsOf(fn) {
		for b := range l.body {
			inLoop[b] = true
		}
	}
	okCarry := true
	nEdges := 0
	for _, p := range phis {
		if !carry[p] {
			continue
		}
		for i, e := range p.Edges {
			pred := p.Block().Preds[i]
			nEdges++
			switch {
			case carry[e]:
			case isNilConst(e):
				if !inLoop[pred] {
					continue // initial value before the loop
				}
				// dropping the buffer: only when the remainder is observed empty on this edge
				var s iset
				if remSets != nil {
					si := 0
					if len(pred.Succs) == 2 && pred.Succs[1] == p.Block() {
						si = 1
					}
					s = remSets[pred].intersect(constraintOnEdge(pred, si, isLenRem)).intersect(rng(0, posInf))
				}
				if !rem.Block().Dominates(pred) || !s.equal(rng(0, 0)) {
					okCarry = false
					r.Bad(where, "F4 buffer dropped while bytes may remain", pred.Instrs[len(pred.Instrs)-1].Pos(),
						"the stream buffer is reset to nil on a path where the remainder after a packet may be non-empty (len ∈ %s): the first bytes of the next packet are lost when a read ends inside its header", s)
				}
			default:
				okCarry = false
				r.Bad(where, "F3 buffer replaced", pred.Instrs[len(pred.Instrs)-1].Pos(), "the stream buffer carried to the next iteration is neither the parsed buffer, the appended buffer nor the remainder cur[L:]")
			}
		}
	}
	if okCarry {
		r.OK(where, "F3/F4 buffer carried unchanged or dropped only when empty", rem.Pos(), "%d loop-carried edges: buffer, appended buffer, remainder, or nil under len(remainder)==0", nEdges)
	}
	// F4b: after consuming a packet every path back to Read re-parses unless the remainder is empty
	if remSets != nil {
		bad := reachAvoiding(rem, func(in ssa.Instruction) bool { return in == ssa.Instruction(readCall) }, func(in ssa.Instruction) bool {
			if in == ssa.Instruction(parseCall) {
				return true
			}
			// passing a block where the remainder is known empty also stops the search
			if s, ok := remSets[in.Block()]; ok && in == in.Block().Instrs[0] && in.Block() != rem.Block() && s.intersect(rng(0, posInf)).equal(rng(0, 0)) {
				return true
			}
			return false
		})
		r.Check(bad == nil, where, "F4 remainder is re-parsed before the next Read", rem.Pos(), "every path from a consumed packet back to Read re-parses the remainder or has observed it empty", "a path leads from a consumed packet back to Read without re-parsing a possibly non-empty remainder: a complete packet can be left waiting for more input")
	}
	// F5: on Error the function returns without reading again
	ssets := valueSets(fn, status, nil)
	var errBlocks []*ssa.BasicBlock
	for _, b := range fn.Blocks {
		s, ok := ssets[b]
		if !ok || !parseCall.Block().Dominates(b) || b == parseCall.Block() {
			continue
		}
		if s.intersect(rng(lessC, lessC)).empty() && s.intersect(rng(fullC, fullC)).empty() && !s.empty() {
			errBlocks = append(errBlocks, b)
		}
	}
	if len(errBlocks) == 0 {
		r.Bad(where, "F5 error verdict", parseCall.Pos(), "no branch handles a verdict other than Less/Full")
		return
	}
	okErr := true
	for _, b := range errBlocks {
		again := reachCorrelated(b, func(in ssa.Instruction) bool {
			return in == ssa.Instruction(readCall) || in == ssa.Instruction(parseCall)
		})
		if again != nil {
			okErr = false
		}
		for _, in := range b.Instrs {
			if c := callCommon(in); c != nil {
				if sc := c.StaticCallee(); sc != nil && neverReturns(sc, nil) {
					okErr = false
				}
			}
			if _, isPanic := in.(*ssa.Panic); isPanic {
				okErr = false
			}
		}
	}
	r.Check(okErr, where, "F5 an illegal length ends this connection only", errBlocks[0].Instrs[0].Pos(), "on PackageError the loop returns (deferred/explicit close of this connection); no further Read, no exit/panic", "on PackageError the receive loop keeps reading/parsing or terminates the process")
}

var _ = types.Typ

// retPath: one way the results of a function are produced — results merged by phis in (or above) the
// returning block are split jointly into their incoming edges, and a return block that merely merges
// several branches is split into those branches. The path is identified by the edge from -> edgeTo
// (edgeTo nil: the return block itself).
type retPath struct {
	ret    *ssa.Return
	vals   []ssa.Value
	from   *ssa.BasicBlock
	edgeTo *ssa.BasicBlock
}

// pathFacts: the comparisons known to hold when the results are produced along rp.
func (rp retPath) pathFacts() []EdgeFact {
	fs := facts(rp.from)
	if rp.edgeTo != nil {
		ef := edgeFactOf(rp.from, rp.edgeTo)
		fs = append(fs, ef...)
		fs = append(fs, impliedFacts(ef, 0, map[*ssa.Phi]bool{})...)
	}
	return fs
}

// pathSet: value set of the tracked value along rp (sets = valueSets(fn, v, is)).
func (rp retPath) pathSet(sets map[*ssa.BasicBlock]iset, is tracker) iset {
	s := sets[rp.from]
	// the edge taken tests a phi of rp.from against nil / as a flag: only the predecessors whose incoming
	// value is consistent with the outcome can have been the way in, so the set is the union over those
	if rp.edgeTo != nil {
		for _, f := range edgeFactOf(rp.from, rp.edgeTo) {
			var phi *ssa.Phi
			want := 0
			if c, ok := normFact(f); ok && (c.Op == token.EQL || c.Op == token.NEQ) {
				x, y := c.X, c.Y
				if isNilConst(x) {
					x, y = y, x
				}
				if p, ok := x.(*ssa.Phi); ok && isNilConst(y) && p.Block() == rp.from {
					phi = p
					want = 2
					if c.Op == token.EQL {
						want = 1
					}
				}
			}
			if phi == nil {
				continue
			}
			var u iset
			any := false
			for i, e := range phi.Edges {
				state := 0
				if isNilConst(e) {
					state = 1
				} else if isErrorType(e.Type()) && definitelyNonNilErr(e, nil) {
					state = 2
				}
				if state != 0 && state != want {
					continue
				}
				pred := rp.from.Preds[i]
				ps := sets[pred]
				for si, succ := range pred.Succs {
					if succ == rp.from {
						ps = ps.intersect(constraintOnEdge(pred, si, is))
					}
				}
				u = u.union(ps)
				any = true
			}
			if any {
				s = s.intersect(u)
			}
		}
	}
	if rp.edgeTo != nil {
		for si, succ := range rp.from.Succs {
			if succ == rp.edgeTo {
				s = s.intersect(constraintOnEdge(rp.from, si, is))
			}
		}
	}
	return s
}

func pureMerge(b *ssa.BasicBlock) bool {
	if len(b.Preds) < 2 {
		return false
	}
	for _, in := range b.Instrs[:len(b.Instrs)-1] {
		switch in.(type) {
		case *ssa.DebugRef:
		default:
			return false
		}
	}
	return true
}

func returnPaths(fn *ssa.Function) []retPath {
	var out []retPath
	for _, b := range fn.Blocks {
		if ret, ok := b.Instrs[len(b.Instrs)-1].(*ssa.Return); ok {
			// a function with defer hands its results through result variables (`*r = v; rundefers; return
			// *r`): what is returned is what was just stored
			vals := append([]ssa.Value{}, ret.Results...)
			for i := range vals {
				vals[i] = resolveSpill(vals[i])
			}
			for _, p := range splitPaths(vals, b) {
				p.ret = ret
				out = append(out, p)
			}
		}
	}
	return out
}

// splitPaths: the ways the values vals (used in block at) are produced, see retPath.
func splitPaths(vals []ssa.Value, at *ssa.BasicBlock) []retPath {
	var out []retPath
	var ret *ssa.Return
	var expand func(ret *ssa.Return, vals []ssa.Value, from, edgeTo *ssa.BasicBlock, depth int)
	expand = func(ret *ssa.Return, vals []ssa.Value, from, edgeTo *ssa.BasicBlock, depth int) {
		// the phi block to split: the deepest block that defines a phi among vals and dominates `from`
		var pb *ssa.BasicBlock
		for _, v := range vals {
			if phi, ok := v.(*ssa.Phi); ok && (phi.Block() == from || phi.Block().Dominates(from)) {
				if pb == nil || pb.Dominates(phi.Block()) {
					pb = phi.Block()
				}
			}
		}
		if depth >= 9 {
			out = append(out, retPath{ret, vals, from, edgeTo})
			return
		}
		if pb == nil {
			_, endsInJump := from.Instrs[len(from.Instrs)-1].(*ssa.Jump)
			if (edgeTo == nil || endsInJump) && pureMerge(from) {
				for _, pred := range from.Preds {
					expand(ret, vals, pred, from, depth+1)
				}
				return
			}
			out = append(out, retPath{ret, vals, from, edgeTo})
			return
		}
		for i, pred := range pb.Preds {
			nv := make([]ssa.Value, len(vals))
			for j, v := range vals {
				if phi, ok := v.(*ssa.Phi); ok && phi.Block() == pb {
					nv[j] = phi.Edges[i]
				} else {
					nv[j] = v
				}
			}
			expand(ret, nv, pred, pb, depth+1)
		}
	}
	expand(ret, vals, at, nil, 0)
	return out
}

// reachCorrelated: is there a path from the start of block b to an instruction satisfying target?
// Phis met on the way are resolved by the edge the path actually took, and a branch on such a
// resolved boolean constant (or on its negation) is followed only in the direction the constant
// dictates — so `ok = false` set on an error path and tested after the merge (`if !ok { return }`)
// does not lead back into the loop.
func reachCorrelated(b *ssa.BasicBlock, target func(ssa.Instruction) bool) ssa.Instruction {
	type state struct {
		b    *ssa.BasicBlock
		from *ssa.BasicBlock
	}
	seen := map[state]bool{}
	var walk func(b, from *ssa.BasicBlock, env map[ssa.Value]bool, depth int) ssa.Instruction
	walk = func(b, from *ssa.BasicBlock, env map[ssa.Value]bool, depth int) ssa.Instruction {
		if depth > 200 {
			return nil
		}
		st := state{b, from}
		if seen[st] {
			return nil
		}
		seen[st] = true
		ne := env
		copied := false
		for _, in := range b.Instrs {
			if phi, ok := in.(*ssa.Phi); ok && from != nil {
				for i, p := range b.Preds {
					if p != from {
						continue
					}
					var v bool
					known := false
					if cb, ok := constBool(phi.Edges[i]); ok {
						v, known = cb, true
					} else if ev, ok := env[phi.Edges[i]]; ok {
						v, known = ev, true
					}
					if !copied {
						ne = map[ssa.Value]bool{}
						for k, x := range env {
							ne[k] = x
						}
						copied = true
					}
					if known {
						ne[phi] = v
					} else {
						delete(ne, phi)
					}
				}
				continue
			}
			if target(in) {
				return in
			}
		}
		succs := b.Succs
		if iff, ok := b.Instrs[len(b.Instrs)-1].(*ssa.If); ok && len(b.Succs) == 2 {
			c, neg := iff.Cond, false
			for {
				if u, ok := c.(*ssa.UnOp); ok && u.Op == token.NOT {
					c, neg = u.X, !neg
					continue
				}
				break
			}
			if v, ok := ne[c]; ok {
				if v != neg {
					succs = b.Succs[:1]
				} else {
					succs = b.Succs[1:2]
				}
			}
		}
		for _, s := range succs {
			if r := walk(s, b, ne, depth+1); r != nil {
				return r
			}
		}
		return nil
	}
	return walk(b, nil, map[ssa.Value]bool{}, 0)
}
