package main

import (
	"fmt"
	"go/ast"
	"go/token"
	"go/types"
	"sort"
	"strings"

	"golang.org/x/tools/go/ssa"
)

// Rules on the generator's emitter functions (AST of tars2go/gencode). The generator prints Go
// source from string fragments; what is decided here is the *sibling structure* of its emitters
// (which tag/dummy feeds which recursive emitter, in which order events happen), not the text.

type genDummy struct {
	req  string // rendered Require expression ("" when absent)
	tag  string // rendered Tag expression ("0" when absent)
	dir  string // "W" → genWriteVar, "R" → genReadVar, "" unknown
	pos  token.Pos
	fn   string
	cond string // enclosing version condition, if any
}

func genFuncs(w *World) map[string]*ast.FuncDecl {
	out := map[string]*ast.FuncDecl{}
	p := w.PPkg("gencode")
	if p == nil {
		return out
	}
	for _, f := range p.Syntax {
		for _, d := range f.Decls {
			if fd, ok := d.(*ast.FuncDecl); ok {
				out[fd.Name.Name] = fd
			}
		}
	}
	return out
}

func exprStr(e ast.Expr) string { return types.ExprString(e) }

// dummiesOf lists the StructMember dummies built in fd and the recursive emitter each one feeds.
func dummiesOf(fd *ast.FuncDecl) []genDummy {
	var out []genDummy
	var pending []*genDummy
	ast.Inspect(fd.Body, func(n ast.Node) bool {
		switch x := n.(type) {
		case *ast.AssignStmt:
			for _, rhs := range x.Rhs {
				ue, ok := rhs.(*ast.UnaryExpr)
				if !ok {
					continue
				}
				cl, ok := ue.X.(*ast.CompositeLit)
				if !ok || !strings.HasSuffix(exprStr(cl.Type), "StructMember") {
					continue
				}
				d := genDummy{tag: "0", pos: cl.Pos(), fn: fd.Name.Name}
				for _, el := range cl.Elts {
					if kv, ok := el.(*ast.KeyValueExpr); ok && exprStr(kv.Key) == "Tag" {
						d.tag = exprStr(kv.Value)
					}
					if kv, ok := el.(*ast.KeyValueExpr); ok && exprStr(kv.Key) == "Require" {
						d.req = exprStr(kv.Value)
					}
				}
				out = append(out, d)
				pending = append(pending, &out[len(out)-1])
			}
		case *ast.CallExpr:
			name := ""
			if se, ok := x.Fun.(*ast.SelectorExpr); ok {
				name = se.Sel.Name
			}
			if (name == "genWriteVar" || name == "genReadVar") && len(x.Args) > 0 && exprStr(x.Args[0]) == "dummy" {
				// feeds the most recent dummy without direction
				for i := len(out) - 1; i >= 0; i-- {
					if out[i].dir == "" {
						out[i].dir = map[string]string{"genWriteVar": "W", "genReadVar": "R"}[name]
						break
					}
				}
			}
		}
		return true
	})
	_ = pending
	return out
}

// dummiesOfW: the same list taken from the SSA form, where a composite literal and an allocation
// followed by field assignments are the same thing: for every call of a recursive emitter the member
// it is fed (an allocation in this function) with the last Tag / Require stored before the call.
func dummiesOfW(w *World, fd *ast.FuncDecl) []genDummy {
	var fn *ssa.Function
	if fd.Recv != nil {
		fn = w.Func("gencode", recvTypeName(fd)+"."+fd.Name.Name)
	} else {
		fn = w.Func("gencode", fd.Name.Name)
	}
	if fn == nil {
		return dummiesOf(fd)
	}
	var calls []*ssa.Call
	eachInstr(fn, func(in ssa.Instruction) {
		c, ok := in.(*ssa.Call)
		if !ok {
			return
		}
		if o := calleeObj(&c.Call); o != nil && (o.Name() == "genWriteVar" || o.Name() == "genReadVar") && len(c.Call.Args) >= 2 {
			calls = append(calls, c)
		}
	})
	sort.Slice(calls, func(i, j int) bool { return calls[i].Pos() < calls[j].Pos() })
	var render func(v ssa.Value) string
	render = func(v ssa.Value) string {
		if k, ok := constInt(v); ok {
			return fmt.Sprint(k)
		}
		if b, ok := constBool(v); ok {
			return fmt.Sprint(b)
		}
		switch x := v.(type) {
		case *ssa.Convert:
			return types.TypeString(x.Type(), func(*types.Package) string { return "" }) + "(" + render(x.X) + ")"
		case *ssa.BinOp:
			if isRangeIndex(x) {
				return "k"
			}
			return render(x.X) + x.Op.String() + render(x.Y)
		}
		return pathOf(v)
	}
	var out []genDummy
	for _, c := range calls {
		dir := map[string]string{"genWriteVar": "W", "genReadVar": "R"}[calleeObj(&c.Call).Name()]
		for _, leaf := range phiLeaves(c.Call.Args[1]) {
			a, ok := strip(leaf, false).(*ssa.Alloc)
			if !ok {
				if a2, ok2 := leaf.(*ssa.Alloc); ok2 {
					a, ok = a2, true
				}
			}
			if !ok {
				continue // a member handed through (not a dummy built here)
			}
			d := genDummy{tag: "0", dir: dir, pos: a.Pos(), fn: fd.Name.Name}
			last := map[string]*ssa.Store{}
			for _, ref := range *a.Referrers() {
				fa, ok := ref.(*ssa.FieldAddr)
				if !ok {
					continue
				}
				fname := fieldNameOf(fa)
				for _, r2 := range *fa.Referrers() {
					st, ok := r2.(*ssa.Store)
					if !ok || st.Addr != ssa.Value(fa) || !instrDominates(st, c) {
						continue
					}
					if l := last[fname]; l == nil || instrDominates(l, st) {
						last[fname] = st
					}
				}
			}
			if st := last["Tag"]; st != nil {
				d.tag = render(st.Val)
			}
			if st := last["Require"]; st != nil {
				d.req = render(st.Val)
			}
			out = append(out, d)
		}
	}
	return out
}

// isRangeIndex: the index of a `for k := range` loop as go/ssa builds it (k = φ(-1, k) + 1).
func isRangeIndex(b *ssa.BinOp) bool {
	if b.Op != token.ADD {
		return false
	}
	one, ok := constInt(b.Y)
	phi, ok2 := b.X.(*ssa.Phi)
	if !ok || !ok2 || one != 1 {
		return false
	}
	hasInit, hasSelf := false, false
	for _, e := range phi.Edges {
		if k, ok := constInt(e); ok && k == -1 {
			hasInit = true
		}
		if e == ssa.Value(b) {
			hasSelf = true
		}
	}
	return hasInit && hasSelf
}

func fieldNameOf(fa *ssa.FieldAddr) string {
	t := fa.X.Type().Underlying().(*types.Pointer).Elem().Underlying().(*types.Struct)
	return t.Field(fa.Field).Name()
}

func tagSet(ds []genDummy, dir string) []string {
	m := map[string]bool{}
	for _, d := range ds {
		if d.dir == dir {
			m[d.tag] = true
		}
	}
	var out []string
	for k := range m {
		out = append(out, k)
	}
	sort.Strings(out)
	return out
}

func tagSeq(ds []genDummy, dir string) []string {
	var out []string
	for _, d := range ds {
		if d.dir == dir {
			out = append(out, d.tag)
		}
	}
	return out
}

func subset(a, b []string) bool {
	m := map[string]bool{}
	for _, x := range b {
		m[x] = true
	}
	for _, x := range a {
		if !m[x] {
			return false
		}
	}
	return true
}

// caseSet: the case labels of the first `switch v.Type.Type` in fd.
// caseEmitters: for the first switch of a dispatcher, case expression -> the g.genXxx method called
// first in that case (the emitter for that type).
func caseEmitters(fd *ast.FuncDecl) map[string]string {
	out := map[string]string{}
	done := false
	ast.Inspect(fd.Body, func(n ast.Node) bool {
		sw, ok := n.(*ast.SwitchStmt)
		if !ok || done {
			return true
		}
		done = true
		for _, st := range sw.Body.List {
			cc := st.(*ast.CaseClause)
			callee := ""
			for _, bs := range cc.Body {
				ast.Inspect(bs, func(m ast.Node) bool {
					if c, ok := m.(*ast.CallExpr); ok && callee == "" {
						if se, ok := c.Fun.(*ast.SelectorExpr); ok && strings.HasPrefix(se.Sel.Name, "gen") {
							callee = se.Sel.Name
						}
					}
					return true
				})
			}
			for _, e := range cc.List {
				out[exprStr(e)] = callee
			}
		}
		return false
	})
	return out
}

func caseSet(fd *ast.FuncDecl) []string {
	var out []string
	done := false
	ast.Inspect(fd.Body, func(n ast.Node) bool {
		sw, ok := n.(*ast.SwitchStmt)
		if !ok || done {
			return true
		}
		done = true
		for _, st := range sw.Body.List {
			cc := st.(*ast.CaseClause)
			if cc.List == nil {
				out = append(out, "default")
			}
			for _, e := range cc.List {
				out = append(out, exprStr(e))
			}
		}
		return false
	})
	sort.Strings(out)
	return out
}

// stmtEvents: top-level statement order of events inside fd: "vc++", "recurse", "P:<first literal>".
func stmtEvents(fd *ast.FuncDecl) []string {
	var out []string
	ast.Inspect(fd.Body, func(n ast.Node) bool {
		switch x := n.(type) {
		case *ast.IncDecStmt:
			if strings.HasSuffix(exprStr(x.X), ".vc") && x.Tok == token.INC {
				out = append(out, "vc++")
			}
		case *ast.CallExpr:
			se, ok := x.Fun.(*ast.SelectorExpr)
			if !ok {
				return true
			}
			switch se.Sel.Name {
			case "genReadVar", "genWriteVar":
				out = append(out, "recurse")
			case "P":
				lit := ""
				for _, a := range x.Args {
					if bl, ok := a.(*ast.BasicLit); ok && bl.Kind == token.STRING {
						lit = strings.Trim(bl.Value, "`\"")
						break
					}
					if ce, ok := a.(*ast.CallExpr); ok && exprStr(ce.Fun) == "genForHead" {
						lit = "<forhead>"
						break
					}
				}
				out = append(out, "P:"+lit)
			}
		}
		return true
	})
	return out
}

func init() {
	register(&Rule{ID: "C16.R4", Props: []string{"C16", "C03", "C01", "C06"}, Min: 10, Needs: NeedTool,
		Doc: "emitter siblings agree: genWriteVar and genReadVar dispatch over the same type cases; paired container emitters feed their recursive element emitters with the same element tags (list 0; map key 0 / value 1); the tags the proxy emitter writes arguments under are the tags the dispatcher emitter reads them under and vice versa for results (argument k at k+1, return value 0); the loop-counter suffix is advanced before an emitter recurses; per-entry temporaries of the map reader are declared inside the emitted loop",
		Run: func(r *R) {
			fns := genFuncs(r.w)
			for _, n := range []string{"genWriteVar", "genReadVar", "genIFProxyFun", "genSwitchCase"} {
				if fns[n] == nil {
					r.AnchorMissing("gencode." + n)
					return
				}
			}
			// the container emitters are whatever the two dispatchers call for the vector, array and map cases
			// (an array emitter merged into the vector emitter is the same function for both cases)
			wEm, rEm := caseEmitters(fns["genWriteVar"]), caseEmitters(fns["genReadVar"])
			need := []string{"genWriteVar", "genReadVar"}
			var pairs [][2]string
			for _, k := range []string{"token.TVector", "token.TArray", "token.TMap"} {
				w, rd := wEm[k], rEm[k]
				if w == "" || rd == "" || fns[w] == nil || fns[rd] == nil {
					r.AnchorMissing("gencode: emitters for case " + k + " (writer " + w + ", reader " + rd + ")")
					return
				}
				dup := false
				for _, p := range pairs {
					if p[0] == w && p[1] == rd {
						dup = true
					}
				}
				if !dup {
					pairs = append(pairs, [2]string{w, rd})
				}
				for _, n := range []string{w, rd} {
					have := false
					for _, x := range need {
						if x == n {
							have = true
						}
					}
					if !have {
						need = append(need, n)
					}
				}
			}
			need = append(need, "genIFProxyFun", "genSwitchCase")
			var readEmitters []string
			for _, p := range pairs {
				readEmitters = append(readEmitters, p[1])
			}
			where := func(n string) string { return "tars2go/gencode." + n }
			// G1
			cw, cr := caseSet(fns["genWriteVar"]), caseSet(fns["genReadVar"])
			r.Check(strings.Join(cw, ",") == strings.Join(cr, ","), where("genWriteVar/genReadVar"), "same type cases", fns["genReadVar"].Pos(), "both dispatch over %v", "the writer dispatches over %v but the reader over %v: a type is written in one form and read in another", cw, cr)
			// G2 containers
			for _, pair := range pairs {
				a, b := tagSeq(dummiesOfW(r.w, fns[pair[0]]), "W"), tagSeq(dummiesOfW(r.w, fns[pair[1]]), "R")
				want := []string{"0"}
				if strings.Contains(pair[0], "Map") {
					want = []string{"0", "1"}
				}
				okk := strings.Join(a, ",") == strings.Join(b, ",") && strings.Join(a, ",") == strings.Join(want, ",")
				r.Check(okk, where(pair[0]+"/"+pair[1]), "element tags", fns[pair[1]].Pos(), "writer and reader use element tags %v", "element tags differ: writer %v, reader %v (wire format: list elements tag 0, map key 0 / value 1)", a, b)
			}
			// G2b elements, parameters and results are always present: every dummy member is Require: true
			for _, n := range need[2:] {
				for _, d := range dummiesOfW(r.w, fns[n]) {
					if d.dir == "" {
						continue
					}
					r.Check(d.req == "true", where(n), "element/parameter dummy is required", d.pos, "Require: true", "a recursive emitter is fed a member with Require: %s: the optional-member guards (`if v != 0`, `if len(v) > 0`) are then emitted around elements/parameters, so fewer elements are written than announced", d.req)
				}
			}
			// G2 proxy ⇄ dispatcher
			pd, dd := dummiesOfW(r.w, fns["genIFProxyFun"]), dummiesOfW(r.w, fns["genSwitchCase"])
			pw, prd := tagSet(pd, "W"), tagSet(pd, "R")
			dw, drd := tagSet(dd, "W"), tagSet(dd, "R")
			r.Check(len(pw) > 0 && subset(pw, drd), where("genIFProxyFun/genSwitchCase"), "argument tags", fns["genSwitchCase"].Pos(), "arguments are written under %v, which the dispatcher reads", "the proxy emitter writes arguments under tags %v but the dispatcher emitter reads %v: every freshly generated service mis-decodes its arguments (checked-in bindings were generated earlier and stay green)", pw, drd)
			r.Check(len(prd) > 0 && subset(prd, dw), where("genIFProxyFun/genSwitchCase"), "result tags", fns["genIFProxyFun"].Pos(), "results are read under %v, which the dispatcher writes", "the proxy emitter reads results under tags %v but the dispatcher emitter writes %v", prd, dw)
			hasK1 := func(s []string) bool {
				for _, x := range s {
					if strings.ReplaceAll(x, " ", "") == "int32(k+1)" {
						return true
					}
				}
				return false
			}
			has0 := func(s []string) bool {
				for _, x := range s {
					if x == "0" {
						return true
					}
				}
				return false
			}
			r.Check(hasK1(pw) && hasK1(drd) && has0(prd) && has0(dw), where("genIFProxyFun/genSwitchCase"), "argument k at tag k+1, return value at tag 0", fns["genIFProxyFun"].Pos(), "tag convention of the Tars RPC protocol", "the emitters do not use the protocol's convention (argument k under tag k+1, return value under tag 0): peers generated by other Tars implementations cannot interoperate")
			// G3 counter before recursion
			for _, n := range readEmitters {
				ev := stmtEvents(fns[n])
				seenInc, okk := false, true
				for _, e := range ev {
					if e == "vc++" {
						seenInc = true
					}
					if e == "recurse" && !seenInc {
						okk = false
					}
				}
				r.Check(okk && seenInc, where(n), "loop-counter suffix advanced before recursing", fns[n].Pos(), "g.vc++ precedes the recursive element emitter", "the loop-counter suffix is advanced only after the element reader has been emitted: a nested container reuses the enclosing loop's counter name (legal shadowing), so the outer collection is indexed with the inner counter")
			}
			// G5 the emitted loop head reads the shared `length` variable only in its init clause
			if fh := fns["genForHead"]; fh != nil {
				okk, n := true, 0
				ast.Inspect(fh.Body, func(nd ast.Node) bool {
					if bl, ok := nd.(*ast.BasicLit); ok && bl.Kind == token.STRING && strings.Contains(bl.Value, "length") {
						n++
						// the fragment must be the init clause: `:= ..., length;`
						v := bl.Value
						i := strings.Index(v, "length")
						if !strings.Contains(v[:i], ":=") || strings.ContainsAny(v[:i], "<>;") {
							okk = false
						}
					}
					return true
				})
				r.Check(okk && n == 1, where("genForHead"), "loop bound is a snapshot of length", fh.Pos(), "the emitted for statement copies `length` into a loop-local bound in its init clause", "the emitted loop condition re-reads the shared variable `length`, which a nested container reader overwrites: the outer loop of vector<vector<T>> / map<K,vector<V>> then runs to the last inner length")
			} else {
				r.AnchorMissing("gencode.genForHead")
			}
			// G4 map temporaries inside the loop
			ev := stmtEvents(fns["genReadMap"])
			head, firstVar := -1, -1
			for i, e := range ev {
				if e == "P:<forhead>" && head < 0 {
					head = i
				}
				if strings.HasPrefix(e, "P:var k") || strings.HasPrefix(e, "P:var v") {
					if firstVar < 0 {
						firstVar = i
					}
				}
			}
			r.Check(head >= 0 && firstVar > head, where("genReadMap"), "per-entry temporaries declared inside the loop", fns["genReadMap"].Pos(), "the key/value temporaries are emitted after the loop head", "the key/value temporaries are emitted before the loop head: one variable is reused for every entry, so an entry whose optional members are absent inherits the previous entry's values")
		}})

	register(&Rule{ID: "C16.R5", Props: []string{"C16", "C04", "C05"}, Min: 3, Needs: NeedTool,
		Doc: "generator findings that make every generated binding violate a codec property: the ResetDefault emitter must emit an assignment for every member (else an absent optional keeps a stale value on struct reuse); the fixed-array reader emitter must relate the decoded length to the array size; the vector reader emitter must not size an allocation by the unchecked decoded length",
		Run: func(r *R) {
			fns := genFuncs(r.w)
			// K2: genFunResetDefault skips members without default
			if fd := fns["genFunResetDefault"]; fd != nil {
				skips := false
				ast.Inspect(fd.Body, func(n ast.Node) bool {
					if is, ok := n.(*ast.IfStmt); ok {
						if strings.Contains(exprStr(is.Cond), `Default == ""`) {
							emits := false
							ast.Inspect(is.Body, func(m ast.Node) bool {
								if ce, ok := m.(*ast.CallExpr); ok {
									if se, ok := ce.Fun.(*ast.SelectorExpr); ok && se.Sel.Name == "P" {
										emits = true
									}
								}
								return true
							})
							for _, s := range is.Body.List {
								if bs, ok := s.(*ast.BranchStmt); ok && bs.Tok == token.CONTINUE && !emits {
									skips = true
								}
							}
						}
					}
					return true
				})
				r.Check(!skips, "tars2go/gencode.genFunResetDefault", "every member is reset", fd.Pos(), "an assignment is emitted for every member", "members without an explicit IDL default are skipped by the ResetDefault emitter: when a struct value is reused for decoding, an absent optional field keeps the previous message's value instead of its default")
			} else {
				r.AnchorMissing("gencode.genFunResetDefault")
			}
			// K6: genReadArray never looks at the array length TypeL
			if fd := fns["genReadArray"]; fd != nil {
				uses := false
				ast.Inspect(fd.Body, func(n ast.Node) bool {
					if se, ok := n.(*ast.SelectorExpr); ok && se.Sel.Name == "TypeL" {
						uses = true
					}
					return true
				})
				r.Check(uses, "tars2go/gencode.genReadArray", "decoded length is related to the array size", fd.Pos(), "the emitter refers to the array length", "the fixed-array reader emitter never refers to the array length (TypeL): the emitted loop indexes the array with a decoded length, a longer LIST panics with index out of range")
			} else {
				r.AnchorMissing("gencode.genReadArray")
			}
			// K1 (generator side): make(..., length) in container readers
			for _, n := range []string{"genReadVector", "genReadMap"} {
				fd := fns[n]
				if fd == nil {
					r.AnchorMissing("gencode." + n)
					continue
				}
				sized, guarded := false, false
				ast.Inspect(fd.Body, func(nd ast.Node) bool {
					ce, ok := nd.(*ast.CallExpr)
					if !ok {
						return true
					}
					if se, ok := ce.Fun.(*ast.SelectorExpr); !ok || se.Sel.Name != "P" {
						return true
					}
					hasMake := false
					for _, a := range ce.Args {
						if bl, ok := a.(*ast.BasicLit); ok && bl.Kind == token.STRING {
							s := bl.Value
							if strings.Contains(s, "make(") {
								hasMake = true
							}
							if hasMake && strings.Contains(s, "length") {
								sized = true
							}
							if strings.Contains(s, "length <") || strings.Contains(s, "length >") {
								guarded = true
							}
						}
					}
					return true
				})
				r.Check(!sized || guarded, "tars2go/gencode."+n, "allocation not sized by an unchecked decoded length", fd.Pos(), "no make(..., length) without a bound check is emitted", "the emitter prints `make(T, length)` with the decoded length and no bound check: every generated reader allocates what the peer announces (negative => panic, huge => memory exhaustion)")
			}
		}})
}
