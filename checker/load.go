package main

import (
	"fmt"
	"go/ast"
	"go/token"
	"go/types"
	"os"
	"path/filepath"
	"sort"
	"strings"

	"golang.org/x/tools/go/callgraph"
	"golang.org/x/tools/go/callgraph/cha"
	"golang.org/x/tools/go/callgraph/vta"
	"golang.org/x/tools/go/packages"
	"golang.org/x/tools/go/ssa"
	"golang.org/x/tools/go/ssa/ssautil"
)

const modPath = "github.com/TarsCloud/TarsGo"
const toolMod = "github.com/TarsCloud/TarsGo/tars/tools/tars2go"

// World is the loaded, type-checked program.
type World struct {
	Repo string
	Tier string
	Fset *token.FileSet

	Pkgs     map[string]*packages.Package // by import path (repo packages and deps)
	Roots    []*packages.Package          // repo packages
	Prog     *ssa.Program
	SSA      map[string]*ssa.Package
	AllBuilt bool

	ToolPkgs map[string]*packages.Package
	ToolProg *ssa.Program
	ToolSSA  map[string]*ssa.Package

	cg     *callgraph.Graph
	NPkgs  int
	NFuncs int
	NEdges int

	funcsCache map[*ssa.Package][]*ssa.Function

	Notes []string // things the reader of a report should know about how the program was loaded

	// new helper functions (see inline.go) all of whose call sites were expanded in place: their
	// own bodies are dead code and are not analysed a second time out of context
	deadHelpers map[types.Object]bool
}

// markDeadHelpers records the new functions that are no longer referenced after expansion.
func (w *World) markDeadHelpers(roots []*packages.Package, root string, newKeys map[string]bool) {
	if len(newKeys) == 0 {
		return
	}
	if w.deadHelpers == nil {
		w.deadHelpers = map[types.Object]bool{}
	}
	used := map[types.Object]bool{}
	for _, p := range roots {
		for _, obj := range p.TypesInfo.Uses {
			if _, ok := obj.(*types.Func); ok {
				used[obj] = true
			}
		}
	}
	for _, p := range roots {
		for i, af := range p.Syntax {
			if i >= len(p.CompiledGoFiles) {
				continue
			}
			rel, _ := filepath.Rel(root, filepath.Dir(p.CompiledGoFiles[i]))
			for _, d := range af.Decls {
				fd, ok := d.(*ast.FuncDecl)
				if !ok || !newKeys[funcKey(filepath.ToSlash(rel), fd)] {
					continue
				}
				if obj := p.TypesInfo.Defs[fd.Name]; obj != nil && !used[obj] && !ast.IsExported(fd.Name.Name) {
					w.deadHelpers[obj] = true
				}
			}
		}
	}
}

func firstLine(s string) string {
	s = strings.TrimSpace(s)
	if i := strings.Index(s, "\n"); i >= 0 {
		s = s[:i]
	}
	if len(s) > 300 {
		s = s[:300] + "…"
	}
	return s
}

func loadModule(dir string, fset *token.FileSet, overlay map[string][]byte, patterns ...string) ([]*packages.Package, error) {
	cfg := &packages.Config{
		Mode:    packages.LoadAllSyntax,
		Dir:     dir,
		Fset:    fset,
		Tests:   false,
		Overlay: overlay,
		Env: append(os.Environ(), "GOFLAGS=-mod=mod", "GOPROXY=off", "GOSUMDB=off", "GOTOOLCHAIN=local", "GOWORK=off",
			"GOOS=linux", "GOARCH=amd64", "CGO_ENABLED=0"),
	}
	pkgs, err := packages.Load(cfg, patterns...)
	if err != nil {
		return nil, fmt.Errorf("cannot-analyse: packages.Load(%s): %v", dir, err)
	}
	if len(pkgs) == 0 {
		return nil, fmt.Errorf("cannot-analyse: no packages loaded from %s", dir)
	}
	var errs []string
	packages.Visit(pkgs, nil, func(p *packages.Package) {
		for _, e := range p.Errors {
			errs = append(errs, e.Error())
		}
		if p.IllTyped && len(p.Errors) == 0 {
			errs = append(errs, p.PkgPath+": ill-typed")
		}
	})
	if len(errs) > 0 {
		sort.Strings(errs)
		if len(errs) > 8 {
			errs = errs[:8]
		}
		return nil, fmt.Errorf("cannot-analyse: load/type errors in %s:\n  %s", dir, strings.Join(errs, "\n  "))
	}
	return pkgs, nil
}

func loadWorld(repo string, needs int) (*World, error) {
	abs, err := filepath.Abs(repo)
	if err != nil {
		return nil, err
	}
	w := &World{Repo: abs, Fset: token.NewFileSet(), Pkgs: map[string]*packages.Package{}, SSA: map[string]*ssa.Package{},
		ToolPkgs: map[string]*packages.Package{}, ToolSSA: map[string]*ssa.Package{}, funcsCache: map[*ssa.Package][]*ssa.Function{}}
	tdir := filepath.Join(abs, "tars/tools/tars2go")
	plan := computeRenamePlan(abs)
	nameOv, nnotes := buildNameOverlay(abs, abs, plan, "./tars/...")
	w.Notes = append(w.Notes, nnotes...)
	var toolNameOv map[string][]byte
	allNameOv := map[string][]byte{}
	for k, v := range nameOv {
		allNameOv[k] = v
	}
	if needs&NeedTool != 0 {
		var tn []string
		toolNameOv, tn = buildNameOverlay(tdir, abs, plan, "./...")
		w.Notes = append(w.Notes, tn...)
		for k, v := range toolNameOv {
			allNameOv[k] = v
		}
	}
	newKeys := newFuncKeys(abs, allNameOv)
	overlay, notes := buildOverlay(abs, abs, newKeys, nameOv, "./tars/...")
	w.Notes = append(w.Notes, notes...)
	if d := os.Getenv("TARSVERIF_DUMP_OVERLAY"); d != "" { // developer aid: what is analysed instead of the files on disk
		for name, src := range overlay {
			rel, _ := filepath.Rel(abs, name)
			_ = os.MkdirAll(filepath.Join(d, filepath.Dir(rel)), 0o755)
			_ = os.WriteFile(filepath.Join(d, rel), src, 0o644)
		}
	}
	roots, err := loadModule(abs, w.Fset, overlay, "./tars/...")
	if err != nil && overlay != nil {
		w.Notes = append(w.Notes, "name/helper normalisation abandoned (the rewritten source does not type-check: "+firstLine(err.Error())+"); analysing the source as written")
		w.Fset = token.NewFileSet()
		roots, err = loadModule(abs, w.Fset, nil, "./tars/...")
	}
	if err != nil {
		return nil, err
	}
	w.Roots = roots
	if overlay != nil {
		w.markDeadHelpers(roots, abs, newKeys)
	}
	packages.Visit(roots, nil, func(p *packages.Package) { w.Pkgs[p.PkgPath] = p })
	prog, spkgs := ssautil.AllPackages(roots, ssa.InstantiateGenerics)
	w.Prog = prog
	for i, p := range roots {
		if spkgs[i] == nil {
			return nil, fmt.Errorf("cannot-analyse: no SSA package for %s", p.PkgPath)
		}
		w.SSA[p.PkgPath] = spkgs[i]
	}
	if needs&NeedCG != 0 {
		prog.Build()
		w.AllBuilt = true
	} else {
		for _, sp := range spkgs {
			sp.Build()
		}
	}
	for _, sp := range w.SSA {
		w.NFuncs += len(w.Funcs(sp))
	}
	w.NPkgs = len(roots)
	if len(roots) < 30 {
		return nil, fmt.Errorf("cannot-analyse: only %d packages under ./tars/... (expected ≥ 30)", len(roots))
	}
	if needs&NeedTool != 0 {
		toverlay, tnotes := buildOverlay(tdir, abs, newKeys, toolNameOv, "./...")
		w.Notes = append(w.Notes, tnotes...)
		troots, err := loadModule(tdir, w.Fset, toverlay, "./...")
		if err != nil && toverlay != nil {
			w.Notes = append(w.Notes, "name/helper normalisation abandoned for tars2go ("+firstLine(err.Error())+")")
			troots, err = loadModule(tdir, w.Fset, nil, "./...")
		}
		if err != nil {
			return nil, err
		}
		if toverlay != nil {
			w.markDeadHelpers(troots, abs, newKeys)
		}
		packages.Visit(troots, nil, func(p *packages.Package) { w.ToolPkgs[p.PkgPath] = p })
		tprog, tsp := ssautil.AllPackages(troots, ssa.InstantiateGenerics)
		w.ToolProg = tprog
		for i, p := range troots {
			w.ToolSSA[p.PkgPath] = tsp[i]
			tsp[i].Build()
			w.NFuncs += len(w.Funcs(tsp[i]))
		}
		w.NPkgs += len(troots)
		if len(troots) < 8 {
			return nil, fmt.Errorf("cannot-analyse: only %d packages in the tars2go module", len(troots))
		}
	}
	return w, nil
}

// CG returns the VTA call graph (over CHA) of the main program; built lazily.
func (w *World) CG() *callgraph.Graph {
	if w.cg != nil {
		return w.cg
	}
	if !w.AllBuilt {
		w.Prog.Build()
		w.AllBuilt = true
	}
	fns := ssautil.AllFunctions(w.Prog)
	w.cg = vta.CallGraph(fns, cha.CallGraph(w.Prog))
	n := 0
	for _, nd := range w.cg.Nodes {
		n += len(nd.Out)
	}
	w.NEdges = n
	return w.cg
}

// Funcs lists every function of an SSA package: package-level functions, methods of its named
// types (value and pointer receivers), and all anonymous functions nested in them.
func (w *World) Funcs(sp *ssa.Package) []*ssa.Function {
	if fs, ok := w.funcsCache[sp]; ok {
		return fs
	}
	seen := map[*ssa.Function]bool{}
	var out []*ssa.Function
	var add func(f *ssa.Function)
	add = func(f *ssa.Function) {
		if f == nil || seen[f] || f.Blocks == nil {
			return
		}
		if o := f.Object(); o != nil && w.deadHelpers[o] {
			return
		}
		seen[f] = true
		out = append(out, f)
		for _, a := range f.AnonFuncs {
			add(a)
		}
	}
	var names []string
	for n := range sp.Members {
		names = append(names, n)
	}
	sort.Strings(names)
	for _, n := range names {
		switch m := sp.Members[n].(type) {
		case *ssa.Function:
			add(m)
		case *ssa.Type:
			nt, ok := m.Type().(*types.Named)
			if !ok {
				continue
			}
			for _, t := range []types.Type{nt, types.NewPointer(nt)} {
				ms := sp.Prog.MethodSets.MethodSet(t)
				for i := 0; i < ms.Len(); i++ {
					fn := sp.Prog.MethodValue(ms.At(i))
					if fn != nil && fn.Pkg == sp && fn.Synthetic == "" {
						add(fn)
					}
				}
			}
		}
	}
	w.funcsCache[sp] = out
	return out
}

// Pkg returns the SSA package for a path relative to the module ("tars/protocol/codec").
func (w *World) Pkg(rel string) *ssa.Package {
	if sp := w.SSA[modPath+"/"+rel]; sp != nil {
		return sp
	}
	return w.ToolSSA[toolMod+"/"+rel]
}

func (w *World) PPkg(rel string) *packages.Package {
	if p := w.Pkgs[modPath+"/"+rel]; p != nil {
		return p
	}
	return w.ToolPkgs[toolMod+"/"+rel]
}

// Func resolves "Name" or "Type.Method" in a repo package; nil when missing.
func (w *World) Func(rel, name string) *ssa.Function {
	sp := w.Pkg(rel)
	if sp == nil {
		return nil
	}
	if tn, mn, ok := strings.Cut(name, "."); ok {
		obj := sp.Pkg.Scope().Lookup(tn)
		if obj == nil {
			return nil
		}
		nt, ok := obj.Type().(*types.Named)
		if !ok {
			return nil
		}
		for _, t := range []types.Type{types.NewPointer(nt), nt} {
			sel := sp.Prog.MethodSets.MethodSet(t).Lookup(sp.Pkg, mn)
			if sel != nil {
				if fn := sp.Prog.MethodValue(sel); fn != nil && fn.Synthetic == "" {
					return fn
				}
			}
		}
		return nil
	}
	return sp.Func(name)
}

// FuncDecl returns the AST declaration of an SSA function (nil for closures/synthetic).
func (w *World) FuncDecl(fn *ssa.Function) *ast.FuncDecl {
	if fn == nil {
		return nil
	}
	if d, ok := fn.Syntax().(*ast.FuncDecl); ok {
		return d
	}
	return nil
}

// fname gives "pkg.Func" / "pkg.(*T).M" / "pkg.F$1" with the package path relative to the module.
func fname(fn *ssa.Function) string {
	if fn == nil {
		return "<nil>"
	}
	s := fn.String()
	s = strings.ReplaceAll(s, toolMod+"/", "tars2go/")
	s = strings.ReplaceAll(s, modPath+"/", "")
	return s
}

func relPkg(p *types.Package) string {
	if p == nil {
		return ""
	}
	s := p.Path()
	if v, ok := strings.CutPrefix(s, toolMod+"/"); ok {
		return v
	}
	if v, ok := strings.CutPrefix(s, modPath+"/"); ok {
		return v
	}
	return s
}
