package main

import (
	"fmt"
	"go/token"
	"go/types"
	"sort"
	"strings"

	"golang.org/x/tools/go/ssa"
)

var selectorPkgs = []string{"tars/selector/roundrobin", "tars/selector/random", "tars/selector/modhash", "tars/selector/consistenthash"}

// selectorTypes: named struct types in the selector packages that embed a sync mutex and
// implement selector.Selector.
func selectorTypes(w *World) map[*ssa.Package][]*types.Named {
	out := map[*ssa.Package][]*types.Named{}
	for _, rel := range selectorPkgs {
		sp := w.Pkg(rel)
		if sp == nil {
			continue
		}
		var names []string
		for n := range sp.Members {
			names = append(names, n)
		}
		sort.Strings(names)
		for _, n := range names {
			t, ok := sp.Members[n].(*ssa.Type)
			if !ok {
				continue
			}
			nt, ok := t.Type().(*types.Named)
			if !ok {
				continue
			}
			st, ok := nt.Underlying().(*types.Struct)
			if !ok {
				continue
			}
			hasMu := false
			for i := 0; i < st.NumFields(); i++ {
				if id := typeID(st.Field(i).Type()); id == "sync.RWMutex" || id == "sync.Mutex" {
					hasMu = true
				}
			}
			if hasMu {
				out[sp] = append(out[sp], nt)
			}
		}
	}
	return out
}

type fieldAccess struct {
	in    ssa.Instruction
	field string
	kind  string // read | write | atomic
	what  string
}

// recvFieldAccesses classifies accesses to fields of the method receiver in fn.
func recvFieldAccesses(fn *ssa.Function) []fieldAccess {
	var out []fieldAccess
	eachInstr(fn, func(in ssa.Instruction) {
		fa, ok := in.(*ssa.FieldAddr)
		if !ok || !isRecvValue(fn, fa.X) {
			return
		}
		st := derefStruct(fa.X.Type())
		if st == nil {
			return
		}
		f := st.Field(fa.Field)
		if id := typeID(f.Type()); id == "sync.RWMutex" || id == "sync.Mutex" {
			return
		}
		for _, ref := range *fa.Referrers() {
			switch x := ref.(type) {
			case *ssa.Store:
				if x.Addr == ssa.Value(fa) {
					out = append(out, fieldAccess{x, f.Name(), "write", "assignment"})
				}
			case *ssa.UnOp:
				kind, what := "read", "load"
				var at ssa.Instruction = x
				for _, r2 := range *x.Referrers() {
					switch y := r2.(type) {
					case *ssa.MapUpdate:
						if y.Map == ssa.Value(x) {
							kind, what, at = "write", "map assignment", y
						}
					case *ssa.IndexAddr:
						for _, r3 := range *y.Referrers() {
							if s3, ok := r3.(*ssa.Store); ok && s3.Addr == ssa.Value(y) {
								kind, what, at = "write", "element assignment", s3
							}
						}
					case ssa.CallInstruction:
						c := y.Common()
						if builtinName(c) == "delete" && c.Args[0] == ssa.Value(x) {
							kind, what, at = "write", "delete", y
						}
						if o := calleeObj(c); o != nil {
							if sig := o.Type().(*types.Signature); sig.Recv() != nil && typeID(sig.Recv().Type()) == "math/rand.Rand" && len(c.Args) > 0 && c.Args[0] == ssa.Value(x) {
								kind, what, at = "write", "call of (*rand.Rand)."+o.Name()+" (mutates the generator)", y
							}
						}
					}
				}
				out = append(out, fieldAccess{at, f.Name(), kind, what})
			case ssa.CallInstruction:
				if atomicOp(x.Common()) != "" {
					out = append(out, fieldAccess{x, f.Name(), "atomic", "sync/atomic." + atomicOp(x.Common())})
				}
			}
		}
	})
	return out
}

// pathPositive: dominating facts at block b make the value with access path p strictly positive
// (p > 0, p >= 1, or p != 0 for a length / unsigned value).
func pathPositive(b *ssa.BasicBlock, v ssa.Value) bool {
	p := pathOf(v)
	nonneg := strings.HasPrefix(p, "len(") || strings.HasPrefix(p, "cap(")
	if tr := typeRange(stripWiden(v).Type()); len(tr) == 1 && tr[0].lo >= 0 {
		nonneg = true
	}
	if k, ok := constInt(v); ok {
		return k > 0
	}
	for _, f := range facts(b) {
		c, ok := normFact(f)
		if !ok {
			continue
		}
		x, y, op := c.X, c.Y, c.Op
		if _, isC := constInt(x); isC {
			x, y, op = y, x, swapOp(op)
		}
		k, isK := constInt(y)
		if !isK || pathOf(x) != p {
			continue
		}
		switch {
		case op == token.GTR && k >= 0, op == token.GEQ && k >= 1:
			return true
		case op == token.NEQ && k == 0 && nonneg:
			return true
		}
	}
	// correlated branches: assume the boolean field facts that dominate this site and propagate the
	// value set of p through the function (e.g. `if !e.direct && len(l) == 0 { return }` earlier)
	fn := b.Parent()
	assume := map[string]bool{}
	for _, f := range facts(b) {
		if c, ok := normFact(f); ok && c.Op == token.EQL {
			if cb, isB := constBool(c.Y); isB {
				if _, name, _, isF := loadedField(c.X); isF && !fieldStoredIn(fn, name) {
					assume[pathOf(c.X)] = cb
				}
			}
		}
	}
	if len(assume) > 0 && nonneg {
		is := func(e ssa.Value) bool { return pathOf(e) == p }
		sets := valueSetsAssuming(fn, types.Typ[types.Int], is, assume)
		if s, ok := sets[b]; ok && s.intersect(rng(0, posInf)).subsetOf(rng(1, posInf)) && !s.empty() {
			return true
		}
	}
	return false
}

func fieldStoredIn(fn *ssa.Function, name string) bool {
	found := false
	eachInstr(fn, func(in ssa.Instruction) {
		if st, ok := in.(*ssa.Store); ok {
			if fv, _, ok := fieldAddrOf(st.Addr); ok && fv.Name() == name {
				found = true
			}
		}
	})
	return found
}

// nonNegativeAt: value is >= 0 on every path (constants, lengths, guarded values, phis of those,
// sums of those).
func nonNegativeAt(v ssa.Value, b *ssa.BasicBlock, depth int) bool {
	if depth > 6 {
		return false
	}
	if k, ok := constInt(v); ok {
		return k >= 0
	}
	p := pathOf(v)
	if strings.HasPrefix(p, "len(") || strings.HasPrefix(p, "cap(") {
		return true
	}
	if tr := typeRange(stripWiden(v).Type()); len(tr) == 1 && tr[0].lo >= 0 {
		return true
	}
	for _, f := range facts(b) {
		c, ok := normFact(f)
		if !ok {
			continue
		}
		if k, isK := constInt(c.Y); isK && (c.X == v || pathOf(c.X) == p) {
			if (c.Op == token.GEQ && k >= 0) || (c.Op == token.GTR && k >= -1) {
				return true
			}
		}
	}
	// a struct field that is only ever assigned non-negative constants
	if ld, ok := v.(*ssa.UnOp); ok && ld.Op == token.MUL {
		if fv, _, ok := fieldAddrOf(ld.X); ok && b != nil {
			all, any := true, false
			if pkg := b.Parent().Pkg; pkg != nil {
				for _, m := range pkg.Members {
					_ = m
				}
				var fns []*ssa.Function
				for _, m := range pkg.Members {
					if f, ok := m.(*ssa.Function); ok {
						fns = append(fns, f)
					}
				}
				for _, m := range pkg.Members {
					if t, ok := m.(*ssa.Type); ok {
						if nt, ok := t.Type().(*types.Named); ok {
							for _, T := range []types.Type{nt, types.NewPointer(nt)} {
								ms := pkg.Prog.MethodSets.MethodSet(T)
								for i := 0; i < ms.Len(); i++ {
									if f := pkg.Prog.MethodValue(ms.At(i)); f != nil && f.Pkg == pkg {
										fns = append(fns, f)
									}
								}
							}
						}
					}
				}
				for _, f := range fns {
					eachInstrDeep(f, func(g *ssa.Function, in ssa.Instruction) {
						if st, ok := in.(*ssa.Store); ok {
							if fv2, _, ok := fieldAddrOf(st.Addr); ok && fv2 == fv {
								any = true
								if k, isC := constInt(st.Val); !isC || k < 0 {
									all = false
								}
							}
						}
					})
				}
			}
			if any && all {
				return true
			}
		}
	}
	switch x := v.(type) {
	case *ssa.Phi:
		for i, e := range x.Edges {
			pred := x.Block().Preds[i]
			ok := nonNegativeAt(e, pred, depth+1)
			if !ok {
				// the edge itself may carry the fact
				for _, f := range edgeFactOf(pred, x.Block()) {
					if c, okc := normFact(f); okc && c.X == e {
						if k, isK := constInt(c.Y); isK && ((c.Op == token.GEQ && k >= 0) || (c.Op == token.GTR && k >= -1)) {
							ok = true
						}
					}
				}
			}
			if !ok {
				return false
			}
		}
		return true
	case *ssa.BinOp:
		if x.Op == token.ADD || x.Op == token.MUL {
			return nonNegativeAt(x.X, b, depth+1) && nonNegativeAt(x.Y, b, depth+1)
		}
	case *ssa.Convert:
		return nonNegativeAt(x.X, b, depth+1)
	}
	return false
}

func init() {
	register(&Rule{ID: "C13.R1", Props: []string{"C13"}, Min: 40, Needs: NeedMain,
		Doc: "lock discipline of the selectors (lockset analysis): every access to a field that is written after construction happens under the selector's lock; every write — assignment, map update/delete, element store, and calls that mutate a non-thread-safe value such as *rand.Rand — needs the write lock; sync/atomic operations are allowed under the read lock",
		Run: func(r *R) {
			for sp, nts := range selectorTypes(r.w) {
				for _, nt := range nts {
					la := newLockAnalysis(r.w, sp, nt)
					written := map[string]bool{}
					type acc struct {
						fn *ssa.Function
						a  fieldAccess
					}
					var all []acc
					for _, fn := range la.methods {
						for _, a := range recvFieldAccesses(fn) {
							all = append(all, acc{fn, a})
							if a.kind == "write" {
								written[a.field] = true
							}
						}
					}
					for _, x := range all {
						if !written[x.a.field] {
							continue
						}
						st, ok := la.at[x.a.in]
						if !ok {
							continue // unreachable helper
						}
						need := lkR
						if x.a.kind == "write" {
							need = lkW
						}
						// atomic read-modify-write that is not a pure increment (Store/Swap/CompareAndSwap) is a
						// write as far as other readers are concerned: an `Add` followed by a `Store` is a
						// check-then-act race under the read lock
						if x.a.kind == "atomic" && !(strings.Contains(x.a.what, ".Add") || strings.Contains(x.a.what, ".Load")) {
							need = lkW
						}
						cons := x.a.kind + " " + nt.Obj().Name() + "." + x.a.field
						if st >= need {
							r.OK(fname(x.fn), cons, x.a.in.Pos(), "%s under the %s", x.a.what, st)
						} else {
							r.Bad(fname(x.fn), cons, x.a.in.Pos(), "%s of %s with %s held (needs the %s): concurrent selections and updates race on the selector state", x.a.what, x.a.field, st, need)
						}
					}
				}
			}
		}})

	register(&Rule{ID: "C13.R2", Props: []string{"C13"}, Min: 8, Needs: NeedMain,
		Doc: "no division, modulo or rand.Intn by a possibly non-positive value and no slice allocation with a possibly negative size in the selectors, the weight-list builder and the adapter selection: each is dominated by a guard making the operand positive (resp. non-negative)",
		Run: func(r *R) {
			var fns []*ssa.Function
			for _, rel := range append([]string{"tars/selector"}, selectorPkgs...) {
				if sp := r.w.Pkg(rel); sp != nil {
					fns = append(fns, r.w.Funcs(sp)...)
				} else {
					r.AnchorMissing("package " + rel)
				}
			}
			if f := r.w.Func("tars", "endpointManager.SelectAdapterProxy"); f != nil {
				fns = append(fns, f)
			} else {
				r.AnchorMissing("tars.(*endpointManager).SelectAdapterProxy")
			}
			for _, fn := range fns {
				eachInstr(fn, func(in ssa.Instruction) {
					switch x := in.(type) {
					case *ssa.BinOp:
						if x.Op != token.QUO && x.Op != token.REM {
							return
						}
						if b, ok := x.Type().Underlying().(*types.Basic); !ok || b.Info()&types.IsInteger == 0 {
							return
						}
						if _, isC := constInt(x.Y); isC {
							return
						}
						cons := fmt.Sprintf("%s by %s", map[token.Token]string{token.QUO: "division", token.REM: "modulo"}[x.Op], pathOf(x.Y))
						r.Check(pathPositive(in.Block(), x.Y), fname(fn), cons, in.Pos(), "divisor is guarded positive", "the divisor %s can be zero here (e.g. all static weights 0, or an empty list): integer divide by zero panics, inside the selector with its lock held", pathOf(x.Y))
					case *ssa.Call:
						o := calleeObj(&x.Call)
						if o != nil && o.Name() == "Intn" && o.Pkg() != nil && o.Pkg().Path() == "math/rand" {
							arg := x.Call.Args[len(x.Call.Args)-1]
							r.Check(pathPositive(in.Block(), arg), fname(fn), "rand.Intn("+pathOf(arg)+")", in.Pos(), "argument is guarded positive", "Intn(%s) panics for n <= 0 and the argument is not guarded", pathOf(arg))
						}
					case *ssa.MakeSlice:
						for _, sz := range []ssa.Value{x.Len, x.Cap} {
							if _, isC := constInt(sz); isC {
								continue
							}
							r.Check(nonNegativeAt(sz, in.Block(), 0), fname(fn), "make size "+pathOf(sz), in.Pos(), "size is non-negative on every path", "make() with size %s, which can be negative (e.g. a negative weight sum): makeslice panics", pathOf(sz))
						}
					}
				})
			}
		}})

	register(&Rule{ID: "C13.R3", Props: []string{"C13", "C14"}, Min: 12, Needs: NeedMain,
		Doc: "derived state is rebuilt after every membership change: in each selector, from every mutation of the member state (directly or through a helper that mutates only when it returns nil) every path to the method's return passes the rebuild/sort function that Refresh ends with",
		Run: func(r *R) {
			for sp, nts := range selectorTypes(r.w) {
				for _, nt := range nts {
					methods := map[string]*ssa.Function{}
					for _, fn := range r.w.Funcs(sp) {
						if fn.Parent() == nil && fn.Signature.Recv() != nil && namedOf(fn.Signature.Recv().Type()) == nt {
							methods[fn.Name()] = fn
						}
					}
					refresh := methods["Refresh"]
					if refresh == nil {
						r.AnchorMissing(nt.Obj().Name() + ".Refresh")
						continue
					}
					// rebuild set
					rebuild := map[*ssa.Function]bool{}
					var last *ssa.Function
					eachInstr(refresh, func(in ssa.Instruction) {
						if c, ok := in.(*ssa.Call); ok {
							if sc := c.Call.StaticCallee(); sc != nil && methods[sc.Name()] == sc {
								last = sc
							}
						}
					})
					if last == nil {
						r.Bad(fname(refresh), "rebuild call", refresh.Pos(), "Refresh does not end with a rebuild of the derived state")
						continue
					}
					rebuild[last] = true
					for ch := true; ch; {
						ch = false
						for _, m := range methods {
							if rebuild[m] {
								continue
							}
							eachInstr(m, func(in ssa.Instruction) {
								if c := callCommon(in); c != nil && c.StaticCallee() != nil && rebuild[c.StaticCallee()] && !m.Object().Exported() {
									rebuild[m] = true
									ch = true
								}
							})
						}
					}
					isRebuild := func(in ssa.Instruction) bool {
						c := callCommon(in)
						return c != nil && c.StaticCallee() != nil && rebuild[c.StaticCallee()]
					}
					// mutating helpers: non-rebuild, unexported methods that write receiver fields
					mutHelper := map[*ssa.Function]bool{}
					for _, m := range methods {
						if rebuild[m] || m.Object().Exported() {
							continue
						}
						for _, a := range recvFieldAccesses(m) {
							if a.kind == "write" {
								mutHelper[m] = true
							}
						}
					}
					// helper summary: no mutation is followed by an error return
					for m := range mutHelper {
						if errorIndex(m.Signature) < 0 {
							continue
						}
						okSum := true
						for _, a := range recvFieldAccesses(m) {
							if a.kind != "write" {
								continue
							}
							bad := reachAvoiding(a.in, func(in ssa.Instruction) bool {
								ret, ok := in.(*ssa.Return)
								return ok && definitelyNonNilErr(ret.Results[errorIndex(m.Signature)], in.Block())
							}, nil)
							if bad != nil {
								okSum = false
							}
						}
						r.Check(okSum, fname(m), "helper mutates only when it returns nil", m.Pos(), "every error return precedes the mutation", "the helper can return an error after having changed the member state: its callers skip the rebuild on that path")
					}
					for _, name := range []string{"Refresh", "Add", "Remove"} {
						m := methods[name]
						if m == nil {
							r.AnchorMissing(nt.Obj().Name() + "." + name)
							continue
						}
						var muts []ssa.Instruction
						for _, a := range recvFieldAccesses(m) {
							if a.kind == "write" {
								muts = append(muts, a.in)
							}
						}
						eachInstr(m, func(in ssa.Instruction) {
							if c := callCommon(in); c != nil && c.StaticCallee() != nil && mutHelper[c.StaticCallee()] {
								muts = append(muts, in)
							}
						})
						okAll := len(muts) > 0
						var off ssa.Instruction
						for _, mu := range muts {
							var helperErr ssa.Value
							if c, ok := mu.(*ssa.Call); ok {
								helperErr, _, _ = errResult(c)
							}
							stop := func(in ssa.Instruction) bool {
								if isRebuild(in) {
									return true
								}
								// path on which the helper failed (and therefore did not mutate)
								if helperErr != nil && in == in.Block().Instrs[0] && knownNonNilAt(helperErr, in.Block()) {
									return true
								}
								return false
							}
							if ex := reachAvoiding(mu, isReturn, stop); ex != nil {
								okAll = false
								off = mu
							}
						}
						pos := m.Pos()
						if off != nil {
							pos = off.Pos()
						}
						r.Check(okAll, fname(m), "rebuild after membership change", pos, "every path from a mutation to the return passes %s", "a path leads from a membership change to the return without %s: the derived state (weight cycle, start position, sorted ring) is stale — a stale index into a shorter list panics, a removed endpoint is still returned", last.Name())
					}
				}
			}
		}})

	register(&Rule{ID: "C13.R4", Props: []string{"C13", "C15"}, Min: 3, Needs: NeedMain,
		Doc: "the manager updates its three selectors together: wherever one of the round-robin / consistent-hash / mod-hash selectors of the endpoint manager receives Add, Remove or Refresh (or is assigned), the other two receive the same operation with the same argument in the same block",
		Run: func(r *R) {
			sp := r.w.Pkg("tars")
			fields := []string{"activeEpRoundRobin", "activeEpConHash", "activeEpModHash"}
			for _, fn := range r.w.Funcs(sp) {
				type op struct{ field, name, arg string }
				per := map[*ssa.BasicBlock][]op{}
				eachInstr(fn, func(in ssa.Instruction) {
					c := callCommon(in)
					if c != nil {
						if rv := callRecv(c); rv != nil {
							p := pathOf(rv)
							o := calleeObj(c)
							for _, f := range fields {
								if o != nil && strings.HasSuffix(p, "."+f) && (o.Name() == "Add" || o.Name() == "Remove" || o.Name() == "Refresh") {
									per[in.Block()] = append(per[in.Block()], op{f, o.Name(), pathOf(callArgs(c)[0])})
								}
							}
						}
					}
					if st, ok := in.(*ssa.Store); ok {
						if fv, _, ok := fieldAddrOf(st.Addr); ok {
							for _, f := range fields {
								if fv.Name() == f {
									// a freshly built selector: the argument of its Refresh identifies the installed set
									arg := "?"
									eachInstr(fn, func(j ssa.Instruction) {
										if cc := callCommon(j); cc != nil {
											if o := calleeObj(cc); o != nil && o.Name() == "Refresh" && callRecv(cc) == st.Val {
												arg = pathOf(callArgs(cc)[0])
											}
										}
									})
									per[in.Block()] = append(per[in.Block()], op{f, "assign", arg})
								}
							}
						}
					}
				})
				for b, ops := range per {
					byName := map[string]map[string]string{}
					for _, o := range ops {
						if byName[o.name] == nil {
							byName[o.name] = map[string]string{}
						}
						byName[o.name][o.field] = o.arg
					}
					for name, m := range byName {
						args := map[string]bool{}
						for _, a := range m {
							args[a] = true
						}
						r.Check(len(m) == 3 && len(args) == 1, fname(fn), name+" on all three selectors", b.Instrs[0].Pos(), "all three selectors receive %s with the same argument", "%s reaches only %d of the three selectors (or with different arguments): routing strategies disagree about the member set — a blocked endpoint keeps being selected by the others", name, len(m))
					}
				}
			}
		}})

	register(&Rule{ID: "C13.R5", Props: []string{"C13"}, Min: 2, Needs: NeedMain,
		Doc: "rotation: round-robin selection indexes its list with atomic.AddUint64(&cursor, 1) reduced modulo the length of that same list; the cursors have no writer outside the write-locked rebuild",
		Run: func(r *R) {
			fn := r.w.Func("tars/selector/roundrobin", "RoundRobin.Select")
			if fn == nil {
				r.AnchorMissing("roundrobin.(*RoundRobin).Select")
				return
			}
			n := 0
			eachInstr(fn, func(in ssa.Instruction) {
				b, ok := in.(*ssa.BinOp)
				if !ok || b.Op != token.REM {
					return
				}
				n++
				add, isAdd := b.X.(*ssa.Call)
				okAdd := isAdd && atomicOp(&add.Call) == "AddUint64"
				if okAdd {
					d, _ := constInt(add.Call.Args[1])
					okAdd = d == 1
				}
				lenPath := pathOf(b.Y)
				// the result indexes the list whose length it was reduced by
				idxOK := false
				for _, idxUse := range indexedBy(b, 0) {
					if "len("+pathOf(idxUse)+")" == lenPath {
						idxOK = true
					}
				}
				r.Check(okAdd && idxOK, fname(fn), "cursor step "+lenPath, in.Pos(), "index = atomic.AddUint64(&cursor,1) %% %s, used to index that list", "the rotation index is not an atomic +1 cursor reduced modulo the length of the list it indexes (%s): strict rotation is lost or the index can run past the list", lenPath)
			})
			if n != 2 {
				r.Bad(fname(fn), "rotation sites", fn.Pos(), "found %d modulo reductions (expected the plain and the weighted rotation)", n)
			}
		}})

	register(&Rule{ID: "C13.R6", Props: []string{"C13"}, Min: 4, Needs: NeedMain,
		Doc: "an error only when empty: every error return of the selectors' Select (and of the lookup they delegate to) is on the edge where the member list / ring is observed empty",
		Run: func(r *R) {
			for sp, nts := range selectorTypes(r.w) {
				for _, nt := range nts {
					for _, fn := range r.w.Funcs(sp) {
						if fn.Parent() != nil || fn.Signature.Recv() == nil || namedOf(fn.Signature.Recv().Type()) != nt {
							continue
						}
						if fn.Name() != "Select" && fn.Name() != "Find" && fn.Name() != "FindInt32" {
							continue
						}
						for _, rp := range returnPaths(fn) {
							ret, b := rp.ret, rp.from
							if ret.Block() == fn.Recover {
								continue
							}
							var failing bool
							if idx := errorIndex(fn.Signature); idx >= 0 {
								failing = definitelyNonNilErr(rp.vals[idx], b)
							} else if len(rp.vals) == 2 {
								if v, isC := constBool(resolveSpill(rp.vals[1])); isC && !v {
									failing = true
								}
							}
							if !failing {
								continue
							}
							empty := false
							for _, f := range rp.pathFacts() {
								c, okc := normFact(f)
								if !okc {
									continue
								}
								// some comparison confines a len(...) to exactly 0 on this path
								for _, side := range []ssa.Value{c.X, c.Y} {
									core, _ := affineOf(side)
									if isLenLike(core) {
										if rp.pathSet(valueSets(fn, core, nil), trackValue(core)).intersect(rng(0, posInf)).equal(rng(0, 0)) {
											empty = true
										}
									}
								}
								// delegated lookup said "not found"
								if ex, isEx := c.X.(*ssa.Extract); isEx {
									if call, isCall := ex.Tuple.(*ssa.Call); isCall && call.Call.StaticCallee() != nil && call.Call.StaticCallee().Signature.Recv() != nil && namedOf(call.Call.StaticCallee().Signature.Recv().Type()) == nt {
										if c.boolIs(c.X, false) {
											empty = true
										}
									}
								}
							}
							r.Check(empty, fname(fn), "failure return", ret.Pos(), "fails only where the list/ring is observed empty", "a selection can fail although endpoints are installed")
						}
					}
				}
			}
		}})

	register(&Rule{ID: "C13.R8", Props: []string{"C13", "C14", "C15"}, Min: 8, Needs: NeedMain,
		Doc: "one membership key: every lookup, insert and delete on a selector's membership map uses the same key function of the endpoint (HashKey()), so that what Add records is what Remove erases and what the duplicate test sees",
		Run: func(r *R) {
			for sp, nts := range selectorTypes(r.w) {
				for _, nt := range nts {
					for _, fn := range r.w.Funcs(sp) {
						root := fn
						for root.Parent() != nil {
							root = root.Parent()
						}
						if root.Signature.Recv() == nil || namedOf(root.Signature.Recv().Type()) != nt {
							continue
						}
						eachInstr(fn, func(in ssa.Instruction) {
							var key ssa.Value
							op := ""
							switch x := in.(type) {
							case *ssa.Lookup:
								if strings.HasSuffix(pathOf(x.X), ".mapValues") {
									key, op = x.Index, "lookup"
								}
							case *ssa.MapUpdate:
								if strings.HasSuffix(pathOf(x.Map), ".mapValues") {
									key, op = x.Key, "insert"
								}
							case *ssa.Call:
								if builtinName(&x.Call) == "delete" && strings.HasSuffix(pathOf(x.Call.Args[0]), ".mapValues") {
									key, op = x.Call.Args[1], "delete"
								}
							}
							if key == nil {
								return
							}
							c, isCall := key.(*ssa.Call)
							okk := isCall && calleeObj(&c.Call) != nil && calleeObj(&c.Call).Name() == "HashKey"
							r.Check(okk, fname(fn), "mapValues "+op+" key", in.Pos(), "key = HashKey() of the endpoint", "the membership map is accessed with key %s instead of the endpoint's HashKey(): Add, Remove and the duplicate test no longer talk about the same entry (a removed endpoint stays a `member` and cannot be re-added)", pathOf(key))
						})
					}
				}
			}
		}})

	register(&Rule{ID: "C13.R7", Props: []string{"C13", "C14"}, Min: 6, Needs: NeedMain,
		Doc: "member list, membership map and ring stay consistent: a member is appended to the list only under a dominating `not in the membership map` test of its own key; the list installed by a selector is its own storage (never a slice of the caller's argument); every key appended to the sorted ring keys is also inserted into the ring map, and the ring-key slice is never created with non-zero length",
		Run: func(r *R) {
			for sp, nts := range selectorTypes(r.w) {
				for _, nt := range nts {
					for _, fn := range r.w.Funcs(sp) {
						root := fn
						for root.Parent() != nil {
							root = root.Parent()
						}
						if root.Signature.Recv() == nil || namedOf(root.Signature.Recv().Type()) != nt {
							continue
						}
						eachInstr(fn, func(in ssa.Instruction) {
							st, ok := in.(*ssa.Store)
							if !ok {
								return
							}
							fa, ok := st.Addr.(*ssa.FieldAddr)
							if !ok || !isRecvValue(fn, fa.X) {
								return
							}
							f := derefStruct(fa.X.Type()).Field(fa.Field)
							sl, isSlice := f.Type().Underlying().(*types.Slice)
							if !isSlice {
								return
							}
							cons := "store to " + nt.Obj().Name() + "." + f.Name()
							switch v := st.Val.(type) {
							case *ssa.MakeSlice:
								k, isC := constInt(v.Len)
								r.Check(isC && k == 0, fname(fn), cons+" = make", in.Pos(), "fresh empty slice (len 0)", "the list is created with a non-zero length: it starts with zero-valued phantom entries that are not members")
							default:
								r.Bad(fname(fn), cons, in.Pos(), "the list is replaced by %s, which is not storage owned by the selector (a fresh make or its own list): it shares the backing array with the caller, whose later in-place edits silently change the installed set", pathOf(st.Val))
							case *ssa.Const:
								r.OKLookup(fname(fn), cons+" = nil", in.Pos(), "reset to nil")
							case *ssa.Call:
								if builtinName(&v.Call) != "append" {
									if sc := v.Call.StaticCallee(); sc != nil && len(v.Call.Args) == 1 && isRecvFieldPath(fn, v.Call.Args[0]) {
										r.OKLookup(fname(fn), cons+" (derived)", in.Pos(), "derived list computed from the selector's own member list by %s", sc.Name())
										return
									}
									r.Bad(fname(fn), cons, in.Pos(), "the list is replaced by the result of %s", pathOf(v))
									return
								}
								base := v.Call.Args[0]
								// deletion form: append(list[:i], list[i+1:]...)
								if s0, ok := base.(*ssa.Slice); ok && pathOf(s0.X) == pathOf(fa) {
									r.OKLookup(fname(fn), cons+" (delete element)", in.Pos(), "element removal within the selector's own list")
									return
								}
								if pathOf(base) != pathOf(fa) {
									r.Bad(fname(fn), cons, in.Pos(), "the list is rebuilt on top of %s, which is not the selector's own storage: it aliases the caller's slice, later in-place edits by the caller change the installed set", pathOf(base))
									return
								}
								// single-element append: the variadic slice is a 1-element array
								elem := appendedElement(v)
								if elem == nil {
									r.Bad(fname(fn), cons, in.Pos(), "several members are appended at once without going through the per-member duplicate check (members are keyed by host: a duplicate occupies two rotation slots and survives Remove)")
									return
								}
								if _, isEp := sl.Elem().Underlying().(*types.Struct); isEp {
									// dominated by "key not in mapValues"
									guard := false
									for _, fct := range facts(in.Block()) {
										c, okc := normFact(fct)
										if !okc {
											continue
										}
										if ex, isEx := c.X.(*ssa.Extract); isEx && ex.Index == 1 && c.boolIs(c.X, false) {
											if lk, isLk := ex.Tuple.(*ssa.Lookup); isLk && lk.CommaOk && strings.HasSuffix(pathOf(lk.X), ".mapValues") && strings.HasPrefix(pathOf(lk.Index), "HashKey("+pathOf(elem)) {
												guard = true
											}
										}
									}
									r.Check(guard, fname(fn), cons+" (append member)", in.Pos(), "appended only when its key is not yet in the membership map", "a member is appended without a dominating `key not in mapValues` test: the list and the map can disagree")
								} else {
									// ring key: must also be inserted into hashRing in the same block
									paired := false
									for _, j := range in.Block().Instrs {
										if mu, ok := j.(*ssa.MapUpdate); ok && strings.HasSuffix(pathOf(mu.Map), ".hashRing") && (mu.Key == elem || pathOf(mu.Key) == pathOf(elem)) {
											paired = true
										}
									}
									// or copied from the ring map itself (rebuild)
									if strings.Contains(pathOf(elem), "hashRing") || isRangeKeyOf(elem, ".hashRing") {
										paired = true
									}
									r.Check(paired, fname(fn), cons+" (append ring key)", in.Pos(), "every ring key appended is a key of the ring map", "a key is appended to the sorted ring that is not inserted into the ring map: lookups landing on it return the zero endpoint")
								}
							}
						})
					}
				}
			}
		}})
}

// appendedElement: for append(s, x) returns x (the single variadic element), nil otherwise.
func appendedElement(call *ssa.Call) ssa.Value {
	if len(call.Call.Args) != 2 {
		return nil
	}
	sl, ok := call.Call.Args[1].(*ssa.Slice)
	if !ok {
		return nil
	}
	a, ok := sl.X.(*ssa.Alloc)
	if !ok {
		return nil
	}
	at, ok := a.Type().(*types.Pointer).Elem().Underlying().(*types.Array)
	if !ok || at.Len() != 1 {
		return nil
	}
	for _, ref := range *a.Referrers() {
		if ia, ok := ref.(*ssa.IndexAddr); ok {
			for _, r2 := range *ia.Referrers() {
				if st, ok := r2.(*ssa.Store); ok {
					return st.Val
				}
			}
		}
	}
	return nil
}

// isRangeKeyOf: v is the key produced by ranging over a map whose path ends with suffix.
func isRangeKeyOf(v ssa.Value, suffix string) bool {
	ex, ok := v.(*ssa.Extract)
	if !ok || ex.Index != 1 {
		return false
	}
	nx, ok := ex.Tuple.(*ssa.Next)
	if !ok {
		return false
	}
	rg, ok := nx.Iter.(*ssa.Range)
	return ok && strings.HasSuffix(pathOf(rg.X), suffix)
}

// isRecvFieldPath: v is a load of a field of the method receiver.
func isRecvFieldPath(fn *ssa.Function, v ssa.Value) bool {
	ld, ok := v.(*ssa.UnOp)
	if !ok || ld.Op != token.MUL {
		return false
	}
	fa, ok := ld.X.(*ssa.FieldAddr)
	return ok && isRecvValue(fn, fa.X)
}

// indexedBy: the collections that are indexed with v, directly or after conversions / merging with
// other index values in a phi.
func indexedBy(v ssa.Value, depth int) []ssa.Value {
	var out []ssa.Value
	if depth > 4 || v.Referrers() == nil {
		return nil
	}
	for _, ref := range *v.Referrers() {
		switch x := ref.(type) {
		case *ssa.IndexAddr:
			if x.Index == v {
				out = append(out, x.X)
			}
		case *ssa.Index:
			if x.Index == v {
				out = append(out, x.X)
			}
		case *ssa.Convert:
			out = append(out, indexedBy(x, depth+1)...)
		case *ssa.Phi:
			out = append(out, indexedBy(x, depth+1)...)
		}
	}
	return out
}
