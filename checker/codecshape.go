package main

import (
	"fmt"
	"go/ast"
	"go/constant"
	"go/token"
	"go/types"
	"strings"
)

// A10: codec event extraction for generated code. A walker over generated method bodies (AST +
// type info) parses the ordered statement sequence with a small grammar into one *shape* per
// top-level tag:  Prim(T) | Struct | SimpleList | List(elem) | Map(key,val).

type cfield struct {
	tag     int64
	shape   string // canonical shape
	expr    string // the Go expression written / read into (rendered)
	guard   string // writer: "" (unconditional) | "ne:<literal>" | "len>0"; reader: ""
	require string // reader: "true"/"false"/"<expr>"
	simple  bool   // reader of a vector: the SimpleList form is accepted too
	pos     token.Pos
}

type shapeParser struct {
	info *types.Info
	side string // "W" or "R"
	errs []string
	pos  []token.Pos
}

func (p *shapeParser) fail(n ast.Node, format string, args ...any) {
	p.errs = append(p.errs, fmt.Sprintf(format, args...))
	p.pos = append(p.pos, n.Pos())
}

func (p *shapeParser) typeIs(e ast.Expr, tid string) bool {
	tv, ok := p.info.Types[e]
	if !ok {
		return false
	}
	return typeID(tv.Type) == tid
}

func (p *shapeParser) constInt(e ast.Expr) (int64, bool) {
	tv, ok := p.info.Types[e]
	if !ok || tv.Value == nil || tv.Value.Kind() != constant.Int {
		return 0, false
	}
	v, ok := constant.Int64Val(tv.Value)
	return v, ok
}

func (p *shapeParser) constBoolStr(e ast.Expr) string {
	tv, ok := p.info.Types[e]
	if ok && tv.Value != nil && tv.Value.Kind() == constant.Bool {
		return fmt.Sprint(constant.BoolVal(tv.Value))
	}
	return exprStr(e)
}

// isErrCheck: `if err != nil { return ... }`
func isErrCheck(s ast.Stmt) bool {
	is, ok := s.(*ast.IfStmt)
	if !ok || is.Init != nil || is.Else != nil {
		return false
	}
	be, ok := is.Cond.(*ast.BinaryExpr)
	if !ok || be.Op != token.NEQ || exprStr(be.X) != "err" || exprStr(be.Y) != "nil" {
		return false
	}
	if len(is.Body.List) != 1 {
		return false
	}
	_, isRet := is.Body.List[0].(*ast.ReturnStmt)
	return isRet
}

// errAssign: `lhs... = call(...)` with err among the lhs → (lhs names, call)
func errAssign(s ast.Stmt) ([]string, *ast.CallExpr) {
	as, ok := s.(*ast.AssignStmt)
	if !ok || len(as.Rhs) != 1 {
		return nil, nil
	}
	call, ok := as.Rhs[0].(*ast.CallExpr)
	if !ok {
		return nil, nil
	}
	var names []string
	hasErr := false
	for _, l := range as.Lhs {
		n := exprStr(l)
		names = append(names, n)
		if n == "err" {
			hasErr = true
		}
	}
	if !hasErr {
		return nil, nil
	}
	return names, call
}

func selCall(call *ast.CallExpr) (recv ast.Expr, name string) {
	if se, ok := call.Fun.(*ast.SelectorExpr); ok {
		return se.X, se.Sel.Name
	}
	return nil, ""
}

// skippable: declarations and blank assignments that carry no codec event.
func skippable(s ast.Stmt) bool {
	switch x := s.(type) {
	case *ast.DeclStmt:
		return true
	case *ast.EmptyStmt:
		return true
	case *ast.AssignStmt:
		if len(x.Lhs) == 1 && exprStr(x.Lhs[0]) == "_" {
			return true
		}
	}
	return false
}

type cursor struct {
	stmts []ast.Stmt
	i     int
}

func (c *cursor) peek() ast.Stmt {
	for c.i < len(c.stmts) && skippable(c.stmts[c.i]) {
		c.i++
	}
	if c.i < len(c.stmts) {
		return c.stmts[c.i]
	}
	return nil
}
func (c *cursor) next() ast.Stmt { s := c.peek(); c.i++; return s }

func (p *shapeParser) expectErrCheck(c *cursor, after ast.Node) bool {
	s := c.peek()
	if s == nil || !isErrCheck(s) {
		p.fail(after, "the error of this codec call is not checked by `if err != nil { return ... }`")
		return false
	}
	c.next()
	return true
}

// ---- writer --------------------------------------------------------------------------------------

const codecBufT = modPath + "/" + codecPkg + ".Buffer"
const codecRdT = modPath + "/" + codecPkg + ".Reader"

func (p *shapeParser) codecConst(e ast.Expr) string {
	if se, ok := e.(*ast.SelectorExpr); ok && exprStr(se.X) == "codec" {
		return se.Sel.Name
	}
	return exprStr(e)
}

// parseWriterFields parses a statement list until a statement that is not a writer event.
func (p *shapeParser) parseWriterFields(c *cursor) []cfield {
	var out []cfield
	for {
		s := c.peek()
		if s == nil {
			return out
		}
		f, ok := p.parseWriterField(c)
		if !ok {
			return out
		}
		out = append(out, f)
	}
}

func (p *shapeParser) parseWriterField(c *cursor) (cfield, bool) {
	s := c.peek()
	// guard
	if is, ok := s.(*ast.IfStmt); ok && !isErrCheck(s) && is.Else == nil && is.Init == nil {
		guard := ""
		if be, ok := is.Cond.(*ast.BinaryExpr); ok {
			if be.Op == token.NEQ {
				guard = "ne:" + p.litStr(be.Y) + "|" + exprStr(be.X)
			}
			if be.Op == token.GTR {
				if call, ok := be.X.(*ast.CallExpr); ok && exprStr(call.Fun) == "len" && exprStr(be.Y) == "0" {
					guard = "len>0|" + exprStr(call.Args[0])
				}
			}
		}
		if guard == "" {
			return cfield{}, false
		}
		inner := &cursor{stmts: is.Body.List}
		fs := p.parseWriterFields(inner)
		if len(fs) != 1 || inner.peek() != nil {
			return cfield{}, false
		}
		c.next()
		f := fs[0]
		f.guard = guard
		return f, true
	}
	names, call := errAssign(s)
	if call == nil || len(names) != 1 {
		return cfield{}, false
	}
	recv, name := selCall(call)
	if recv == nil {
		return cfield{}, false
	}
	f := cfield{pos: s.Pos()}
	switch {
	case p.typeIs(recv, codecBufT) && name == "WriteHead" && len(call.Args) == 2:
		k := p.codecConst(call.Args[0])
		tag, ok := p.constInt(call.Args[1])
		if !ok {
			p.fail(call, "WriteHead with a non-constant tag")
			return cfield{}, false
		}
		c.next()
		f.tag = tag
		if !p.expectErrCheck(c, call) {
			return cfield{}, false
		}
		switch k {
		case "LIST", "MAP":
			x, ok := p.expectLen(c)
			if !ok {
				return cfield{}, false
			}
			f.expr = x
			rs, ok := c.peek().(*ast.RangeStmt)
			if !ok || exprStr(rs.X) != x {
				p.fail(call, "the %s head for %s is not followed by a range loop over the same value", k, x)
				return cfield{}, false
			}
			c.next()
			inner := &cursor{stmts: rs.Body.List}
			fs := p.parseWriterFields(inner)
			if inner.peek() != nil {
				p.fail(inner.peek(), "unrecognised statement inside the element loop")
				return cfield{}, false
			}
			if k == "LIST" {
				if len(fs) != 1 || fs[0].tag != 0 || fs[0].guard != "" || rs.Value == nil || !rootedAt(fs[0].expr, exprStr(rs.Value)) {
					p.fail(rs, "list elements must be written once each, unconditionally, with tag 0")
					return cfield{}, false
				}
				f.shape = "List(" + fs[0].shape + ")"
			} else {
				if len(fs) != 2 || fs[0].tag != 0 || fs[1].tag != 1 || fs[0].guard != "" || fs[1].guard != "" || rs.Key == nil || rs.Value == nil ||
					!rootedAt(fs[0].expr, exprStr(rs.Key)) || !rootedAt(fs[1].expr, exprStr(rs.Value)) {
					p.fail(rs, "map entries must be written as key with tag 0 and value with tag 1, unconditionally")
					return cfield{}, false
				}
				f.shape = "Map(" + fs[0].shape + "," + fs[1].shape + ")"
			}
			return f, true
		case "SimpleList":
			// WriteHead(BYTE,0); WriteInt32(len,0); WriteSlice*(X)
			n2, c2 := errAssign(c.peek())
			if c2 == nil || len(n2) != 1 {
				p.fail(call, "SimpleList head not followed by the BYTE head")
				return cfield{}, false
			}
			if _, nm := selCall(c2); nm != "WriteHead" || p.codecConst(c2.Args[0]) != "BYTE" || exprStr(c2.Args[1]) != "0" {
				p.fail(c2, "SimpleList must carry a BYTE head with tag 0")
				return cfield{}, false
			}
			c.next()
			if !p.expectErrCheck(c, c2) {
				return cfield{}, false
			}
			x, ok := p.expectLen(c)
			if !ok {
				return cfield{}, false
			}
			_, c3 := errAssign(c.peek())
			if c3 == nil {
				p.fail(call, "SimpleList length not followed by the bytes")
				return cfield{}, false
			}
			if _, nm := selCall(c3); (nm != "WriteSliceInt8" && nm != "WriteSliceUint8") || exprStr(c3.Args[0]) != x {
				p.fail(c3, "SimpleList content must be WriteSliceInt8/Uint8 of the value whose length was written")
				return cfield{}, false
			}
			c.next()
			if !p.expectErrCheck(c, c3) {
				return cfield{}, false
			}
			f.expr = x
			f.shape = "SimpleList"
			return f, true
		}
		p.fail(call, "unexpected head type %s", k)
		return cfield{}, false
	case p.typeIs(recv, codecBufT) && strings.HasPrefix(name, "Write") && len(call.Args) == 2:
		tag, ok := p.constInt(call.Args[1])
		if !ok {
			p.fail(call, "%s with a non-constant tag", name)
			return cfield{}, false
		}
		c.next()
		f.tag, f.shape, f.expr = tag, "Prim("+name[5:]+")", stripConv(call.Args[0])
		if !p.expectErrCheck(c, call) {
			return cfield{}, false
		}
		return f, true
	case name == "WriteBlock" && len(call.Args) == 2 && p.typeIs(call.Args[0], codecBufT):
		tag, ok := p.constInt(call.Args[1])
		if !ok {
			p.fail(call, "WriteBlock with a non-constant tag")
			return cfield{}, false
		}
		c.next()
		f.tag, f.shape, f.expr = tag, "Struct", exprStr(recv)
		if !p.expectErrCheck(c, call) {
			return cfield{}, false
		}
		return f, true
	}
	return cfield{}, false
}

// expectLen consumes `err = buf.WriteInt32(int32(len(X)), 0)` + errcheck and returns X.
func (p *shapeParser) expectLen(c *cursor) (string, bool) {
	_, call := errAssign(c.peek())
	if call == nil {
		return "", false
	}
	_, nm := selCall(call)
	if nm != "WriteInt32" || len(call.Args) != 2 || exprStr(call.Args[1]) != "0" {
		p.fail(call, "a container head must be followed by WriteInt32(int32(len(x)), 0)")
		return "", false
	}
	x := ""
	if cv, ok := call.Args[0].(*ast.CallExpr); ok && len(cv.Args) == 1 {
		if lc, ok := cv.Args[0].(*ast.CallExpr); ok && exprStr(lc.Fun) == "len" {
			x = exprStr(lc.Args[0])
		}
	}
	if x == "" {
		p.fail(call, "the container length written is not int32(len(x))")
		return "", false
	}
	c.next()
	if !p.expectErrCheck(c, call) {
		return "", false
	}
	return x, true
}

func (p *shapeParser) litStr(e ast.Expr) string {
	if tv, ok := p.info.Types[e]; ok && tv.Value != nil {
		return tv.Value.ExactString()
	}
	return exprStr(e)
}

// stripConv removes a type conversion wrapper T(x) → x (enum members are written as int32(x)).
func stripConv(e ast.Expr) string {
	if call, ok := e.(*ast.CallExpr); ok && len(call.Args) == 1 {
		if _, isIdent := call.Fun.(*ast.Ident); isIdent {
			return exprStr(call.Args[0])
		}
	}
	return exprStr(e)
}

// rootedAt: expression text e is rooted at variable v ("v", "v.X", "(*v)", "&v", "v[i]").
func rootedAt(e, v string) bool {
	e = strings.TrimPrefix(e, "&")
	e = strings.TrimPrefix(e, "(*")
	return e == v || strings.HasPrefix(e, v+".") || strings.HasPrefix(e, v+")") || strings.HasPrefix(e, v+"[")
}

// ---- reader --------------------------------------------------------------------------------------

func (p *shapeParser) parseReaderFields(c *cursor) []cfield {
	var out []cfield
	for {
		s := c.peek()
		if s == nil {
			return out
		}
		f, ok := p.parseReaderField(c)
		if !ok {
			return out
		}
		out = append(out, f)
	}
}

func (p *shapeParser) parseReaderField(c *cursor) (cfield, bool) {
	s := c.peek()
	names, call := errAssign(s)
	if call == nil {
		return cfield{}, false
	}
	recv, name := selCall(call)
	if recv == nil {
		return cfield{}, false
	}
	f := cfield{pos: s.Pos()}
	switch {
	case p.typeIs(recv, codecRdT) && name == "SkipToNoCheck" && len(call.Args) == 2:
		tag, ok := p.constInt(call.Args[0])
		if !ok {
			p.fail(call, "SkipToNoCheck with a non-constant tag")
			return cfield{}, false
		}
		f.tag, f.require = tag, p.constBoolStr(call.Args[1])
		c.next()
		if !p.expectErrCheck(c, call) {
			return cfield{}, false
		}
		body := c
		if names[0] == "have" {
			is, ok := c.peek().(*ast.IfStmt)
			if !ok || exprStr(is.Cond) != "have" || is.Else != nil {
				p.fail(call, "an optional vector must be decoded under `if have {`")
				return cfield{}, false
			}
			c.next()
			body = &cursor{stmts: is.Body.List}
		} else if f.require != "true" {
			p.fail(call, "the presence result of an optional SkipToNoCheck is discarded")
			return cfield{}, false
		}
		chain, ok := body.peek().(*ast.IfStmt)
		if !ok {
			p.fail(call, "vector read: expected `if ty == codec.LIST`")
			return cfield{}, false
		}
		body.next()
		if !p.parseVectorChain(chain, &f) {
			return cfield{}, false
		}
		if body != c && body.peek() != nil {
			p.fail(body.peek(), "unrecognised statement after the vector read")
			return cfield{}, false
		}
		return f, true
	case p.typeIs(recv, codecRdT) && name == "SkipTo" && len(call.Args) == 3 && p.codecConst(call.Args[0]) == "MAP":
		tag, ok := p.constInt(call.Args[1])
		if !ok {
			p.fail(call, "SkipTo with a non-constant tag")
			return cfield{}, false
		}
		f.tag, f.require = tag, p.constBoolStr(call.Args[2])
		c.next()
		if !p.expectErrCheck(c, call) {
			return cfield{}, false
		}
		body := c
		if names[0] == "have" {
			is, ok := c.peek().(*ast.IfStmt)
			if !ok || exprStr(is.Cond) != "have" || is.Else != nil {
				p.fail(call, "an optional map must be decoded under `if have {`")
				return cfield{}, false
			}
			c.next()
			body = &cursor{stmts: is.Body.List}
		} else if f.require != "true" {
			p.fail(call, "the presence result of an optional SkipTo is discarded")
			return cfield{}, false
		}
		if !p.expectReadLen(body) {
			return cfield{}, false
		}
		as, ok := body.peek().(*ast.AssignStmt)
		if !ok || len(as.Rhs) != 1 {
			p.fail(call, "map read: expected `x = make(map...)`")
			return cfield{}, false
		}
		mk, ok := as.Rhs[0].(*ast.CallExpr)
		if !ok || exprStr(mk.Fun) != "make" {
			p.fail(as, "map read: expected make(map)")
			return cfield{}, false
		}
		f.expr = exprStr(as.Lhs[0])
		body.next()
		fs, ok := body.peek().(*ast.ForStmt)
		if !ok {
			p.fail(as, "map read: expected the entry loop")
			return cfield{}, false
		}
		body.next()
		inner := &cursor{stmts: fs.Body.List}
		es := p.parseReaderFields(inner)
		// X[k] = v
		st, ok := inner.peek().(*ast.AssignStmt)
		if len(es) != 2 || es[0].tag != 0 || es[1].tag != 1 || es[0].require != "true" || es[1].require != "true" || !ok {
			p.fail(fs, "map entries must be read as key with tag 0 and value with tag 1, both required, then stored")
			return cfield{}, false
		}
		ix, ok := st.Lhs[0].(*ast.IndexExpr)
		if !ok || exprStr(ix.X) != f.expr || !rootedAt(es[0].expr, exprStr(ix.Index)) || !rootedAt(es[1].expr, exprStr(st.Rhs[0])) {
			p.fail(st, "the decoded key/value are not what is stored into the map")
			return cfield{}, false
		}
		inner.next()
		if inner.peek() != nil {
			p.fail(inner.peek(), "unrecognised statement in the map entry loop")
			return cfield{}, false
		}
		if !forHeadOK(fs) {
			p.fail(fs, "the entry loop is not `for i, e := int32(0), length; i < e; i++`")
			return cfield{}, false
		}
		f.shape = "Map(" + es[0].shape + "," + es[1].shape + ")"
		if body != c && body.peek() != nil {
			p.fail(body.peek(), "unrecognised statement after the map read")
			return cfield{}, false
		}
		return f, true
	case p.typeIs(recv, codecRdT) && strings.HasPrefix(name, "Read") && len(call.Args) == 3 && len(names) == 1:
		tag, ok := p.constInt(call.Args[1])
		if !ok {
			p.fail(call, "%s with a non-constant tag", name)
			return cfield{}, false
		}
		c.next()
		f.tag, f.shape, f.require = tag, "Prim("+name[4:]+")", p.constBoolStr(call.Args[2])
		f.expr = readTarget(call.Args[0])
		if !p.expectErrCheck(c, call) {
			return cfield{}, false
		}
		return f, true
	case name == "ReadBlock" && len(call.Args) == 3 && p.typeIs(call.Args[0], codecRdT) && len(names) == 1:
		tag, ok := p.constInt(call.Args[1])
		if !ok {
			p.fail(call, "ReadBlock with a non-constant tag")
			return cfield{}, false
		}
		c.next()
		f.tag, f.shape, f.require, f.expr = tag, "Struct", p.constBoolStr(call.Args[2]), exprStr(recv)
		if !p.expectErrCheck(c, call) {
			return cfield{}, false
		}
		return f, true
	}
	return cfield{}, false
}

// readTarget renders the target of a read: &X → X, (*int32)(&X) → X.
func readTarget(e ast.Expr) string {
	for {
		switch x := e.(type) {
		case *ast.UnaryExpr:
			if x.Op == token.AND {
				return exprStr(x.X)
			}
			return exprStr(e)
		case *ast.CallExpr:
			if len(x.Args) == 1 {
				e = x.Args[0]
				continue
			}
			return exprStr(e)
		case *ast.ParenExpr:
			e = x.X
		default:
			return exprStr(e)
		}
	}
}

func (p *shapeParser) expectReadLen(c *cursor) bool {
	_, call := errAssign(c.peek())
	if call == nil {
		return false
	}
	_, nm := selCall(call)
	if nm != "ReadInt32" || len(call.Args) != 3 || exprStr(call.Args[0]) != "&length" || exprStr(call.Args[1]) != "0" || exprStr(call.Args[2]) != "true" {
		p.fail(call, "a container must start with ReadInt32(&length, 0, true)")
		return false
	}
	c.next()
	return p.expectErrCheck(c, call)
}

// skipLengthGuard consumes an optional `if length < 0 || ... { err = fmt.Errorf(...); if err != nil {return} }`
// (a bound check of the decoded length; its adequacy is decided by C05.R1 on the SSA form).
func (p *shapeParser) skipLengthGuard(c *cursor) {
	is, ok := c.peek().(*ast.IfStmt)
	if !ok || is.Else != nil || is.Init != nil || !strings.Contains(exprStr(is.Cond), "length") {
		return
	}
	inner := &cursor{stmts: is.Body.List}
	_, call := errAssign(inner.peek())
	if call == nil || exprStr(call.Fun) != "fmt.Errorf" {
		return
	}
	inner.next()
	s := inner.peek()
	if s == nil {
		return
	}
	if _, isRet := s.(*ast.ReturnStmt); !isRet && !isErrCheck(s) {
		return
	}
	inner.next()
	if inner.peek() != nil {
		return
	}
	c.next()
}

func forHeadOK(fs *ast.ForStmt) bool {
	as, ok := fs.Init.(*ast.AssignStmt)
	if !ok || len(as.Lhs) != 2 || len(as.Rhs) != 2 || exprStr(as.Rhs[1]) != "length" {
		return false
	}
	be, ok := fs.Cond.(*ast.BinaryExpr)
	if !ok || be.Op != token.LSS || exprStr(be.X) != exprStr(as.Lhs[0]) || exprStr(be.Y) != exprStr(as.Lhs[1]) {
		return false
	}
	inc, ok := fs.Post.(*ast.IncDecStmt)
	return ok && inc.Tok == token.INC && exprStr(inc.X) == exprStr(as.Lhs[0])
}

// parseVectorChain parses `if ty == codec.LIST {...} else if ty == codec.SimpleList {...} else {error}`.
func (p *shapeParser) parseVectorChain(is *ast.IfStmt, f *cfield) bool {
	tyIs := func(e ast.Expr, k string) bool {
		be, ok := e.(*ast.BinaryExpr)
		return ok && be.Op == token.EQL && exprStr(be.X) == "ty" && p.codecConst(be.Y) == k
	}
	if !tyIs(is.Cond, "LIST") {
		p.fail(is, "vector read: first branch must test ty == codec.LIST")
		return false
	}
	c := &cursor{stmts: is.Body.List}
	if !p.expectReadLen(c) {
		return false
	}
	p.skipLengthGuard(c)
	// X = make(T, length)   (absent for fixed arrays)
	if as, ok := c.peek().(*ast.AssignStmt); ok && len(as.Rhs) == 1 {
		if mk, ok := as.Rhs[0].(*ast.CallExpr); ok && exprStr(mk.Fun) == "make" {
			f.expr = exprStr(as.Lhs[0])
			c.next()
		}
	}
	fs, ok := c.peek().(*ast.ForStmt)
	if !ok || !forHeadOK(fs) {
		p.fail(is, "vector read: expected `for i, e := int32(0), length; i < e; i++`")
		return false
	}
	c.next()
	inner := &cursor{stmts: fs.Body.List}
	es := p.parseReaderFields(inner)
	if len(es) != 1 || es[0].tag != 0 || es[0].require != "true" || inner.peek() != nil {
		p.fail(fs, "list elements must be read once each with tag 0, required")
		return false
	}
	idx := exprStr(fs.Init.(*ast.AssignStmt).Lhs[0])
	if f.expr == "" {
		f.expr = strings.TrimSuffix(strings.TrimPrefix(es[0].expr, "("), "["+idx+"]")
	}
	if !strings.Contains(es[0].expr, "["+idx+"]") {
		p.fail(fs, "the element read does not target element [%s] of the vector", idx)
		return false
	}
	f.shape = "List(" + es[0].shape + ")"
	if c.peek() != nil {
		p.fail(c.peek(), "unrecognised statement in the LIST branch")
		return false
	}
	// else-if SimpleList
	e1, ok := is.Else.(*ast.IfStmt)
	if !ok || !tyIs(e1.Cond, "SimpleList") {
		p.fail(is, "vector read: second branch must test ty == codec.SimpleList")
		return false
	}
	c2 := &cursor{stmts: e1.Body.List}
	_, call := errAssign(c2.peek())
	if call != nil {
		if _, nm := selCall(call); nm == "SkipTo" && p.codecConst(call.Args[0]) == "BYTE" {
			c2.next()
			if !p.expectErrCheck(c2, call) || !p.expectReadLen(c2) {
				return false
			}
			_, rc := errAssign(c2.peek())
			if rc == nil {
				p.fail(e1, "SimpleList branch: expected ReadSliceInt8/Uint8")
				return false
			}
			if _, nm := selCall(rc); (nm != "ReadSliceInt8" && nm != "ReadSliceUint8") || exprStr(rc.Args[1]) != "length" {
				p.fail(rc, "SimpleList branch must read `length` bytes into the vector")
				return false
			}
			c2.next()
			if !p.expectErrCheck(c2, rc) {
				return false
			}
			f.simple = true
		} else if exprStr(call.Fun) == "fmt.Errorf" {
			c2.next()
			if !p.expectErrCheck(c2, call) {
				return false
			}
		}
	}
	if c2.peek() != nil {
		p.fail(c2.peek(), "unrecognised statement in the SimpleList branch")
		return false
	}
	// else: error
	eb, ok := e1.Else.(*ast.BlockStmt)
	if !ok {
		p.fail(is, "vector read: a final else branch rejecting other wire types is missing")
		return false
	}
	c3 := &cursor{stmts: eb.List}
	_, ec := errAssign(c3.peek())
	if ec == nil || exprStr(ec.Fun) != "fmt.Errorf" {
		p.fail(eb, "the final else of a vector read must produce an error (other wire types are inadmissible)")
		return false
	}
	c3.next()
	return p.expectErrCheck(c3, ec)
}

// ---- type-derived shapes -------------------------------------------------------------------------

// typeShape: the wire shape a Go type is generated with.
func typeShape(t types.Type) string {
	if n, ok := t.(*types.Named); ok {
		if _, isStruct := n.Underlying().(*types.Struct); isStruct {
			return "Struct"
		}
	}
	switch u := t.Underlying().(type) {
	case *types.Basic:
		switch u.Kind() {
		case types.Bool:
			return "Prim(Bool)"
		case types.Int8:
			return "Prim(Int8)"
		case types.Uint8:
			return "Prim(Uint8)"
		case types.Int16:
			return "Prim(Int16)"
		case types.Uint16:
			return "Prim(Uint16)"
		case types.Int32:
			return "Prim(Int32)"
		case types.Uint32:
			return "Prim(Uint32)"
		case types.Int64:
			return "Prim(Int64)"
		case types.Float32:
			return "Prim(Float32)"
		case types.Float64:
			return "Prim(Float64)"
		case types.String:
			return "Prim(String)"
		}
	case *types.Slice:
		if b, ok := u.Elem().Underlying().(*types.Basic); ok && b.Kind() == types.Int8 {
			return "SimpleList"
		}
		return "List(" + typeShape(u.Elem()) + ")"
	case *types.Array:
		return "List(" + typeShape(u.Elem()) + ")"
	case *types.Map:
		return "Map(" + typeShape(u.Key()) + "," + typeShape(u.Elem()) + ")"
	}
	return "?" + t.String()
}

// readerAccepts: does a reader field of this shape (and simple flag) accept what the writer shape produces?
func readerAccepts(w string, r cfield) bool {
	if w == "SimpleList" {
		return r.simple && r.shape == "List(Prim(Int8))"
	}
	return w == r.shape
}
