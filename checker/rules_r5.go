package main

// Rules added after seed round 5.

import (
	"go/constant"
	"go/token"
	"go/types"
	"sort"
	"strings"

	"golang.org/x/tools/go/ssa"
)

// variadicArgs: the values passed to the variadic parameter of call c, in order (the elements stored
// into the backing array that is sliced for the call).
func variadicArgs(c *ssa.CallCommon) []ssa.Value {
	if len(c.Args) == 0 {
		return nil
	}
	sl, ok := c.Args[len(c.Args)-1].(*ssa.Slice)
	if !ok {
		return nil
	}
	al, ok := sl.X.(*ssa.Alloc)
	if !ok {
		return nil
	}
	var out []ssa.Value
	for _, ref := range *al.Referrers() {
		ia, ok := ref.(*ssa.IndexAddr)
		if !ok {
			continue
		}
		k, isK := constInt(ia.Index)
		if !isK {
			continue
		}
		for _, r2 := range *ia.Referrers() {
			if st, ok := r2.(*ssa.Store); ok && st.Addr == ssa.Value(ia) {
				for int64(len(out)) <= k {
					out = append(out, nil)
				}
				v := st.Val
				if mi, ok := v.(*ssa.MakeInterface); ok {
					v = mi.X
				}
				out[k] = v
			}
		}
	}
	return out
}

// defaultOrZero: along every way v is produced, it is the member's IDL default whenever the member has
// one (`Default != ""`), never something else.  ok=false with the offending description otherwise.
func defaultOrZero(v ssa.Value, at *ssa.BasicBlock, depth int) (bool, string) {
	isDefaultLoad := func(x ssa.Value) bool { return strings.HasSuffix(pathOf(x), ".Default") }
	emptyDefault := func(fs []EdgeFact) bool {
		for _, f := range fs {
			c, ok := normFact(f)
			if !ok || c.Op != token.EQL {
				continue
			}
			x, y := c.X, c.Y
			if s, isS := constString(x); isS && s == "" {
				x, y = y, x
			}
			if s, isS := constString(y); isS && s == "" && isDefaultLoad(x) {
				return true
			}
		}
		return false
	}
	if call, ok := v.(*ssa.Call); ok && depth < 3 {
		if f := call.Call.StaticCallee(); f != nil && f.Blocks != nil && !isDefaultLoad(v) {
			sawDefault := false
			for _, rp := range returnPaths(f) {
				if len(rp.vals) == 0 {
					continue
				}
				if isDefaultLoad(rp.vals[0]) {
					sawDefault = true
					continue
				}
				if !emptyDefault(rp.pathFacts()) {
					return false, "in " + fname(f) + " a value other than the member's Default is returned on a path where the member may have a default"
				}
			}
			if !sawDefault {
				return false, fname(f) + " never returns the member's Default"
			}
			return true, ""
		}
	}
	sawDefault := false
	for _, vp := range splitPaths([]ssa.Value{v}, at) {
		if isDefaultLoad(vp.vals[0]) {
			sawDefault = true
			continue
		}
		if !emptyDefault(vp.pathFacts()) {
			return false, "the guard compares with " + pathOf(vp.vals[0]) + " on a path where the member may have an IDL default"
		}
	}
	if !sawDefault {
		return false, "the guard never compares with the member's Default"
	}
	return true, ""
}

func init() {
	register(&Rule{ID: "C16.R10", Props: []string{"C16", "C03", "C01", "C04"}, Min: 1, Needs: NeedTool,
		Doc: "the writer emitter omits an optional scalar exactly at its IDL default: in the scalar case of genWriteVar the value printed after `!=` in the omission guard is, on every path where the member has a default (Default != \"\"), that default — the value ResetDefault restores on the reading side; comparing with the Go zero value instead drops an explicit 0/false/\"\" that the reader then replaces by the default",
		Run: func(r *R) {
			fn := r.w.Func("gencode", "GenGo.genWriteVar")
			if fn == nil {
				r.AnchorMissing("gencode.(*GenGo).genWriteVar")
				return
			}
			n := 0
			eachInstr(fn, func(in ssa.Instruction) {
				c, ok := in.(*ssa.Call)
				if !ok {
					return
				}
				if o := calleeObj(&c.Call); o == nil || o.Name() != "P" {
					return
				}
				args := variadicArgs(&c.Call)
				for i, a := range args {
					if a == nil {
						continue
					}
					if s, isS := constString(a); isS && strings.TrimSpace(s) == "!=" && i+1 < len(args) && args[i+1] != nil {
						n++
						ok, why := defaultOrZero(args[i+1], c.Block(), 0)
						r.Check(ok, fname(fn), "omission guard compares with the IDL default", in.Pos(), "`if x != D` with D the member's default when it has one", "%s: an optional member explicitly set to the Go zero value is not written and decodes as its IDL default on the other side", why)
					}
				}
			})
			if n == 0 {
				r.Bad(fname(fn), "omission guard", fn.Pos(), "no `if x != D {` guard is emitted for optional scalar members")
			}
		}})
}

// lockCallPath: for a call of (RW)Mutex Lock/RLock/Unlock/RUnlock, the kind and the access path of the mutex.
func lockCallPath(c *ssa.CallCommon) (kind, path string) {
	id := funcID(calleeObj(c))
	switch id {
	case "sync.(Mutex).Lock", "sync.(RWMutex).Lock":
		kind = "lock"
	case "sync.(RWMutex).RLock":
		kind = "rlock"
	case "sync.(Mutex).Unlock", "sync.(RWMutex).Unlock":
		kind = "unlock"
	case "sync.(RWMutex).RUnlock":
		kind = "runlock"
	default:
		return "", ""
	}
	if len(c.Args) == 0 {
		return "", ""
	}
	return kind, pathOf(c.Args[0])
}

func init() {
	register(&Rule{ID: "C11.R6", Props: []string{"C11", "C07", "C01"}, Min: 1, Needs: NeedMain,
		Doc: "receive state belongs to one connection: in a receive loop that serves one dialled connection (it takes the net.Conn as a parameter) the stream buffer handed to ParsePackage starts empty in that invocation and is only ever the buffer itself, appended to or re-sliced — it is never loaded from a field of the object that outlives the connection (unframed bytes of a dead connection would be prepended to the stream of the next one, which is then mis-framed and closed although it is healthy)",
		Run: func(r *R) {
			n := 0
			for _, fn := range recvLoops(r.w) {
				if connParam(fn) == nil {
					continue
				}
				eachInstr(fn, func(in ssa.Instruction) {
					c, ok := in.(*ssa.Call)
					if !ok || !c.Call.IsInvoke() || c.Call.Method.Name() != "ParsePackage" || len(c.Call.Args) == 0 {
						return
					}
					n++
					bad := ""
					seen := map[ssa.Value]bool{}
					var walk func(v ssa.Value, d int)
					walk = func(v ssa.Value, d int) {
						if v == nil || seen[v] || d > 40 || bad != "" {
							return
						}
						seen[v] = true
						switch x := v.(type) {
						case *ssa.Phi:
							for _, e := range x.Edges {
								walk(e, d+1)
							}
						case *ssa.Slice:
							walk(x.X, d+1)
						case *ssa.Call:
							if builtinName(&x.Call) == "append" {
								walk(x.Call.Args[0], d+1)
								return
							}
							bad = "the buffer comes from " + shortInstr(x)
						case *ssa.Const, *ssa.MakeSlice:
						case *ssa.UnOp:
							if x.Op == token.MUL {
								if al, ok := x.X.(*ssa.Alloc); ok {
									for _, ref := range *al.Referrers() {
										if st, ok := ref.(*ssa.Store); ok && st.Addr == ssa.Value(al) {
											walk(st.Val, d+1)
										}
									}
									return
								}
								if fv, ok := x.X.(*ssa.FreeVar); ok {
									// a local of the enclosing invocation captured by a closure
									walk(resolveLocal(x), d+1)
									_ = fv
									return
								}
								bad = "the buffer is loaded from " + pathOf(x.X) + ", which outlives the connection"
								return
							}
							bad = "the buffer has an unrecognised origin"
						case *ssa.Convert:
							walk(x.X, d+1)
						case *ssa.ChangeType:
							walk(x.X, d+1)
						default:
							bad = "the buffer has an unrecognised origin (" + pathOf(v) + ")"
						}
					}
					walk(c.Call.Args[0], 0)
					r.Check(bad == "", fname(fn), "stream buffer is local to the connection's receive loop", in.Pos(), "starts empty, only appended to and re-sliced", "%s: bytes left over when one connection ends are parsed as the beginning of the next connection's stream", bad)
				})
			}
			if n == 0 {
				r.AnchorMissing("client receive loop (net.Conn parameter, Read, ParsePackage)")
			}
		}})

	register(&Rule{ID: "C11.R7", Props: []string{"C11", "C12"}, Min: 2, Needs: NeedMain,
		Doc: "no exit keeps a lock: in package transport every function that releases a mutex it has locked releases it on every path — after each Lock/RLock that is not covered by a deferred unlock of the same mutex, no return is reachable without passing the unlock (a dial error returning with the connection lock held blocks every later Send, close and reconnect for ever)",
		Run: func(r *R) { checkLockRelease(r, "tars/transport") }})
	register(&Rule{ID: "C13.R10", Props: []string{"C13", "C14", "C15"}, Min: 20, Needs: NeedMain,
		Doc: "no exit keeps a lock (selectors and endpoint manager): as C11.R7, for the four selector packages and package tars — an error path of Add/Remove/Refresh or of the status check that returns with the list lock held stops every later selection",
		Run: func(r *R) {
			checkLockRelease(r, "tars/selector/roundrobin", "tars/selector/random", "tars/selector/modhash", "tars/selector/consistenthash", "tars")
		}})
	register(&Rule{ID: "C17.R8", Props: []string{"C17"}, Min: 3, Needs: NeedMain,
		Doc: "no exit keeps a lock (configuration): as C11.R7, for package conf — a getter that returns early with the read lock held blocks the next reload",
		Run: func(r *R) { checkLockRelease(r, "tars/util/conf") }})
}

// checkLockRelease: see C11.R7; applied to the packages rels.
func checkLockRelease(r *R, rels ...string) {
	for _, rel := range rels {
		sp := r.w.Pkg(rel)
		if sp == nil {
			r.AnchorMissing("package " + rel)
			continue
		}
		for _, fn := range r.w.Funcs(sp) {
			type site struct {
				in   ssa.Instruction
				kind string
				path string
			}
			var locks []site
			unlocks := map[string]bool{}
			deferred := map[string][]ssa.Instruction{}
			eachInstr(fn, func(in ssa.Instruction) {
				c := callCommon(in)
				if c == nil {
					return
				}
				kind, path := lockCallPath(c)
				if kind == "" {
					return
				}
				_, isDefer := in.(*ssa.Defer)
				switch kind {
				case "lock", "rlock":
					if !isDefer {
						locks = append(locks, site{in, kind, path})
					}
				default:
					unlocks[kind+"|"+path] = true
					if isDefer {
						deferred[kind+"|"+path] = append(deferred[kind+"|"+path], in)
					}
				}
			})
			for _, l := range locks {
				un := "unlock|" + l.path
				if l.kind == "rlock" {
					un = "runlock|" + l.path
				}
				if !unlocks[un] {
					continue // a function that only takes the lock (its caller releases it)
				}
				covered := false
				for _, d := range deferred[un] {
					// the deferred unlock is registered on every path from the lock to an exit
					if reachAvoiding(l.in, func(in ssa.Instruction) bool { return isReturn(in) && in.Block() != fn.Recover }, func(in ssa.Instruction) bool { return in == d }) == nil {
						covered = true
					}
				}
				if covered {
					r.OK(fname(fn), l.kind+" "+l.path, l.in.Pos(), "released by a deferred unlock registered on every path")
					continue
				}
				ex := reachAvoiding(l.in, func(in ssa.Instruction) bool { return isReturn(in) && in.Block() != fn.Recover }, func(in ssa.Instruction) bool {
					c := callCommon(in)
					if c == nil {
						return false
					}
					k, p := lockCallPath(c)
					return k+"|"+p == un
				})
				r.Check(ex == nil, fname(fn), l.kind+" "+l.path, l.in.Pos(), "every path from the lock to a return passes the unlock", "the function can return (at %s) with %s still locked: every later operation on it blocks for ever", posOf(r, ex), l.path)
			}
		}
	}
}

func init() {
	register(&Rule{ID: "C04.R9", Props: []string{"C04", "C03"}, Min: 2, Needs: NeedMain,
		Doc: "the end of a struct ends the search before any tag is compared: in Reader.SkipToNoCheck a head of type StructEnd (which is written with tag 0) is never reported as the sought field and is never handed to the field skipper — on every path that returns found=true, and at the call of skipField, the type just read cannot be StructEnd (otherwise a lookup of tag 0 in a nested struct whose optional tag-0 member is absent `finds` the terminator and fails with a type mismatch instead of taking the default)",
		Run: func(r *R) {
			fn := r.w.Func(codecPkg, "Reader.SkipToNoCheck")
			if fn == nil {
				r.AnchorMissing("codec.(*Reader).SkipToNoCheck")
				return
			}
			var ty ssa.Value
			eachInstr(fn, func(in ssa.Instruction) {
				c, ok := in.(*ssa.Call)
				if !ok {
					return
				}
				if o := calleeObj(&c.Call); o == nil || o.Name() != "readHead" {
					return
				}
				for _, ref := range *c.Referrers() {
					if e, ok := ref.(*ssa.Extract); ok && e.Index == 0 {
						ty = e
					}
				}
			})
			if ty == nil {
				r.AnchorMissing("codec.(*Reader).SkipToNoCheck: the type returned by readHead")
				return
			}
			sets := valueSets(fn, ty, nil)
			end := rng(wStructEnd, wStructEnd)
			nFound := 0
			for _, rp := range returnPaths(fn) {
				if len(rp.vals) == 0 {
					continue
				}
				if b, isB := constBool(rp.vals[0]); !isB || !b {
					continue
				}
				nFound++
				s := rp.pathSet(sets, trackValue(ty)).intersect(rng(0, 255))
				r.Check(s.intersect(end).empty(), fname(fn), "found is never a StructEnd head", rp.ret.Pos(), "type ∈ %s where found=true is returned", "found=true can be returned for a head of type StructEnd (type ∈ %s): the struct terminator, written with tag 0, is taken for member 0", s)
			}
			if nFound == 0 {
				r.Bad(fname(fn), "found return", fn.Pos(), "no path returns found=true")
			}
			eachInstr(fn, func(in ssa.Instruction) {
				c, ok := in.(*ssa.Call)
				if !ok {
					return
				}
				if o := calleeObj(&c.Call); o == nil || o.Name() != "skipField" {
					return
				}
				s := sets[c.Block()].intersect(rng(0, 255))
				r.Check(s.intersect(end).empty(), fname(fn), "StructEnd is not skipped as a field", in.Pos(), "type ∈ %s at the call of skipField", "skipField can be called for a StructEnd head (type ∈ %s): the search runs past the end of the struct", s)
			})
		}})
}

// dependsOn: v is computed from src (through arithmetic, conversions and phis).
func dependsOn(v, src ssa.Value, depth int, seen map[ssa.Value]bool) bool {
	if v == nil || depth > 12 || seen[v] {
		return false
	}
	seen[v] = true
	if v == src {
		return true
	}
	switch x := v.(type) {
	case *ssa.BinOp:
		return dependsOn(x.X, src, depth+1, seen) || dependsOn(x.Y, src, depth+1, seen)
	case *ssa.Convert:
		return dependsOn(x.X, src, depth+1, seen)
	case *ssa.ChangeType:
		return dependsOn(x.X, src, depth+1, seen)
	case *ssa.UnOp:
		return dependsOn(x.X, src, depth+1, seen)
	case *ssa.Phi:
		for _, e := range x.Edges {
			if dependsOn(e, src, depth+1, seen) {
				return true
			}
		}
	}
	return false
}

func init() {
	register(&Rule{ID: "C09.R5", Props: []string{"C09"}, Min: 1, Needs: NeedMain,
		Doc: "a per-call timeout bounds the call: in the proxy's invoke function the duration given to context.WithTimeout (the caller's context has no deadline) is computed from the per-call value returned by current.GetClientTimeout on every path where that call reports one (ok && isTimeout), not from the proxy's configured timeout",
		Run: func(r *R) {
			fn := r.w.Func("tars", "ServantProxy.TarsInvoke")
			if fn == nil {
				r.AnchorMissing("tars.(*ServantProxy).TarsInvoke")
				return
			}
			var get, with *ssa.Call
			eachInstr(fn, func(in ssa.Instruction) {
				c, ok := in.(*ssa.Call)
				if !ok {
					return
				}
				switch id := funcID(calleeObj(&c.Call)); {
				case strings.HasSuffix(id, "current.GetClientTimeout"):
					get = c
				case id == "context.WithTimeout":
					with = c
				}
			})
			if with == nil {
				r.AnchorMissing("tars.(*ServantProxy).TarsInvoke: context.WithTimeout")
				return
			}
			if get == nil {
				r.Bad(fname(fn), "per-call timeout bounds the wait", with.Pos(), "current.GetClientTimeout is not consulted: a timeout set for one call with SetClientTimeout is ignored")
				return
			}
			var okV, toV, isV ssa.Value
			for _, ref := range *get.Referrers() {
				if e, isE := ref.(*ssa.Extract); isE {
					switch e.Index {
					case 0:
						okV = e
					case 1:
						toV = e
					case 2:
						isV = e
					}
				}
			}
			d := with.Call.Args[1]
			good, why := toV != nil, "the per-call value is never used"
			any := false
			if toV != nil {
				for _, vp := range splitPaths([]ssa.Value{d}, with.Block()) {
					dep := dependsOn(vp.vals[0], toV, 0, map[ssa.Value]bool{})
					if dep {
						any = true
						continue
					}
					hasOK, hasIs := okV == nil, isV == nil
					for _, f := range vp.pathFacts() {
						c, taken := f.Cond, f.Taken
						for {
							if u, isU := c.(*ssa.UnOp); isU && u.Op == token.NOT {
								c, taken = u.X, !taken
								continue
							}
							break
						}
						if taken && c == okV {
							hasOK = true
						}
						if taken && c == isV {
							hasIs = true
						}
					}
					if hasOK && hasIs {
						good, why = false, "on a path where GetClientTimeout reports a per-call timeout the wait is bounded by "+pathOf(vp.vals[0])
					}
				}
				if good && !any {
					good, why = false, "the duration given to context.WithTimeout never depends on the per-call timeout"
				}
			}
			r.Check(good, fname(fn), "per-call timeout bounds the wait", with.Pos(), "WithTimeout(ctx, per-call timeout) where one is set", "%s: the caller waits for the proxy's configured timeout instead of the one it asked for", why)
		}})
}

// callsNamed: fn (or a function literal inside it, e.g. a deferred closure) calls a function called name;
// followed into static callees of the same package up to depth.
func callsNamed(fn *ssa.Function, name string, depth int, seen map[*ssa.Function]bool) bool {
	if fn == nil || fn.Blocks == nil || depth > 3 || seen[fn] {
		return false
	}
	seen[fn] = true
	found := false
	eachInstrDeep(fn, func(_ *ssa.Function, in ssa.Instruction) {
		c := callCommon(in)
		if c == nil || found {
			return
		}
		if o := calleeObj(c); o != nil && o.Name() == name {
			found = true
			return
		}
		if sc := c.StaticCallee(); sc != nil && sc.Pkg == fn.Pkg && callsNamed(sc, name, depth+1, seen) {
			found = true
		}
	})
	return found
}

func init() {
	register(&Rule{ID: "C15.R8", Props: []string{"C15"}, Min: 2, Needs: NeedMain,
		Doc: "one failed exchange is one failure: at every call of the adapter's Send/SendContext in package tars the failure counter is advanced exactly once for a send that fails — either inside the send function or by the caller on its error branch, not both (a keep-alive ping that cannot be sent would count twice and take the endpoint out of rotation after a single failure) and not neither",
		Run: func(r *R) {
			sp := r.w.Pkg("tars")
			if sp == nil {
				r.AnchorMissing("package tars")
				return
			}
			for _, fn := range r.w.Funcs(sp) {
				eachInstr(fn, func(in ssa.Instruction) {
					c, ok := in.(*ssa.Call)
					if !ok {
						return
					}
					sc := c.Call.StaticCallee()
					if sc == nil || sc.Signature.Recv() == nil || !strings.HasSuffix(typeID(sc.Signature.Recv().Type()), "tars.AdapterProxy") {
						return
					}
					if sc.Name() != "Send" && sc.Name() != "SendContext" {
						return
					}
					if fn.Signature.Recv() != nil && fn.Name() == "Send" && strings.HasSuffix(typeID(fn.Signature.Recv().Type()), "tars.AdapterProxy") {
						return // Send is SendContext with a background context
					}
					inside := callsNamed(sc, "failAdd", 0, map[*ssa.Function]bool{})
					// the caller's error branch: blocks where the returned error is known non-nil
					outside := false
					eachInstr(fn, func(j ssa.Instruction) {
						cc := callCommon(j)
						if cc == nil {
							return
						}
						if o := calleeObj(cc); o == nil || o.Name() != "failAdd" {
							return
						}
						for _, f := range facts(j.Block()) {
							if n, okn := normFact(f); okn && n.Op == token.NEQ && isNilConst(n.Y) && (n.X == ssa.Value(c) || sameValue(n.X, c) || resolveSpill(n.X) == ssa.Value(c)) {
								outside = true
							}
						}
					})
					what := "counted once"
					switch {
					case inside && outside:
						what = "counted twice (inside " + sc.Name() + " and again by the caller)"
					case !inside && !outside:
						what = "not counted at all"
					}
					r.Check(inside != outside, fname(fn), "a failed "+sc.Name()+" is counted once", in.Pos(), "%s", "a send that fails is %s: the failure statistics that decide when an endpoint leaves rotation are wrong", what)
				})
			}
		}})

	register(&Rule{ID: "C15.R9", Props: []string{"C15", "C18"}, Min: 2, Needs: NeedMain,
		Doc: "one key for the pending-probe set: every Load/Store/LoadOrStore/Delete on endpointManager.checkAdapterList is keyed by the Key field of an endpoint.Endpoint (the canonical key of C18.R3) — an entry recorded under one spelling of the endpoint and deleted under another (e.g. a key built from the transport name, which is ssl where the canonical one says tcp) is never removed, and the endpoint is never probed again",
		Run: func(r *R) {
			sp := r.w.Pkg("tars")
			if sp == nil {
				r.AnchorMissing("package tars")
				return
			}
			for _, fn := range r.w.Funcs(sp) {
				eachInstr(fn, func(in ssa.Instruction) {
					c := callCommon(in)
					if c == nil || len(c.Args) < 2 {
						return
					}
					id := funcID(calleeObj(c))
					switch id {
					case "sync.(Map).Load", "sync.(Map).Store", "sync.(Map).LoadOrStore", "sync.(Map).Delete", "sync.(Map).LoadAndDelete":
					default:
						return
					}
					if !strings.HasSuffix(pathOf(c.Args[0]), ".checkAdapterList") {
						return
					}
					k := resolveLocal(c.Args[1])
					okk := false
					switch x := k.(type) {
					case *ssa.UnOp:
						if fa, isFA := x.X.(*ssa.FieldAddr); isFA && x.Op == token.MUL {
							okk = fieldNameOf(fa) == "Key" && strings.HasSuffix(typeID(fa.X.Type()), "endpoint.Endpoint")
						}
					case *ssa.Field:
						if st := derefStruct(x.X.Type()); st != nil {
							okk = st.Field(x.Field).Name() == "Key" && strings.HasSuffix(typeID(x.X.Type()), "endpoint.Endpoint")
						}
					}
					r.Check(okk, fname(fn), "checkAdapterList keyed by Endpoint.Key: "+strings.TrimPrefix(id, "sync.(Map)."), in.Pos(), "key is the Key of an endpoint.Endpoint", "the pending-probe set is accessed with the key %s, which is not the canonical Endpoint.Key the other accesses use", pathOf(c.Args[1]))
				})
			}
		}})
}

// soleArg: for a parameter of a function with exactly one static call site in its package, the value
// passed there (nil otherwise).
func soleArg(w *World, p *ssa.Parameter) ssa.Value {
	fn := p.Parent()
	if fn == nil || fn.Pkg == nil {
		return nil
	}
	idx := -1
	for i, q := range fn.Params {
		if q == p {
			idx = i
		}
	}
	var arg ssa.Value
	n := 0
	for _, g := range w.Funcs(fn.Pkg) {
		eachInstr(g, func(in ssa.Instruction) {
			c := callCommon(in)
			if c == nil || c.StaticCallee() != fn || idx < 0 || idx >= len(c.Args) {
				return
			}
			n++
			arg = c.Args[idx]
		})
	}
	if n != 1 {
		return nil
	}
	return arg
}

func init() {
	register(&Rule{ID: "C16.R11", Props: []string{"C16"}, Min: 1, Needs: NeedTool,
		Doc: "the include-cycle test looks at what the chain records: in the tars2go parser the name compared with the elements of the include chain (the comparison that guards the `circular reference` diagnostic) is the very value that is appended to the chain for the nested includes — the resolved path, after the -include search — so that two files that include each other through different search directories are still recognised",
		Run: func(r *R) {
			pp := r.w.Pkg("parse")
			if pp == nil {
				r.AnchorMissing("tars2go package parse")
				return
			}
			isChain := func(v ssa.Value) bool {
				if s, ok := v.Type().Underlying().(*types.Slice); ok {
					if b, ok := s.Elem().Underlying().(*types.Basic); ok && b.Kind() == types.String {
						return true
					}
				}
				return false
			}
			// what is appended to a chain that is a parameter of the function
			var appended []ssa.Value
			var appPos token.Pos
			for _, fn := range r.w.Funcs(pp) {
				eachInstr(fn, func(in ssa.Instruction) {
					c, ok := in.(*ssa.Call)
					if !ok || builtinName(&c.Call) != "append" || len(c.Call.Args) != 2 || !isChain(c.Call.Args[0]) {
						return
					}
					if _, isP := strip(c.Call.Args[0], false).(*ssa.Parameter); !isP {
						return
					}
					// append(chain, x): the variadic slice holds x
					if sl, ok := c.Call.Args[1].(*ssa.Slice); ok {
						if al, ok := sl.X.(*ssa.Alloc); ok {
							for _, ref := range *al.Referrers() {
								if ia, ok := ref.(*ssa.IndexAddr); ok {
									for _, r2 := range *ia.Referrers() {
										if st, ok := r2.(*ssa.Store); ok && st.Addr == ssa.Value(ia) {
											appended = append(appended, st.Val)
											appPos = in.Pos()
										}
									}
								}
							}
						}
					}
				})
			}
			if len(appended) == 0 {
				r.AnchorMissing("parse: append to the include chain")
				return
			}
			// the comparisons guarding a panic: chain element == name
			type cmp struct {
				name ssa.Value
				in   ssa.Instruction
			}
			var cmps []cmp
			for _, fn := range r.w.Funcs(pp) {
				eachInstr(fn, func(in ssa.Instruction) {
					if _, isP := in.(*ssa.Panic); !isP {
						return
					}
					for _, f := range facts(in.Block()) {
						c, ok := normFact(f)
						if !ok || c.Op != token.EQL {
							continue
						}
						for _, pair := range [][2]ssa.Value{{c.X, c.Y}, {c.Y, c.X}} {
							el, name := pair[0], pair[1]
							// el is an element of a chain parameter: a load through IndexAddr / a range element
							isEl := false
							switch x := strip(el, false).(type) {
							case *ssa.UnOp:
								if ia, ok := x.X.(*ssa.IndexAddr); ok && isChain(ia.X) {
									isEl = true
								}
							case *ssa.Index:
								isEl = isChain(x.X)
							}
							if isEl {
								cmps = append(cmps, cmp{name, in})
							}
						}
					}
				})
			}
			if len(cmps) == 0 {
				r.Bad("tars2go/parse", "include chain comparison", appPos, "no comparison of a name with the elements of the include chain guards a diagnostic: mutually including files recurse for ever")
				return
			}
			same := func(a, b ssa.Value) bool {
				if a == nil || b == nil {
					return false
				}
				return a == b || sameValue(a, b)
			}
			okk := false
			for _, c := range cmps {
				for _, a := range appended {
					if same(c.name, a) {
						okk = true
					}
					if p, ok := a.(*ssa.Parameter); ok && same(c.name, soleArg(r.w, p)) {
						okk = true
					}
					if p, ok := c.name.(*ssa.Parameter); ok && same(soleArg(r.w, p), a) {
						okk = true
					}
				}
			}
			r.Check(okk, "tars2go/parse", "cycle test compares the name that is recorded", cmps[0].in.Pos(), "the compared name is the value appended to the chain", "the name compared with the include chain (%s) is not the value that is appended to it (%s): a file reached under two spellings is not recognised and the includes recurse without end", pathOf(cmps[0].name), pathOf(appended[0]))
		}})

	register(&Rule{ID: "C20.R9", Props: []string{"C20", "C16"}, Min: 2, Needs: NeedMain | NeedTool,
		Doc: "recover is called where it works: recover() only stops a panic when it is called directly by the deferred function, so every function of the module that calls recover() is either a function literal that is deferred on the spot or a named function whose every call in the module is a defer statement (moving the recover() of tars.CheckPanic into a helper makes it return nil: the panic is not caught, nothing is flushed and the process dies with the log entries still queued)",
		Run: func(r *R) {
			var pkgs []*ssa.Package
			for _, sp := range r.w.SSA {
				pkgs = append(pkgs, sp)
			}
			for _, sp := range r.w.ToolSSA {
				pkgs = append(pkgs, sp)
			}
			sort.Slice(pkgs, func(i, j int) bool { return pkgs[i].Pkg.Path() < pkgs[j].Pkg.Path() })
			var recs []*ssa.Function
			for _, sp := range pkgs {
				for _, fn := range r.w.Funcs(sp) {
					has := false
					eachInstr(fn, func(in ssa.Instruction) {
						if c, ok := in.(*ssa.Call); ok && builtinName(&c.Call) == "recover" {
							has = true
						}
					})
					if has {
						recs = append(recs, fn)
					}
				}
			}
			for _, fn := range recs {
				bad := ""
				if fn.Parent() != nil {
					// a literal: must be the function of a defer in its parent and nothing else
					used := false
					eachInstr(fn.Parent(), func(in ssa.Instruction) {
						mc, ok := in.(*ssa.MakeClosure)
						var v ssa.Value
						if ok && mc.Fn == ssa.Value(fn) {
							v = mc
						}
						if v == nil {
							for _, op := range in.Operands(nil) {
								if *op == ssa.Value(fn) {
									v = fn
								}
							}
							if v == nil {
								return
							}
							if d, isD := in.(*ssa.Defer); isD && d.Call.Value == v {
								used = true
								return
							}
							bad = "the literal is used other than as the function of a defer"
							return
						}
						for _, ref := range *mc.Referrers() {
							if d, isD := ref.(*ssa.Defer); isD && d.Call.Value == ssa.Value(mc) {
								used = true
							} else if _, isDbg := ref.(*ssa.DebugRef); !isDbg {
								bad = "the literal is used other than as the function of a defer"
							}
						}
					})
					if !used && bad == "" {
						bad = "the literal is not deferred"
					}
				} else {
					for _, sp := range pkgs {
						for _, g := range r.w.Funcs(sp) {
							eachInstr(g, func(in ssa.Instruction) {
								c := callCommon(in)
								if c == nil || c.StaticCallee() != fn {
									return
								}
								if _, isD := in.(*ssa.Defer); !isD {
									bad = "it is called (not deferred) by " + fname(g)
								}
							})
						}
					}
				}
				r.Check(bad == "", fname(fn), "recover() runs in the deferred function itself", fn.Pos(), "deferred directly", "%s, so its recover() returns nil and the panic is not caught", bad)
			}
		}})
}

func init() {
	register(&Rule{ID: "C17.R9", Props: []string{"C17"}, Min: 1, Needs: NeedMain,
		Doc: "a narrowed number was parsed for the narrow type: wherever package conf converts a parsed integer to a narrower integer type (int32(v)), v is the result of strconv.ParseInt with a bit size that fits the target — parsing with Atoi / 64 bits and truncating afterwards turns an out-of-range value into some other number instead of the default",
		Run: func(r *R) {
			sp := r.w.Pkg("tars/util/conf")
			if sp == nil {
				r.AnchorMissing("package conf")
				return
			}
			for _, fn := range r.w.Funcs(sp) {
				eachInstr(fn, func(in ssa.Instruction) {
					cv, ok := in.(*ssa.Convert)
					if !ok {
						return
					}
					tw, _, isInt := intWidth(cv.Type())
					sw, _, isInt2 := intWidth(cv.X.Type())
					if !isInt || !isInt2 || tw >= sw {
						return
					}
					// where does the converted value come from?
					var src *ssa.Call
					seen := map[ssa.Value]bool{}
					var walk func(v ssa.Value, d int)
					walk = func(v ssa.Value, d int) {
						if v == nil || d > 8 || seen[v] {
							return
						}
						seen[v] = true
						switch x := v.(type) {
						case *ssa.Extract:
							if c, ok := x.Tuple.(*ssa.Call); ok && x.Index == 0 {
								switch funcID(calleeObj(&c.Call)) {
								case "strconv.ParseInt", "strconv.ParseUint", "strconv.Atoi":
									src = c
								}
							}
						case *ssa.Phi:
							for _, e := range x.Edges {
								walk(e, d+1)
							}
						case *ssa.Convert:
							walk(x.X, d+1)
						case *ssa.UnOp:
							walk(resolveLocal(x), d+1)
						}
					}
					walk(cv.X, 0)
					if src == nil {
						return
					}
					okk, why := false, "strconv.Atoi parses a full-width int"
					if id := funcID(calleeObj(&src.Call)); id != "strconv.Atoi" && len(src.Call.Args) == 3 {
						if bits, isK := constInt(src.Call.Args[2]); isK && bits != 0 && int(bits) <= tw {
							okk = true
						} else {
							why = "the value is parsed with bit size " + pathOf(src.Call.Args[2])
						}
					}
					r.Check(okk, fname(fn), "narrowing of a parsed integer", in.Pos(), "parsed with the bit size of the target type", "%s and is then cut to %d bits: an out-of-range value wraps around instead of yielding the default", why, tw)
				})
			}
		}})

	register(&Rule{ID: "C18.R5", Props: []string{"C18"}, Min: 1, Needs: NeedMain,
		Doc: "any spacing: the option list handed to the flag parser in endpoint.Parse is (a slice of) strings.Fields of the input, which splits on every run of white space — splitting on single blanks produces empty or fused tokens at a double blank or a tab, the flag parser stops at the first of them and every later option silently keeps its default",
		Run: func(r *R) {
			fn := r.w.Func(endpointPkg, "Parse")
			if fn == nil {
				r.AnchorMissing("endpoint.Parse")
				return
			}
			n := 0
			eachInstr(fn, func(in ssa.Instruction) {
				c, ok := in.(*ssa.Call)
				if !ok || funcID(calleeObj(&c.Call)) != "flag.(FlagSet).Parse" || len(c.Call.Args) < 2 {
					return
				}
				n++
				okk, bad := true, ""
				seen := map[ssa.Value]bool{}
				var walk func(v ssa.Value, d int)
				walk = func(v ssa.Value, d int) {
					if v == nil || d > 10 || seen[v] {
						return
					}
					seen[v] = true
					switch x := v.(type) {
					case *ssa.Phi:
						for _, e := range x.Edges {
							walk(e, d+1)
						}
					case *ssa.Slice:
						walk(x.X, d+1)
					case *ssa.UnOp:
						if rl := resolveLocal(x); rl != ssa.Value(x) {
							walk(rl, d+1)
							return
						}
						okk, bad = false, pathOf(v)
					case *ssa.Call:
						id := funcID(calleeObj(&x.Call))
						if id == "strings.Fields" {
							return
						}
						// a helper of the package that returns the fields: look at what it returns
						if sc := x.Call.StaticCallee(); sc != nil && sc.Pkg == fn.Pkg && sc.Blocks != nil && d < 6 {
							for _, b := range sc.Blocks {
								if ret, ok := b.Instrs[len(b.Instrs)-1].(*ssa.Return); ok && len(ret.Results) > 0 {
									walk(ret.Results[0], d+1)
								}
							}
							return
						}
						okk, bad = false, "the result of "+id
					case *ssa.Const:
					default:
						okk, bad = false, pathOf(v)
					}
				}
				walk(c.Call.Args[1], 0)
				r.Check(okk, fname(fn), "options are the white-space separated fields of the input", in.Pos(), "flag arguments come from strings.Fields", "the flag arguments are %s, not strings.Fields of the input: a double blank or a tab between options ends option parsing early", bad)
			})
			if n == 0 {
				r.AnchorMissing("endpoint.Parse: call of (*flag.FlagSet).Parse")
			}
		}})

	register(&Rule{ID: "C16.R12", Props: []string{"C16", "C04"}, Min: 3, Needs: NeedTool,
		Doc: "the ResetDefault emitter resets every kind of member: in genFunResetDefault, for members without an explicit default, each container kind (vector, map, fixed array) and the scalar kinds reach a statement that emits an assignment — a kind whose case emits nothing keeps the previous message's elements when a struct value is reused for decoding",
		Run: func(r *R) {
			fn := r.w.Func("gencode", "GenGo.genFunResetDefault")
			if fn == nil {
				r.AnchorMissing("gencode.(*GenGo).genFunResetDefault")
				return
			}
			isT := tracker(func(e ssa.Value) bool { return strings.HasSuffix(pathOf(e), ".Type.Type") })
			var anyT ssa.Value
			eachInstr(fn, func(in ssa.Instruction) {
				if v, ok := in.(ssa.Value); ok && anyT == nil && isT(v) {
					if _, isLoad := v.(*ssa.UnOp); isLoad {
						anyT = v
					}
				}
			})
			if anyT == nil {
				r.AnchorMissing("genFunResetDefault: the member's type kind (v.Type.Type)")
				return
			}
			sets := valueSets(fn, anyT, isT)
			emits := func(b *ssa.BasicBlock) bool {
				for _, in := range b.Instrs {
					if c := callCommon(in); c != nil {
						if o := calleeObj(c); o != nil && o.Name() == "P" {
							return true
						}
					}
				}
				return false
			}
			for _, name := range []string{"TVector", "TMap", "TArray", "TBool", "TInt", "TString"} {
				kv, ok := toolConst(r.w, "token", name)
				if !ok {
					r.AnchorMissing("token." + name)
					continue
				}
				k, exact := constant.Int64Val(kv)
				if !exact {
					r.AnchorMissing("token." + name)
					continue
				}
				found := false
				for _, b := range fn.Blocks {
					s, reached := sets[b]
					if !reached || !rng(k, k).subsetOf(s) || s.equal(typeRange(anyT.Type())) {
						continue
					}
					if emits(b) {
						found = true
					}
				}
				r.Check(found, fname(fn), "members of kind "+name+" are reset", fn.Pos(), "an assignment is emitted on the path of this kind", "no statement is emitted for members of kind %s without an explicit default: a reused struct keeps the previous value of such a member when the field is absent", name)
			}
		}})
}
