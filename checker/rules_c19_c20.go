package main

import (
	"fmt"
	"go/token"
	"go/types"
	"strings"

	"golang.org/x/tools/go/ssa"
)

const gpoolPkg = "tars/util/gpool"
const roggerPkg = "tars/util/rogger"

// selectRecv: for a select, returns (state index, received value extract) of the state whose
// channel path ends with suffix.
func selectRecv(s *ssa.Select, suffix string) (int, ssa.Value) {
	for i, st := range s.States {
		if st.Dir == types.RecvOnly && strings.HasSuffix(pathOf(st.Chan), suffix) {
			// received values follow (index, recvOk): Extract index 2+k for the k-th receive state
			k := 0
			for j := 0; j < i; j++ {
				if s.States[j].Dir == types.RecvOnly {
					k++
				}
			}
			for _, ref := range *s.Referrers() {
				if e, ok := ref.(*ssa.Extract); ok && e.Index == 2+k {
					return i, e
				}
			}
			return i, nil
		}
	}
	return -1, nil
}

func selectIndex(s *ssa.Select) ssa.Value {
	for _, ref := range *s.Referrers() {
		if e, ok := ref.(*ssa.Extract); ok && e.Index == 0 {
			return e
		}
	}
	return nil
}

// loopBoundCapOf: the loop containing block b is `for i := 0; i < cap(X); i++` → path of X, op.
func loopBound(l *natLoop) (string, token.Token) {
	iff, ok := l.head.Instrs[len(l.head.Instrs)-1].(*ssa.If)
	if !ok {
		return "", token.ILLEGAL
	}
	c, ok := iff.Cond.(*ssa.BinOp)
	if !ok {
		return "", token.ILLEGAL
	}
	return pathOf(c.Y), c.Op
}

// tripCount: the loop runs exactly N times for a recognised counted form; returns the access path
// of N: `i := 0; i < N; i++`, `i := N; i > 0; i--`, `i := N-1; i >= 0; i--`, `i := 1; i <= N; i++`.
func tripCount(l *natLoop) (string, bool) {
	iff, ok := l.head.Instrs[len(l.head.Instrs)-1].(*ssa.If)
	if !ok {
		return "", false
	}
	c, ok := iff.Cond.(*ssa.BinOp)
	if !ok {
		return "", false
	}
	// which successor stays in the loop
	stay := l.body[l.head.Succs[0]]
	op := c.Op
	if !stay {
		op = negateOp(op)
	}
	x, y := c.X, c.Y
	phi, isPhi := x.(*ssa.Phi)
	if !isPhi {
		if p2, ok2 := y.(*ssa.Phi); ok2 {
			phi, x, y, op = p2, y, x, swapOp(op)
		} else {
			return "", false
		}
	}
	if phi.Block() != l.head || len(phi.Edges) != 2 {
		return "", false
	}
	var start ssa.Value
	var step int64
	for _, e := range phi.Edges {
		if bo, isB := e.(*ssa.BinOp); isB && bo.X == ssa.Value(phi) {
			if k, isK := constInt(bo.Y); isK {
				if bo.Op == token.ADD {
					step = k
				} else if bo.Op == token.SUB {
					step = -k
				}
				continue
			}
		}
		start = e
	}
	if start == nil || (step != 1 && step != -1) {
		return "", false
	}
	sk, startConst := constInt(start)
	yk, boundConst := constInt(y)
	switch {
	case step == 1 && op == token.LSS && startConst && sk == 0:
		return pathOf(y), true
	case step == 1 && op == token.LEQ && startConst && sk == 1:
		return pathOf(y), true
	case step == -1 && op == token.GTR && boundConst && yk == 0:
		return pathOf(start), true
	case step == -1 && op == token.GEQ && boundConst && yk == 1:
		return pathOf(start), true
	case step == -1 && op == token.GEQ && boundConst && yk == 0:
		if bo, isB := start.(*ssa.BinOp); isB && bo.Op == token.SUB {
			if k, isK := constInt(bo.Y); isK && k == 1 {
				return pathOf(bo.X), true
			}
		}
	}
	return "", false
}

func init() {
	register(&Rule{ID: "C19.R1", Props: []string{"C19"}, Min: 2, Needs: NeedMain,
		Doc: "linear hand-off: in the dispatcher a job received from the job queue is sent exactly once, to the job channel of a worker received from the idle-worker queue; in the worker loop a job received from its channel is invoked exactly once, synchronously, before the next iteration",
		Run: func(r *R) {
			disp := r.w.Func(gpoolPkg, "Pool.dispatch")
			if disp == nil {
				r.AnchorMissing("gpool.(*Pool).dispatch")
				return
			}
			var sel *ssa.Select
			eachInstr(disp, func(in ssa.Instruction) {
				if s, ok := in.(*ssa.Select); ok && s.Blocking {
					sel = s
				}
			})
			okk, why := false, "no select over the job queue"
			if sel != nil {
				_, job := selectRecv(sel, ".JobQueue")
				if job != nil {
					n := 0
					var snd *ssa.Send
					for _, ref := range *job.Referrers() {
						if s, ok := ref.(*ssa.Send); ok && s.X == job {
							n++
							snd = s
						} else if _, isDbg := ref.(*ssa.DebugRef); !isDbg {
							n += 10 // any other use (call, go, store)
						}
					}
					if n == 1 && snd != nil {
						cp := pathOf(snd.Chan)
						inLoop := false
						for _, l := range loopsOf(disp) {
							if l.body[snd.Block()] && !l.body[sel.Block()] {
								inLoop = true
							}
						}
						if strings.HasSuffix(cp, ".JobChannel") && strings.Contains(cp, "WorkerQueue") && !inLoop {
							okk = true
						} else {
							why = "the job is sent on " + cp
						}
					} else {
						why = fmt.Sprintf("the received job has %d uses (expected exactly one send)", n)
					}
				}
			}
			r.Check(okk, fname(disp), "job -> one idle worker", disp.Pos(), "the job is sent exactly once, on the JobChannel of a worker taken from WorkerQueue", "%s: a job is run twice, dropped, or given to a busy worker", why)
			// worker loop
			for _, fn := range r.w.Funcs(r.w.Pkg(gpoolPkg)) {
				if fn.Parent() == nil || fn.Parent().Name() != "Start" || !strings.Contains(fname(fn.Parent()), "Worker") {
					continue
				}
				var ws *ssa.Select
				eachInstr(fn, func(in ssa.Instruction) {
					if s, ok := in.(*ssa.Select); ok && s.Blocking {
						ws = s
					}
				})
				ok2, why2 := false, "no select over the worker's job channel"
				if ws != nil {
					_, job := selectRecv(ws, ".JobChannel")
					if job != nil {
						calls, others := 0, 0
						for _, ref := range *job.Referrers() {
							switch x := ref.(type) {
							case *ssa.Call:
								if x.Call.Value == job {
									calls++
								} else {
									others++
								}
							case *ssa.Go, *ssa.Defer, *ssa.Send, *ssa.Store:
								// a job kept in a variable across iterations is stored through a phi/alloc; allow
								// only the plain assignment pattern `job = <-ch; job()`
								if st, isSt := x.(*ssa.Store); isSt {
									_ = st
									continue
								}
								others++
							}
						}
						// `job = <-ch` with job declared outside the loop: the call uses the phi/alloc load
						if calls == 0 {
							eachInstr(fn, func(in ssa.Instruction) {
								if c, ok := in.(*ssa.Call); ok && c.Call.StaticCallee() == nil && !c.Call.IsInvoke() && builtinName(&c.Call) == "" {
									if ws.Block().Dominates(c.Block()) {
										calls++
									}
								}
								if g, ok := in.(*ssa.Go); ok && g.Call.StaticCallee() == nil {
									others++
								}
							})
						}
						ok2 = calls == 1 && others == 0
						why2 = fmt.Sprintf("the received job is invoked %d time(s), %d asynchronous/other use(s)", calls, others)
					}
				}
				r.Check(ok2, fname(fn), "received job invoked once, synchronously", fn.Pos(), "job() exactly once per received job, not via go", "%s", why2)
			}
		}})

	register(&Rule{ID: "C19.R2", Props: []string{"C19"}, Min: 3, Needs: NeedMain,
		Doc: "bounded parallelism: jobs are invoked only in the worker loop; workers are started only in Pool.Start, in a loop `i < cap(WorkerQueue)`, and WorkerQueue is made with capacity numWorkers",
		Run: func(r *R) {
			sp := r.w.Pkg(gpoolPkg)
			if sp == nil {
				r.AnchorMissing("package gpool")
				return
			}
			jobT := sp.Pkg.Scope().Lookup("Job")
			if jobT == nil {
				r.AnchorMissing("gpool.Job")
				return
			}
			// who calls a Job value
			for _, fn := range r.w.Funcs(sp) {
				eachInstr(fn, func(in ssa.Instruction) {
					c := callCommon(in)
					if c == nil || c.IsInvoke() || c.StaticCallee() != nil || builtinName(c) != "" {
						return
					}
					if !types.Identical(c.Value.Type(), jobT.Type()) {
						return
					}
					_, isGo := in.(*ssa.Go)
					inWorker := fn.Parent() != nil && strings.Contains(fname(fn.Parent()), "Worker")
					r.Check(inWorker && !isGo, fname(fn), "job invocation site", in.Pos(), "jobs run on a worker goroutine, synchronously", "a job is invoked %s: the number of concurrently running jobs is no longer bounded by the number of workers", map[bool]string{true: "with `go`", false: "outside the worker loop"}[isGo])
				})
			}
			// worker starts
			start := r.w.Func(gpoolPkg, "Pool.Start")
			wstart := r.w.Func(gpoolPkg, "Worker.Start")
			if start == nil || wstart == nil {
				r.AnchorMissing("gpool.(*Pool).Start / (*Worker).Start")
				return
			}
			n := 0
			for _, fn := range r.w.Funcs(sp) {
				eachInstr(fn, func(in ssa.Instruction) {
					if c := callCommon(in); c != nil && c.StaticCallee() == wstart {
						n++
						okk := false
						if fn == start {
							for _, l := range loopsOf(fn) {
								if l.body[in.Block()] {
									if b, ok := tripCount(l); ok && strings.HasPrefix(b, "cap(") && strings.HasSuffix(b, ".WorkerQueue)") {
										okk = true
									}
								}
							}
						}
						r.Check(okk, fname(fn), "workers started", in.Pos(), "exactly cap(WorkerQueue) workers are started, in Pool.Start", "workers are not started exactly `for i := 0; i < cap(WorkerQueue); i++` in Pool.Start: more workers than configured run jobs concurrently (or fewer)")
					}
				})
			}
			// capacities of the job queue and of the handshake channels
			if npf := r.w.Func(gpoolPkg, "NewPool"); npf != nil && len(npf.Params) >= 2 {
				jobCap, found := "", false
				eachInstr(npf, func(in ssa.Instruction) {
					if mc, ok := in.(*ssa.MakeChan); ok {
						if ch, ok := mc.Type().Underlying().(*types.Chan); ok && strings.HasSuffix(ch.Elem().String(), "gpool.Job") {
							found = true
							jobCap = pathOf(mc.Size)
						}
					}
				})
				r.Check(found && jobCap == npf.Params[1].Name(), fname(npf), "job queue capacity", npf.Pos(), "JobQueue = make(chan Job, "+npf.Params[1].Name()+")", "the job queue is made with capacity %q, not the configured queue length %s: a submitter blocks although the configured queue is not full (or never blocks)", jobCap, npf.Params[1].Name())
			}
			np := r.w.Func(gpoolPkg, "NewPool")
			okCap := false
			if np != nil {
				eachInstr(np, func(in ssa.Instruction) {
					if mc, ok := in.(*ssa.MakeChan); ok {
						if ch, ok := mc.Type().Underlying().(*types.Chan); ok && strings.HasSuffix(ch.Elem().String(), "Worker") {
							if p, isP := mc.Size.(*ssa.Parameter); isP && p == np.Params[0] {
								okCap = true
							}
						}
					}
				})
			}
			r.Check(okCap, "tars/util/gpool.NewPool", "WorkerQueue capacity = numWorkers", token.NoPos, "make(chan *Worker, numWorkers)", "the idle-worker queue is not created with capacity numWorkers")
		}})

	register(&Rule{ID: "C19.R3", Props: []string{"C19"}, Min: 1, Needs: NeedMain,
		Doc: "a registered worker is idle: in the worker loop the registration send on the idle queue precedes the wait for a job in every iteration and happens once per iteration",
		Run: func(r *R) {
			for _, fn := range r.w.Funcs(r.w.Pkg(gpoolPkg)) {
				if fn.Parent() == nil || !strings.Contains(fname(fn.Parent()), "Worker") {
					continue
				}
				var regs []*ssa.Send
				var ws *ssa.Select
				eachInstr(fn, func(in ssa.Instruction) {
					if s, ok := in.(*ssa.Send); ok && strings.HasSuffix(pathOf(s.Chan), ".WorkerQueue") {
						regs = append(regs, s)
					}
					if s, ok := in.(*ssa.Select); ok && s.Blocking {
						ws = s
					}
				})
				okk := len(regs) == 1 && ws != nil && instrDominates(regs[0], ws)
				if okk {
					in := false
					for _, l := range loopsOf(fn) {
						if l.body[regs[0].Block()] && l.body[ws.Block()] {
							in = true
						}
					}
					okk = in
				}
				r.Check(okk, fname(fn), "register, then wait", fn.Pos(), "one registration per iteration, before the select", "the worker does not register itself as idle exactly once per iteration before waiting (found %d registrations): a busy worker can be handed a job, or an idle one is never used again", len(regs))
			}
		}})

	register(&Rule{ID: "C19.R4", Props: []string{"C19"}, Min: 2, Needs: NeedMain,
		Doc: "release collects every worker: on the stop branch the dispatcher loops cap(WorkerQueue) times, each time taking a worker from the idle queue and performing the send/receive handshake on its Stop channel, then acknowledges on the pool's stop channel; Release sends and then receives on that channel",
		Run: func(r *R) {
			disp := r.w.Func(gpoolPkg, "Pool.dispatch")
			rel := r.w.Func(gpoolPkg, "Pool.Release")
			if disp == nil || rel == nil {
				r.AnchorMissing("gpool.(*Pool).dispatch / Release")
				return
			}
			okk, why := false, "no collecting loop"
			for _, l := range loopsOf(disp) {
				b, op := loopBound(l)
				takes, sends, recvs := 0, 0, 0
				for blk := range l.body {
					for _, in := range blk.Instrs {
						switch x := in.(type) {
						case *ssa.UnOp:
							if x.Op == token.ARROW {
								p := pathOf(x.X)
								if strings.HasSuffix(p, ".WorkerQueue") {
									takes++
								}
								if strings.HasSuffix(p, ".Stop") {
									recvs++
								}
							}
						case *ssa.Send:
							if strings.HasSuffix(pathOf(x.Chan), ".Stop") {
								sends++
							}
						}
					}
				}
				if takes == 0 {
					continue
				}
				if tc, isTC := tripCount(l); isTC {
					b, op = tc, token.LSS
				}
				if op == token.LSS && strings.HasPrefix(b, "cap(") && strings.HasSuffix(b, ".WorkerQueue)") && takes == 1 && sends == 1 && recvs == 1 {
					okk = true
				} else {
					why = fmt.Sprintf("the collecting loop runs to %s (op %s) with %d take(s), %d stop send(s), %d stop receive(s)", b, op, takes, sends, recvs)
				}
			}
			// the stop/acknowledge handshake uses one channel in both directions: the requester sends and then
			// receives on it. That only works on an unbuffered channel — with a buffer the requester reads its own
			// token back and returns while the other side never saw the request.
			if sp := r.w.Pkg(gpoolPkg); sp != nil {
				for _, f := range r.w.Funcs(sp) {
					eachInstr(f, func(in ssa.Instruction) {
						mc, ok := in.(*ssa.MakeChan)
						if !ok {
							return
						}
						for _, ref := range *mc.Referrers() {
							st, ok := ref.(*ssa.Store)
							if !ok || st.Val != ssa.Value(mc) {
								continue
							}
							fv, _, ok := fieldAddrOf(st.Addr)
							if !ok || !strings.EqualFold(fv.Name(), "stop") {
								continue
							}
							k, isK := constInt(mc.Size)
							r.Check(isK && k == 0, fname(f), "handshake channel "+fv.Name()+" is unbuffered", in.Pos(), "make(chan struct{}) without capacity", "the stop/acknowledge channel %s is made with a buffer (%s): Release (or the dispatcher) receives its own stop token and returns while workers still run jobs", fv.Name(), pathOf(mc.Size))
						}
					})
				}
			}
			r.Check(okk, fname(disp), "stop branch collects cap(WorkerQueue) workers", disp.Pos(), "every worker is taken from the idle queue and stopped with a handshake", "%s: Release returns while jobs are still running, or workers are never stopped", why)
			var ops []string
			eachInstr(rel, func(in ssa.Instruction) {
				switch x := in.(type) {
				case *ssa.Send:
					if strings.HasSuffix(pathOf(x.Chan), ".stop") {
						ops = append(ops, "send")
					}
				case *ssa.UnOp:
					if x.Op == token.ARROW && strings.HasSuffix(pathOf(x.X), ".stop") {
						ops = append(ops, "recv")
					}
				}
			})
			r.Check(len(ops) == 2 && ops[0] == "send" && ops[1] == "recv", fname(rel), "Release handshake", rel.Pos(), "send stop, then wait for the acknowledgement", "Release does not send and then wait on the stop channel (%v): it returns before the workers have stopped", ops)
		}})

	// ---- C20 -------------------------------------------------------------------------------------

	register(&Rule{ID: "C20.R1", Props: []string{"C20"}, Min: 1, Needs: NeedMain,
		Doc: "drain before acknowledging: every call that acknowledges a flush (the cancel function of the context FlushLogger waits on) is reached only through the default edge of a non-blocking select that receives from the log queue, or under len(queue) == 0 — an emptiness observation made after the flush request was seen",
		Run: func(r *R) {
			sp := r.w.Pkg(roggerPkg)
			if sp == nil {
				r.AnchorMissing("package rogger")
				return
			}
			// the ack: call through the package-level CancelFunc paired with the context FlushLogger waits on
			fl := r.w.Func(roggerPkg, "FlushLogger")
			if fl == nil {
				r.AnchorMissing("rogger.FlushLogger")
				return
			}
			waited := ""
			eachInstr(fl, func(in ssa.Instruction) {
				if s, ok := in.(*ssa.Select); ok {
					for _, st := range s.States {
						if c, ok := st.Chan.(*ssa.Call); ok && c.Call.IsInvoke() && c.Call.Method.Name() == "Done" {
							waited = pathOf(c.Call.Value)
						}
					}
				}
			})
			if waited == "" {
				r.Undecided(fname(fl), "flush wait", fl.Pos(), "FlushLogger does not wait on a context")
				return
			}
			ackName := strings.Replace(waited, "Done", "Cancel", 1) // asyncDone -> asyncCancel
			n := 0
			for _, fn := range r.w.Funcs(sp) {
				eachInstr(fn, func(in ssa.Instruction) {
					c := callCommon(in)
					if c == nil || c.StaticCallee() != nil || c.IsInvoke() || pathOf(c.Value) != ackName {
						return
					}
					n++
					observed := false
					for _, f := range facts(in.Block()) {
						cm, okc := normFact(f)
						if !okc {
							continue
						}
						if ex, isEx := cm.X.(*ssa.Extract); isEx && ex.Index == 0 {
							if s, isS := ex.Tuple.(*ssa.Select); isS && !s.Blocking {
								qi, _ := selectRecv(s, "logQueue")
								if qi >= 0 && len(s.States) == 1 {
									if k, isK := constInt(cm.Y); isK && ((cm.Op == token.NEQ && k == int64(qi)) || (cm.Op == token.EQL && k == -1)) {
										// the observation must be the last channel operation before the ack: no blocking
										// select / receive / send may lie between it and the acknowledgement
										stale := false
										eachInstr(fn, func(bi ssa.Instruction) {
											blocking := false
											switch y := bi.(type) {
											case *ssa.Select:
												blocking = y.Blocking
											case *ssa.UnOp:
												blocking = y.Op == token.ARROW
											case *ssa.Send:
												blocking = true
											}
											if blocking && reaches(s, bi) && reaches(bi, in) {
												stale = true
											}
										})
										if !stale {
											observed = true
										}
									}
								}
							}
						}
						if k, isK := constInt(cm.Y); isK && k == 0 && cm.Op == token.EQL && pathOf(cm.X) == "len(logQueue)" {
							observed = true
						}
					}
					r.Check(observed, fname(fn), "flush acknowledged only on an empty queue", in.Pos(), "the acknowledgement follows the default edge of a non-blocking receive from the log queue", "the flush is acknowledged without an emptiness observation of the log queue (a blocking select picks uniformly among ready cases, so it can choose the flush request while entries are queued): entries logged before FlushLogger — e.g. the panic dump before os.Exit — are lost")
				})
			}
			if n == 0 {
				r.Bad(roggerPkg, "flush acknowledgement", fl.Pos(), "nothing ever calls %s: FlushLogger always runs into its timeout", ackName)
			}
		}})

	register(&Rule{ID: "C20.R2", Props: []string{"C20"}, Min: 3, Needs: NeedMain,
		Doc: "single consumer, undivided writes: the log queue is received from only in the flusher, which is started exactly once (from init); every received entry leads to exactly one writer.Write of its whole value",
		Run: func(r *R) {
			sp := r.w.Pkg(roggerPkg)
			if sp == nil {
				r.AnchorMissing("package rogger")
				return
			}
			consumers := map[*ssa.Function]bool{}
			fns := append([]*ssa.Function{}, r.w.Funcs(sp)...)
			have := map[*ssa.Function]bool{}
			for _, f := range fns {
				have[f] = true
			}
			for name, m := range sp.Members {
				if f, ok := m.(*ssa.Function); ok && strings.HasPrefix(name, "init") && !have[f] {
					fns = append(fns, f)
					have[f] = true
				}
			}
			for _, fn := range fns {
				eachInstr(fn, func(in ssa.Instruction) {
					switch x := in.(type) {
					case *ssa.Select:
						if i, v := selectRecv(x, "logQueue"); i >= 0 {
							consumers[fn] = true
							// one Write of v.value in the case body
							writes := 0
							if v != nil {
								for _, ref := range *v.Referrers() {
									_ = ref
								}
								eachInstr(fn, func(j ssa.Instruction) {
									if c := callCommon(j); c != nil && c.IsInvoke() && c.Method.Name() == "Write" {
										if strings.HasPrefix(pathOf(c.Args[0]), pathOf(v)) && strings.HasSuffix(pathOf(c.Args[0]), ".value") && strings.HasPrefix(pathOf(c.Value), pathOf(v)) {
											// this write belongs to this select's value when it uses it
											if valueUses(c.Args[0], v) {
												writes++
											}
										}
									}
								})
							}
							r.Check(writes == 1, fname(fn), "one Write(v.value) per received entry", in.Pos(), "the entry's writer gets its whole value once", "a received entry is written %d times (expected once, undivided)", writes)
						}
					case *ssa.UnOp:
						if x.Op == token.ARROW && pathOf(x.X) == "logQueue" {
							consumers[fn] = true
						}
					}
				})
			}
			var names []string
			for f := range consumers {
				names = append(names, fname(f))
			}
			r.Check(len(consumers) == 1, roggerPkg, "single consumer of the log queue", token.NoPos, "only %v receives from the queue", "the log queue has %d consumers %v: entries of one goroutine can be written out of order", map[bool]any{true: names, false: len(consumers)}[len(consumers) == 1], names)
			var cons *ssa.Function
			for f := range consumers {
				cons = f
			}
			starts, inInit := 0, true
			for _, fn := range fns {
				eachInstr(fn, func(in ssa.Instruction) {
					if g, ok := in.(*ssa.Go); ok && g.Call.StaticCallee() == cons && cons != nil {
						starts++
						if !strings.HasPrefix(fn.Name(), "init") {
							inInit = false
						}
					}
				})
			}
			r.Check(starts == 1 && inInit, roggerPkg, "flusher started exactly once", token.NoPos, "one `go flusher()` in init", "the flusher is started %d times (init only: %v): two flushers reorder entries", starts, inInit)
		}})

	register(&Rule{ID: "C20.R4", Props: []string{"C20"}, Min: 2, Needs: NeedMain,
		Doc: "one enqueue per log call: in every function that sends on the log queue, each path from entry to return passes at most one send, and every path that passes the level test passes exactly one",
		Run: func(r *R) {
			sp := r.w.Pkg(roggerPkg)
			for _, fn := range r.w.Funcs(sp) {
				var sends []ssa.Instruction
				eachInstr(fn, func(in ssa.Instruction) {
					if s, ok := in.(*ssa.Send); ok && pathOf(s.Chan) == "logQueue" {
						sends = append(sends, in)
					}
				})
				// select-sends: a log call must block while the queue is full; a non-blocking attempt means the
				// entry is dropped or handed to something else that enqueues it later, out of order
				eachInstr(fn, func(in ssa.Instruction) {
					if sel, ok := in.(*ssa.Select); ok {
						for _, st := range sel.States {
							if st.Dir == types.SendOnly && pathOf(st.Chan) == "logQueue" {
								r.Check(sel.Blocking, fname(fn), "enqueue blocks while the queue is full", in.Pos(), "blocking select", "the entry is offered to the log queue without blocking: when the queue is full it is dropped or enqueued later by someone else — entries of one goroutine overtake each other and a flush can return before the entry is queued")
								sends = append(sends, in)
							}
						}
					}
				})
				if len(sends) == 0 {
					continue
				}
				okk := true
				why := ""
				// the enqueue happens on the goroutine of the log call, not on a spawned one
				if par := fn.Parent(); par != nil {
					eachInstr(par, func(in ssa.Instruction) {
						if g, ok := in.(*ssa.Go); ok {
							if mc, ok := g.Call.Value.(*ssa.MakeClosure); ok && mc.Fn == ssa.Value(fn) {
								okk, why = false, "the entry is enqueued from a goroutine spawned by the log call: the order of one goroutine's entries is lost and the call returns before the entry is queued"
							}
						}
					})
				}
				// no send reaches another send
				for _, a := range sends {
					for _, b := range sends {
						if reaches(a, b) {
							okk, why = false, "two enqueues can happen for one log call (duplicate entry)"
						}
					}
				}
				// returns without a send must be level-filtered: the return block is dominated by a comparison of a level
				for _, b := range fn.Blocks {
					if _, isRet := b.Instrs[len(b.Instrs)-1].(*ssa.Return); !isRet || b == fn.Recover {
						continue
					}
					sent := false
					for _, s := range sends {
						if reaches(s, b.Instrs[len(b.Instrs)-1]) {
							sent = true
						}
					}
					if !sent {
						filtered := false
						for _, f := range facts(b) {
							if c, okc := normFact(f); okc && (c.Op == token.LSS || c.Op == token.GTR || c.Op == token.LEQ || c.Op == token.GEQ) && strings.Contains(strings.ToLower(pathOf(c.X)+pathOf(c.Y)), "level") {
								filtered = true
							}
						}
						if !filtered {
							okk, why = false, "a return is reachable without an enqueue and without the level filter (entry lost)"
						}
					}
				}
				r.Check(okk, fname(fn), "exactly one enqueue per accepted log call", fn.Pos(), "one send on the log queue on every accepted path", "%s", why)
			}
		}})

	register(&Rule{ID: "C20.R6", Props: []string{"C20"}, Min: 1, Needs: NeedMain,
		Doc: "a flush request is never answered by the requester itself: every path through FlushLogger signals the flusher and then waits for its acknowledgement (or the timeout) — an `empty queue` shortcut is wrong because the flusher may hold a dequeued entry it has not written yet",
		Run: func(r *R) {
			fl := r.w.Func(roggerPkg, "FlushLogger")
			if fl == nil {
				r.AnchorMissing("rogger.FlushLogger")
				return
			}
			isSignal := func(in ssa.Instruction) bool {
				c := callCommon(in)
				return c != nil && c.StaticCallee() == nil && !c.IsInvoke() && builtinName(c) == "" && strings.HasSuffix(pathOf(c.Value), "Cancel")
			}
			isWait := func(in ssa.Instruction) bool {
				s, ok := in.(*ssa.Select)
				if !ok || !s.Blocking {
					return false
				}
				for _, st := range s.States {
					if c, ok := st.Chan.(*ssa.Call); ok && c.Call.IsInvoke() && c.Call.Method.Name() == "Done" {
						return true
					}
				}
				return false
			}
			noSignal := reachFromEntryAvoiding(fl, isReturn, isSignal)
			noWait := reachFromEntryAvoiding(fl, isReturn, isWait)
			r.Check(noSignal == nil && noWait == nil, fname(fl), "always signal, then wait", fl.Pos(), "every path signals the flusher and waits for the acknowledgement", "FlushLogger can return without signalling the flusher / without waiting for its acknowledgement: an entry the flusher has dequeued but not yet written is lost when the process exits")
		}})

	register(&Rule{ID: "C20.R5", Props: []string{"C20"}, Min: 2, Needs: NeedMain,
		Doc: "callers: the panic handler calls FlushLogger directly (not deferred — os.Exit runs no defers) before every os.Exit it reaches; the application's Run defers FlushLogger",
		Run: func(r *R) {
			fl := r.w.Func(roggerPkg, "FlushLogger")
			cp := r.w.Func("tars", "CheckPanic")
			if fl == nil || cp == nil {
				r.AnchorMissing("rogger.FlushLogger / tars.CheckPanic")
				return
			}
			var exits, flushes []ssa.Instruction
			eachInstr(cp, func(in ssa.Instruction) {
				c := callCommon(in)
				if c == nil {
					return
				}
				if funcID(calleeObj(c)) == "os.Exit" {
					exits = append(exits, in)
				}
				if _, isCall := in.(*ssa.Call); isCall && c.StaticCallee() == fl {
					flushes = append(flushes, in)
				}
			})
			okk := len(exits) > 0
			for _, e := range exits {
				dom := false
				for _, f := range flushes {
					if instrDominates(f, e) {
						dom = true
					}
				}
				if !dom {
					okk = false
				}
			}
			r.Check(okk, fname(cp), "FlushLogger before os.Exit", cp.Pos(), "a direct FlushLogger() call dominates os.Exit", "os.Exit is reached without a preceding direct call of FlushLogger (a deferred call never runs because os.Exit skips defers): the entries logged right before the panic exit are lost")
			run := r.w.Func("tars", "application.Run")
			okRun := false
			if run != nil {
				eachInstr(run, func(in ssa.Instruction) {
					if d, ok := in.(*ssa.Defer); ok && d.Call.StaticCallee() == fl && in.Block() == run.Blocks[0] {
						okRun = true
					}
				})
			}
			r.Check(okRun, "(*tars.application).Run", "defer FlushLogger", token.NoPos, "Run defers FlushLogger at entry", "the application's Run does not defer FlushLogger")
		}})
}

// valueUses: v's expression tree (through loads/field addresses) contains root.
func valueUses(v, root ssa.Value) bool {
	for i := 0; i < 8; i++ {
		if v == root {
			return true
		}
		switch x := v.(type) {
		case *ssa.UnOp:
			v = x.X
		case *ssa.FieldAddr:
			v = x.X
		case *ssa.Field:
			v = x.X
		default:
			return false
		}
	}
	return false
}

func init() {
	register(&Rule{ID: "C20.R7", Props: []string{"C20"}, Min: 1, Needs: NeedMain,
		Doc: "a queued entry owns its bytes: where a log entry takes its bytes from a bytes.Buffer (Bytes() aliases the buffer), the buffer is allocated by that very call and is neither handed to a sync.Pool nor reset afterwards — the entry waits in the queue after the log call has returned, and a recycled buffer would be overwritten by the next entry before the writer has seen this one",
		Run: func(r *R) {
			sp := r.w.Pkg(roggerPkg)
			if sp == nil {
				r.AnchorMissing("package rogger")
				return
			}
			for _, fn := range r.w.Funcs(sp) {
				eachInstr(fn, func(in ssa.Instruction) {
					st, ok := in.(*ssa.Store)
					if !ok {
						return
					}
					fv, base, ok := fieldAddrOf(st.Addr)
					if !ok || !strings.HasSuffix(typeID(base.Type()), "rogger.logValue") || !isByteSlice(fv.Type()) {
						return
					}
					c, ok := strip(st.Val, false).(*ssa.Call)
					if !ok || funcID(calleeObj(&c.Call)) != "bytes.(Buffer).Bytes" {
						r.OK(fname(fn), "entry bytes", in.Pos(), "the entry's bytes are not a view of a bytes.Buffer (%s)", pathOf(st.Val))
						return
					}
					buf := strip(c.Call.Args[0], false)
					_, fresh := buf.(*ssa.Alloc)
					if nb, isCall := buf.(*ssa.Call); isCall {
						if id := funcID(calleeObj(&nb.Call)); id == "bytes.NewBuffer" || id == "bytes.NewBufferString" {
							fresh = true
						}
					}
					recycled := ""
					eachInstr(fn, func(j ssa.Instruction) {
						cc := callCommon(j)
						if cc == nil {
							return
						}
						id := funcID(calleeObj(cc))
						for _, a := range cc.Args {
							if strip(a, false) != buf {
								if mi, isMI := a.(*ssa.MakeInterface); !isMI || strip(mi.X, false) != buf {
									continue
								}
							}
							if id == "sync.(Pool).Put" {
								recycled = "returned to a sync.Pool"
							}
							if id == "bytes.(Buffer).Reset" && reaches(in, j) {
								recycled = "reset after the entry was built"
							}
						}
					})
					r.Check(fresh && recycled == "", fname(fn), "entry bytes", in.Pos(), "Bytes() of a buffer allocated by this call and never recycled", "the entry's bytes alias a buffer that is %s: the next log call overwrites an entry that is still waiting in the queue (entries lost, duplicated or mixed)", map[bool]string{true: recycled, false: "not allocated by this call (" + pathOf(buf) + ")"}[recycled != ""])
				})
			}
		}})
}
