package main

import (
	"fmt"
	"go/token"
	"go/types"
	"sort"
	"strings"

	"golang.org/x/tools/go/ssa"
)

// serverProtocolImpls: methods named `name` of in-repo types implementing transport.ServerProtocol.
func serverProtocolImpls(w *World, name string) []*ssa.Function {
	tp := w.Pkg("tars/transport")
	if tp == nil {
		return nil
	}
	obj := tp.Pkg.Scope().Lookup("ServerProtocol")
	if obj == nil {
		return nil
	}
	iface, ok := obj.Type().Underlying().(*types.Interface)
	if !ok {
		return nil
	}
	var out []*ssa.Function
	seen := map[*ssa.Function]bool{}
	for _, sp := range w.SSA {
		for _, m := range sp.Members {
			t, ok := m.(*ssa.Type)
			if !ok {
				continue
			}
			nt, ok := t.Type().(*types.Named)
			if !ok {
				continue
			}
			pt := types.NewPointer(nt)
			if !types.Implements(pt, iface) {
				continue
			}
			sel := w.Prog.MethodSets.MethodSet(pt).Lookup(sp.Pkg, name)
			if sel == nil {
				continue
			}
			fn := w.Prog.MethodValue(sel)
			// promoted methods come as synthetic wrappers: unwrap to the declared method
			for fn != nil && fn.Synthetic != "" {
				var inner *ssa.Function
				eachInstr(fn, func(in ssa.Instruction) {
					if c := callCommon(in); c != nil && c.StaticCallee() != nil && c.StaticCallee().Name() == name {
						inner = c.StaticCallee()
					}
				})
				if inner == fn {
					break
				}
				fn = inner
			}
			if fn != nil && fn.Blocks != nil && !seen[fn] {
				seen[fn] = true
				out = append(out, fn)
			}
		}
	}
	sort.Slice(out, func(i, j int) bool { return fname(out[i]) < fname(out[j]) })
	return out
}

// dispatchFuncs: generated `Dispatch(ctx, val, *RequestPacket, *ResponsePacket, bool) error` methods.
func dispatchFuncs(w *World) []*ssa.Function {
	var out []*ssa.Function
	for _, sp := range w.resPkgs() {
		for _, fn := range w.Funcs(sp) {
			if fn.Name() == "Dispatch" && fn.Signature.Recv() != nil && len(fn.Params) == 6 && typeID(fn.Params[3].Type()) == reqPacketT && typeID(fn.Params[4].Type()) == rspPacketT {
				out = append(out, fn)
			}
		}
	}
	return out
}

// allocsOfType: local values (Alloc) of a named struct type in fn.
func allocsOfType(fn *ssa.Function, tid string) []*ssa.Alloc {
	var out []*ssa.Alloc
	eachInstr(fn, func(in ssa.Instruction) {
		if a, ok := in.(*ssa.Alloc); ok {
			if typeID(a.Type().(*types.Pointer).Elem()) == tid {
				if _, isNamed := a.Type().(*types.Pointer).Elem().(*types.Named); isNamed {
					out = append(out, a)
				}
			}
		}
	})
	return out
}

// takesPointerTo: the call passes (a value rooted at) alloc a.
func takesPointerTo(c *ssa.CallCommon, a *ssa.Alloc) bool {
	for _, x := range c.Args {
		if strip(x, false) == ssa.Value(a) || x == ssa.Value(a) {
			return true
		}
	}
	return false
}

func isDispatchLike(c *ssa.CallCommon) bool {
	if c.IsInvoke() && c.Method.Name() == "Dispatch" {
		return true
	}
	for _, a := range c.Args {
		if mc, ok := strip(a, false).(*ssa.MakeClosure); ok {
			if f, ok := mc.Fn.(*ssa.Function); ok && strings.HasPrefix(f.Name(), "Dispatch") {
				return true
			}
		}
	}
	return false
}

// throughFilterSlice: the callee value is an element of a slice-typed struct field (pre/post filters).
func throughFilterSlice(c *ssa.CallCommon) (string, bool) {
	if c.IsInvoke() || c.StaticCallee() != nil {
		return "", false
	}
	v := c.Value
	for i := 0; i < 6; i++ {
		switch x := v.(type) {
		case *ssa.UnOp:
			if x.Op == token.MUL {
				v = x.X
				continue
			}
		case *ssa.IndexAddr:
			return pathOf(x.X), true
		case *ssa.Index:
			return pathOf(x.X), true
		case *ssa.Extract:
			// range over slice yields (ok, k, v) via Next only for maps/strings; slices use IndexAddr
			return "", false
		}
		break
	}
	return "", false
}

func init() {
	register(&Rule{ID: "C10.R1", Props: []string{"C10", "C01"}, Min: 12, Needs: NeedMain,
		Doc: "identity echo: every response producer copies IVersion and IRequestId (and the protocol entry points also CPacketType) from the decoded request into the response, and nothing that can overwrite the response (dispatch, filters) runs after the copy without the copy being redone; generated Dispatch literals echo IVersion/IRequestId themselves",
		Run: func(r *R) {
			// generated Dispatch literals
			for _, fn := range dispatchFuncs(r.w) {
				req, rsp := fn.Params[3], fn.Params[4]
				// the literal: stores into fields of a local ResponsePacket that is then stored to *tarsResp
				got := map[string]string{}
				eachInstr(fn, func(in ssa.Instruction) {
					st, ok := in.(*ssa.Store)
					if !ok {
						return
					}
					fv, base, ok := fieldAddrOf(st.Addr)
					if !ok || typeID(base.Type()) != rspPacketT {
						return
					}
					got[fv.Name()] = pathOf(st.Val)
					_ = rsp
				})
				for _, f := range []string{"IVersion", "IRequestId"} {
					want := req.Name() + "." + f
					r.Check(got[f] == want, fname(fn), "response."+f, fn.Pos(), "%s <- %s", "the generated response sets %s from %q, not from the request (%s)", f, got[f], want)
				}
			}
			// protocol entry points
			var impls []*ssa.Function
			impls = append(impls, serverProtocolImpls(r.w, "Invoke")...)
			impls = append(impls, serverProtocolImpls(r.w, "InvokeTimeout")...)
			if len(impls) < 3 {
				r.Bad("tars/transport", "ServerProtocol implementations", token.NoPos, "found %d implementations of ServerProtocol.Invoke/InvokeTimeout (expected >= 3)", len(impls))
			}
			for _, fn := range impls {
				reqs := allocsOfType(fn, reqPacketT)
				rsps := allocsOfType(fn, rspPacketT)
				if len(reqs) != 1 || len(rsps) != 1 {
					r.Undecided(fname(fn), "request/response locals", fn.Pos(), "%d RequestPacket and %d ResponsePacket locals (expected one each)", len(reqs), len(rsps))
					continue
				}
				req, rsp := reqs[0], rsps[0]
				// the encode call: last call taking rsp whose result is returned
				var enc ssa.Instruction
				eachInstr(fn, func(in ssa.Instruction) {
					c, ok := in.(*ssa.Call)
					if !ok || !takesPointerTo(&c.Call, rsp) {
						return
					}
					if isByteSlice(c.Type()) {
						enc = in
					}
				})
				if enc == nil {
					r.Undecided(fname(fn), "encode call", fn.Pos(), "no call encoding the response found")
					continue
				}
				// decode-failed blocks (push): fact err != nil on the ReadFrom result
				var decodeErr ssa.Value
				eachInstr(fn, func(in ssa.Instruction) {
					if c, ok := in.(*ssa.Call); ok && takesPointerTo(&c.Call, req) {
						if o := calleeObj(&c.Call); o != nil && o.Name() == "ReadFrom" {
							decodeErr = c
						}
					}
				})
				fields := []string{"IVersion", "IRequestId", "CPacketType"}
				for _, f := range fields {
					isEcho := func(in ssa.Instruction) bool {
						st, ok := in.(*ssa.Store)
						if !ok {
							return false
						}
						fv, base, ok := fieldAddrOf(st.Addr)
						if !ok || strip(base, false) != ssa.Value(rsp) && base != ssa.Value(rsp) || fv.Name() != f {
							return false
						}
						_, name, b2, ok := loadedField(st.Val)
						return ok && name == f && (b2 == ssa.Value(req) || strip(b2, false) == ssa.Value(req))
					}
					excused := func(in ssa.Instruction) bool {
						if decodeErr == nil || in != in.Block().Instrs[0] {
							return false
						}
						return knownNonNilAt(decodeErr, in.Block())
					}
					// overwriters of field f
					isOverwriter := func(in ssa.Instruction) bool {
						if in == enc {
							return false
						}
						if c := callCommon(in); c != nil && takesPointerTo(c, rsp) {
							if _, isDefer := in.(*ssa.Defer); isDefer {
								return false
							}
							// a dispatch (direct or through filters) rewrites the whole response; its own literal
							// keeps IVersion/IRequestId (checked above) but sets CPacketType to 0
							if f != "CPacketType" && isDispatchLike(c) {
								return false
							}
							if o := calleeObj(c); o != nil && (o.Name() == "ReadFrom" || o.Name() == "WriteTo") {
								return false
							}
							return true
						}
						if st, ok := in.(*ssa.Store); ok && !isEcho(in) {
							if fv, base, ok := fieldAddrOf(st.Addr); ok && (base == ssa.Value(rsp)) && fv.Name() == f {
								return true
							}
						}
						return false
					}
					miss := reachFromEntryAvoiding(fn, func(in ssa.Instruction) bool { return in == enc }, func(in ssa.Instruction) bool { return isEcho(in) || excused(in) })
					var clobber ssa.Instruction
					eachInstr(fn, func(in ssa.Instruction) {
						if clobber != nil || !isOverwriter(in) {
							return
						}
						if reachAvoiding(in, func(j ssa.Instruction) bool { return j == enc }, isEcho) != nil {
							clobber = in
						}
					})
					switch {
					case miss != nil:
						r.Bad(fname(fn), "echo "+f, enc.Pos(), "the response can be encoded without %s having been copied from the request: the client cannot match / decode the reply", f)
					case clobber != nil:
						r.Bad(fname(fn), "echo "+f, clobber.Pos(), "after %s is copied from the request, %s can overwrite the response and the copy is not redone before encoding", f, shortInstr(clobber))
					default:
						r.OK(fname(fn), "echo "+f, enc.Pos(), "%s is copied from the request on every path to the encoder and survives until it", f)
					}
				}
			}
		}})

	register(&Rule{ID: "C10.R2", Props: []string{"C10", "C01"}, Min: 2, Needs: NeedMain,
		Doc: "one write for two-way, none for one-way: in each request-handler closure every normal return is preceded by exactly one conn.Write/WriteToUDP, except on the edge guarded by packetType == TARSONEWAY where there is none",
		Run: func(r *R) {
			sp := r.w.Pkg("tars/transport")
			oneway, ok := namedConstInt(r.w.Pkg("tars/protocol/res/basef"), "TARSONEWAY")
			if !ok {
				r.AnchorMissing("basef.TARSONEWAY")
				return
			}
			for _, fn := range r.w.Funcs(sp) {
				if fn.Parent() == nil {
					continue
				}
				var inv *ssa.Call
				eachInstr(fn, func(in ssa.Instruction) {
					if c, ok := in.(*ssa.Call); ok && callIs(&c.Call, "~/tars/transport.(TarsServer).invoke") {
						inv = c
					}
				})
				if inv == nil {
					continue
				}
				var writes []ssa.Instruction
				eachInstr(fn, func(in ssa.Instruction) {
					c := callCommon(in)
					if c == nil {
						return
					}
					if (c.IsInvoke() && c.Method.Name() == "Write" && typeID(c.Value.Type()) == "net.Conn") || funcID(calleeObj(c)) == "net.(UDPConn).WriteToUDP" {
						writes = append(writes, in)
					}
				})
				var pt ssa.Value
				eachInstr(fn, func(in ssa.Instruction) {
					if ex, ok := in.(*ssa.Extract); ok && ex.Index == 0 {
						if c, ok := ex.Tuple.(*ssa.Call); ok {
							if o := calleeObj(&c.Call); o != nil && o.Name() == "GetPacketTypeFromContext" {
								pt = ex
							}
						}
					}
				})
				okAll := pt != nil
				detail := ""
				isWrite := func(in ssa.Instruction) bool {
					for _, w := range writes {
						if w == in {
							return true
						}
					}
					return false
				}
				// the edges taken when the packet type is known to be one-way
				oneWayEdge := func(from, to *ssa.BasicBlock) bool {
					for _, f := range edgeFactOf(from, to) {
						if c, ok := normFact(f); ok && c.X == pt && c.Op == token.EQL {
							if k, ok := constInt(c.Y); ok && k == oneway {
								return true
							}
						}
					}
					return false
				}
				nOneWay := 0
				for _, bb := range fn.Blocks {
					for _, sc := range bb.Succs {
						if !oneWayEdge(bb, sc) {
							continue
						}
						nOneWay++
						// (a) nothing is written once the request is known to be one-way
						if w := reachFromBlock(sc, isWrite, nil); w != nil {
							okAll, detail = false, "a reply is written on the one-way path"
						}
					}
				}
				if nOneWay == 0 {
					okAll, detail = false, "no branch on packetType == TARSONEWAY"
				}
				// (b) every other path from the invoke to a normal return writes: search for a return without
				// crossing a write or a one-way edge
				if inv != nil {
					seen := map[*ssa.BasicBlock]bool{}
					var walk func(bb *ssa.BasicBlock, k int) bool
					walk = func(bb *ssa.BasicBlock, k int) bool {
						for ; k < len(bb.Instrs); k++ {
							if isWrite(bb.Instrs[k]) {
								return false
							}
							if _, isRet := bb.Instrs[k].(*ssa.Return); isRet && bb != fn.Recover {
								return true
							}
						}
						for _, sc := range bb.Succs {
							if seen[sc] || oneWayEdge(bb, sc) {
								continue
							}
							seen[sc] = true
							if walk(sc, 0) {
								return true
							}
						}
						return false
					}
					if walk(inv.Block(), instrIndex(inv)+1) {
						okAll, detail = false, "a two-way request can return without a reply being written"
					}
				}
				// (c) never two writes for one request
				for _, w := range writes {
					if w2 := reachAvoiding(w, isWrite, nil); w2 != nil {
						okAll, detail = false, "a request can be answered twice (one write reaches another)"
					}
				}
				// the response written must be the result of this invoke
				for _, wi := range writes {
					c := callCommon(wi)
					arg := c.Args[0]
					if !c.IsInvoke() {
						arg = c.Args[1]
					}
					if strip(arg, false) != ssa.Value(inv) {
						okAll = false
						detail = "the bytes written are not the result of server.invoke"
					}
				}
				nret := 2
				r.Check(okAll && nret >= 2 && len(writes) == 1, fname(fn), "writes per request", fn.Pos(), "exactly one write of the invoke result on every two-way path, none after the one-way branch", "reply discipline broken: %s (writes=%d)", detail, len(writes))
			}
		}})

	register(&Rule{ID: "C10.R3", Props: []string{"C10"}, Min: 3, Needs: NeedMain,
		Doc: "gating in the server entry point: every dispatch/filter call is on the default (not-done) branch of the deadline select and on the SFuncName != \"tars_ping\" edge; the done branch stores the queue-timeout code",
		Run: func(r *R) {
			fn := r.w.Func("tars", "Protocol.Invoke")
			if fn == nil {
				r.AnchorMissing("tars.(*Protocol).Invoke")
				return
			}
			qto, ok := namedConstInt(r.w.Pkg("tars/protocol/res/basef"), "TARSSERVERQUEUETIMEOUT")
			if !ok {
				r.AnchorMissing("basef.TARSSERVERQUEUETIMEOUT")
				return
			}
			// the non-blocking select on ctx.Done()
			var sel *ssa.Select
			eachInstr(fn, func(in ssa.Instruction) {
				if s, ok := in.(*ssa.Select); ok && !s.Blocking && len(s.States) == 1 {
					if ok2, _ := boundedChan(s.States[0].Chan); ok2 {
						sel = s
					}
				}
			})
			if sel == nil {
				r.Bad(fname(fn), "deadline select", fn.Pos(), "no non-blocking select on ctx.Done() found: a request whose deadline passed in the queue would still be executed")
				return
			}
			var idx ssa.Value
			for _, ref := range *sel.Referrers() {
				if e, ok := ref.(*ssa.Extract); ok && e.Index == 0 {
					idx = e
				}
			}
			n := 0
			eachInstr(fn, func(in ssa.Instruction) {
				c := callCommon(in)
				if c == nil || !isDispatchLike(c) {
					return
				}
				n++
				notDone, notPing := false, false
				for _, f := range facts(in.Block()) {
					cm, ok := normFact(f)
					if !ok {
						continue
					}
					if cm.X == idx && cm.Op == token.NEQ {
						if k, ok := constInt(cm.Y); ok && k == 0 {
							notDone = true
						}
					}
					if cm.Op == token.NEQ {
						if s, ok := constString(cm.Y); ok && s == "tars_ping" && strings.HasSuffix(pathOf(cm.X), ".SFuncName") {
							notPing = true
						}
					}
				}
				r.Check(notDone && notPing, fname(fn), fmt.Sprintf("dispatch call %d gated", n), in.Pos(), "on the not-done and not-ping edges", "a dispatch/filter call is reachable %s", map[bool]string{true: "for tars_ping (a ping must not reach the implementation)", false: "although the request's deadline already expired in the queue"}[notDone])
			})
			if n == 0 {
				r.Bad(fname(fn), "dispatch calls", fn.Pos(), "no dispatch call found")
			}
			// done branch stores the queue-timeout code
			stored := false
			eachInstr(fn, func(in ssa.Instruction) {
				st, ok := in.(*ssa.Store)
				if !ok {
					return
				}
				if fv, _, ok := fieldAddrOf(st.Addr); ok && fv.Name() == "IRet" {
					if k, ok := constInt(st.Val); ok && k == qto {
						for _, f := range facts(st.Block()) {
							if cm, ok := normFact(f); ok && cm.X == idx && cm.Op == token.EQL {
								stored = true
							}
						}
					}
				}
			})
			r.Check(stored, fname(fn), "queue-timeout code on the done branch", sel.Pos(), "IRet = TARSSERVERQUEUETIMEOUT on the expired branch", "the expired-deadline branch does not answer with TARSSERVERQUEUETIMEOUT")
		}})

	register(&Rule{ID: "C10.R4", Props: []string{"C10", "C01"}, Min: 2, Needs: NeedMain,
		Doc: "the outcome of the call is the dispatcher's / exchange's error: at the server's error mapping and at the client's return, no reaching definition of err is the result of a pre/post filter (an element of a filter slice); the mapping stores IRet=1, SResultDesc=err.Error() and IRet=(*Error).Code",
		Run: func(r *R) {
			type site struct {
				fn   *ssa.Function
				errv ssa.Value
				pos  token.Pos
			}
			var sites []site
			if fn := r.w.Func("tars", "Protocol.Invoke"); fn != nil {
				// the If whose true branch stores IRet
				for _, b := range fn.Blocks {
					iff, ok := b.Instrs[len(b.Instrs)-1].(*ssa.If)
					if !ok {
						continue
					}
					// the branch on which the error is known non-nil: the true edge of `err != nil` or the false
					// edge of `err == nil` (an early return of the mapping helper)
					errSucc := -1
					var c cmpNorm
					for si, taken := range []bool{true, false} {
						cc, ok := normFact(EdgeFact{Cond: iff.Cond, Taken: taken})
						if ok && cc.Op == token.NEQ && isNilConst(cc.Y) && isErrorType(cc.X.Type()) {
							errSucc, c = si, cc
							break
						}
					}
					if errSucc < 0 || len(b.Succs) != 2 {
						continue
					}
					errBlock := b.Succs[errSucc]
					storesIRet := false
					eachInstr(fn, func(in ssa.Instruction) {
						if st, ok := in.(*ssa.Store); ok && errBlock.Dominates(st.Block()) {
							if fv, _, ok := fieldAddrOf(st.Addr); ok && fv.Name() == "IRet" {
								storesIRet = true
							}
						}
					})
					if storesIRet {
						sites = append(sites, site{fn, c.X, iff.Pos()})
						// mapping details
						var ret1, desc, code bool
						eachInstr(fn, func(in ssa.Instruction) {
							st, ok := in.(*ssa.Store)
							if !ok || !errBlock.Dominates(st.Block()) {
								return
							}
							fv, _, ok := fieldAddrOf(st.Addr)
							if !ok {
								return
							}
							switch fv.Name() {
							case "IRet":
								for _, leaf := range phiLeaves(st.Val) {
									if k, ok := constInt(leaf); ok && k == 1 {
										ret1 = true
									}
									if strings.HasSuffix(pathOf(leaf), ".Code") {
										code = true
									}
								}
							case "SResultDesc":
								if cc, ok := st.Val.(*ssa.Call); ok && cc.Call.IsInvoke() && cc.Call.Method.Name() == "Error" && cc.Call.Value == c.X {
									desc = true
								}
							}
						})
						r.Check(ret1 && desc && code, fname(fn), "error mapping", iff.Pos(), "IRet=1, SResultDesc=err.Error(), IRet=(*Error).Code", "the error mapping is incomplete (IRet=1:%v SResultDesc=err.Error():%v IRet=Code:%v)", ret1, desc, code)
					}
				}
			} else {
				r.AnchorMissing("tars.(*Protocol).Invoke")
			}
			if fn := r.w.Func("tars", "ServantProxy.TarsInvoke"); fn != nil {
				// err tested after postInvoke
				for _, b := range fn.Blocks {
					iff, ok := b.Instrs[len(b.Instrs)-1].(*ssa.If)
					if !ok {
						continue
					}
					c, ok := normFact(EdgeFact{Cond: iff.Cond, Taken: true})
					if !ok || c.Op != token.NEQ || !isNilConst(c.Y) || !isErrorType(c.X.Type()) {
						continue
					}
					hasPost := false
					for _, in := range b.Instrs {
						if cc := callCommon(in); cc != nil {
							if o := calleeObj(cc); o != nil && o.Name() == "postInvoke" {
								hasPost = true
							}
						}
					}
					if hasPost {
						sites = append(sites, site{fn, c.X, iff.Pos()})
					}
				}
			} else {
				r.AnchorMissing("tars.(*ServantProxy).TarsInvoke")
			}
			for _, s := range sites {
				bad := ""
				seen := map[ssa.Value]bool{}
				var walk func(v ssa.Value)
				walk = func(v ssa.Value) {
					if seen[v] {
						return
					}
					seen[v] = true
					switch x := v.(type) {
					case *ssa.Phi:
						for _, e := range x.Edges {
							walk(e)
						}
					case *ssa.Call:
						if p, ok := throughFilterSlice(&x.Call); ok {
							bad = p
						}
					case *ssa.UnOp:
						if a, ok := x.X.(*ssa.Alloc); ok && x.Op == token.MUL {
							for _, ref := range *a.Referrers() {
								if st, ok := ref.(*ssa.Store); ok && st.Addr == a {
									walk(st.Val)
								}
							}
						}
					}
				}
				walk(s.errv)
				r.Check(bad == "", fname(s.fn), "outcome is not a filter's result", s.pos, "no pre/post filter result reaches the outcome", "the result of a filter from %s can replace the error of the call: a pass-through post filter returning nil turns a failed call into a success", bad)
			}
			if len(sites) < 2 {
				r.Bad("tars", "outcome sites", token.NoPos, "found %d outcome sites (expected the server mapping and the client return)", len(sites))
			}
		}})

	register(&Rule{ID: "C10.R5", Props: []string{"C10", "C01"}, Min: 9, Needs: NeedMain,
		Doc: "versions are handled exhaustively: in each generated Dispatch the request version is compared equally often against TARSVERSION, TUPVERSION and JSONVERSION (every decode and every encode section has all three branches)",
		Run: func(r *R) {
			bp := r.w.Pkg("tars/protocol/res/basef")
			vt, ok1 := namedConstInt(bp, "TARSVERSION")
			vu, ok2 := namedConstInt(bp, "TUPVERSION")
			vj, ok3 := namedConstInt(bp, "JSONVERSION")
			if !ok1 || !ok2 || !ok3 {
				r.AnchorMissing("basef.TARSVERSION/TUPVERSION/JSONVERSION")
				return
			}
			for _, fn := range dispatchFuncs(r.w) {
				cnt := map[int64]int{}
				eachInstr(fn, func(in ssa.Instruction) {
					b, ok := in.(*ssa.BinOp)
					if !ok || b.Op != token.EQL {
						return
					}
					if k, ok := constInt(b.Y); ok && strings.HasSuffix(pathOf(b.X), ".IVersion") {
						cnt[k]++
					}
				})
				r.Check(cnt[vt] > 0 && cnt[vt] == cnt[vu] && cnt[vu] == cnt[vj], fname(fn), "version branches", fn.Pos(), "TARS/TUP/JSON handled in all %d sections", "version branches differ: TARS=%d TUP=%d JSON=%d (a request of the missing version is mis-decoded or gets an empty reply)", cnt[vt], cnt[vu], cnt[vj])
			}
		}})

	register(&Rule{ID: "C10.R6", Props: []string{"C10"}, Min: 2, Needs: NeedMain,
		Doc: "handle timeout: TarsServer.invoke waits on a context created by WithTimeout(ctx, cfg.HandleTimeout) and answers through InvokeTimeout exactly when the handler produced nothing",
		Run: func(r *R) {
			fn := r.w.Func("tars/transport", "TarsServer.invoke")
			if fn == nil {
				r.AnchorMissing("transport.(*TarsServer).invoke")
				return
			}
			var wt *ssa.Call
			eachInstrDeep(fn, func(g *ssa.Function, in ssa.Instruction) {
				if c, ok := in.(*ssa.Call); ok && funcID(calleeObj(&c.Call)) == "context.WithTimeout" && strings.HasSuffix(pathOf(c.Call.Args[1]), ".HandleTimeout") {
					wt = c
				}
				// the same thing spelled with an absolute time: WithDeadline(ctx, time.Now().Add(HandleTimeout))
				if c, ok := in.(*ssa.Call); ok && funcID(calleeObj(&c.Call)) == "context.WithDeadline" {
					if add, ok := c.Call.Args[1].(*ssa.Call); ok && funcID(calleeObj(&add.Call)) == "time.(Time).Add" && len(add.Call.Args) == 2 {
						if now, ok := add.Call.Args[0].(*ssa.Call); ok && funcID(calleeObj(&now.Call)) == "time.Now" && strings.HasSuffix(pathOf(add.Call.Args[1]), ".HandleTimeout") {
							wt = c
						}
					}
				}
			})
			waited := false
			eachInstr(fn, func(in ssa.Instruction) {
				if u, ok := in.(*ssa.UnOp); ok && u.Op == token.ARROW {
					if c, ok := u.X.(*ssa.Call); ok && c.Call.IsInvoke() && c.Call.Method.Name() == "Done" {
						if ex, ok := strip(c.Call.Value, false).(*ssa.Extract); ok && wt != nil && ex.Tuple == ssa.Value(wt) {
							waited = true
						}
					}
				}
			})
			r.Check(wt != nil && waited, fname(fn), "wait bounded by HandleTimeout", fn.Pos(), "waits on WithTimeout(ctx, HandleTimeout).Done()", "the handler wait is not bounded by a context derived from cfg.HandleTimeout")
			var it ssa.Instruction
			eachInstr(fn, func(in ssa.Instruction) {
				if c := callCommon(in); c != nil && c.IsInvoke() && c.Method.Name() == "InvokeTimeout" {
					it = in
				}
			})
			okGate := false
			if it != nil {
				// some dominating comparison on len(x) confines it to exactly 0 here (len(x)==0, len(x)<1, !(len(x)>0) ...)
				for _, f := range facts(it.Block()) {
					c, ok := normFact(f)
					if !ok {
						continue
					}
					for _, side := range []ssa.Value{c.X, c.Y} {
						core, _ := affineOf(side)
						if isLenLike(core) {
							if setAt(fn, core, it).intersect(rng(0, posInf)).equal(rng(0, 0)) {
								okGate = true
							}
						}
					}
				}
			}
			r.Check(okGate, fname(fn), "InvokeTimeout only for an empty result", fn.Pos(), "InvokeTimeout is called on the len(rsp)==0 branch", "InvokeTimeout is not called exactly on the empty-result branch")
		}})

	register(&Rule{ID: "C10.R7", Props: []string{"C10"}, Min: 2, Needs: NeedMain,
		Doc: "the receive timestamp is taken when the request is read, not when a worker picks it up: the context handed to server.invoke inside the handler closure is captured from the enclosing function, where it is produced (by a function that stamps the receive time) before the closure is queued",
		Run: func(r *R) {
			sp := r.w.Pkg("tars/transport")
			for _, fn := range r.w.Funcs(sp) {
				if fn.Parent() == nil {
					continue
				}
				var inv *ssa.Call
				eachInstr(fn, func(in ssa.Instruction) {
					if c, ok := in.(*ssa.Call); ok && callIs(&c.Call, "~/tars/transport.(TarsServer).invoke") {
						inv = c
					}
				})
				if inv == nil {
					continue
				}
				ctx := inv.Call.Args[1]
				okk, why := false, "the context is created inside the handler closure (after the queue wait)"
				if ld, ok := ctx.(*ssa.UnOp); ok {
					ctx = ld.X
				}
				if fv, ok := ctx.(*ssa.FreeVar); ok {
					// binding in parent
					fi := -1
					for i, v := range fn.FreeVars {
						if v == fv {
							fi = i
						}
					}
					eachInstr(fn.Parent(), func(in ssa.Instruction) {
						mc, ok := in.(*ssa.MakeClosure)
						if !ok || mc.Fn != fn || fi < 0 {
							return
						}
						b := mc.Bindings[fi]
						var src ssa.Value = b
						if a, ok := b.(*ssa.Alloc); ok {
							if sv, ok := singleStore(a); ok {
								src = sv
							}
						}
						if c, ok := src.(*ssa.Call); ok && c.Call.StaticCallee() != nil && stampsRecvTime(c.Call.StaticCallee()) && instrDominates(c, mc) {
							okk = true
							why = "ctx = " + c.Call.StaticCallee().Name() + "(...) before the closure is created"
						} else if st := stampedInPlace(fn.Parent(), src, mc); st != nil {
							okk = true
							why = "the context is stamped in the enclosing function before the closure is created"
						} else {
							why = "the captured context does not come from a function that stamps the receive time"
						}
					})
				}
				r.Check(okk, fname(fn), "receive time stamped before queueing", inv.Pos(), "%s", "%s: time spent waiting for a worker is not counted against the request's own timeout, so an expired request is still executed", why)
			}
		}})
}

func init() {
	register(&Rule{ID: "C10.R8", Props: []string{"C10", "C01"}, Min: 3, Needs: NeedMain,
		Doc: "per-request state is fresh and every timed request gets its deadline: the function that stamps the receive time returns, on every path, a context created by ContextWithTarsCurrent in that very call (never one cached per connection: request/response context, status and packet type live in it); in the server entry point the original context reaches the deadline test only on the ITimeout <= 0 edge, every other path goes through context.WithTimeout",
		Run: func(r *R) {
			sp := r.w.Pkg("tars/transport")
			n := 0
			for _, fn := range r.w.Funcs(sp) {
				if fn.Parent() != nil || !stampsRecvTime(fn) {
					continue
				}
				n++
				okk := true
				why := ""
				for _, b := range fn.Blocks {
					ret, ok := b.Instrs[len(b.Instrs)-1].(*ssa.Return)
					if !ok || len(ret.Results) != 1 {
						continue
					}
					v := resolveSpill(ret.Results[0])
					c, isCall := v.(*ssa.Call)
					if !isCall || calleeObj(&c.Call) == nil || calleeObj(&c.Call).Name() != "ContextWithTarsCurrent" {
						okk = false
						why = pathOf(v)
					}
				}
				r.Check(okk, fname(fn), "a fresh Current per request", fn.Pos(), "returns ContextWithTarsCurrent(...) created in this call", "the request context returned is %s, not a context created for this request: all requests multiplexed on the connection share one record of request/response context, status and packet type (a later call inherits an earlier call's response context; concurrent calls see each other's request context; a one-way call can swap the reply decision of a two-way call)", why)
			}
			if n < 2 {
				r.Bad("tars/transport", "request context constructors", token.NoPos, "found %d functions that stamp the receive time (expected the TCP and the UDP one)", n)
			}
			// deadline propagation
			fn := r.w.Func("tars", "Protocol.Invoke")
			if fn == nil {
				r.AnchorMissing("tars.(*Protocol).Invoke")
				return
			}
			var sel *ssa.Select
			eachInstr(fn, func(in ssa.Instruction) {
				if s, ok := in.(*ssa.Select); ok && !s.Blocking && len(s.States) == 1 {
					if ok2, _ := boundedChan(s.States[0].Chan); ok2 {
						sel = s
					}
				}
			})
			if sel == nil {
				return // reported by C10.R3
			}
			ctxv := sel.States[0].Chan.(*ssa.Call).Call.Value
			okk, detail := true, ""
			seen := map[ssa.Value]bool{}
			var walk func(v ssa.Value, pred, succ *ssa.BasicBlock)
			walk = func(v ssa.Value, pred, succ *ssa.BasicBlock) {
				switch x := v.(type) {
				case *ssa.Phi:
					if seen[x] {
						return
					}
					seen[x] = true
					for i, e := range x.Edges {
						walk(e, x.Block().Preds[i], x.Block())
					}
				case *ssa.Parameter:
					// the caller's context: only when the request carries no timeout
					untimed := false
					var fs []EdgeFact
					if pred != nil {
						fs = append(facts(pred), edgeFactOf(pred, succ)...)
					}
					for _, f := range fs {
						if c, ok := normFact(f); ok && strings.HasSuffix(pathOf(c.X), ".ITimeout") {
							if k, isK := constInt(c.Y); isK && k == 0 && (c.Op == token.LEQ || c.Op == token.EQL || c.Op == token.LSS) {
								untimed = true
							}
						}
						// any other condition on this path that is not about ITimeout makes the deadline conditional
					}
					timed := false
					for _, f := range fs {
						if c, ok := normFact(f); ok && strings.HasSuffix(pathOf(c.X), ".ITimeout") && c.Op == token.GTR {
							timed = true
						}
					}
					if !untimed || timed {
						okk = false
						detail = "the caller's context reaches the deadline test on a path where ITimeout > 0"
					}
				case *ssa.Extract:
					if c, ok := x.Tuple.(*ssa.Call); !ok || funcID(calleeObj(&c.Call)) != "context.WithTimeout" {
						okk = false
						detail = "context of unknown origin"
					}
				default:
					okk = false
					detail = "context of unknown origin " + pathOf(v)
				}
			}
			walk(ctxv, nil, nil)
			if _, isParam := ctxv.(*ssa.Parameter); isParam {
				okk, detail = false, "the deadline test uses the caller's context directly"
			}
			r.Check(okk, fname(fn), "every request with ITimeout > 0 is tested against its own deadline", sel.Pos(), "ctx at the deadline test = WithTimeout(...) unless ITimeout <= 0", "%s: a request whose own timeout already elapsed while it was queued (non-positive remainder) gets no deadline, is executed and answered with success instead of the queue-timeout code", detail)
		}})
}

// stampedInPlace: a call that stamps the receive time on the very context value v, before `before`
// (the stamping function written in line in the enclosing function).
func stampedInPlace(fn *ssa.Function, v ssa.Value, before ssa.Instruction) ssa.Instruction {
	var hit ssa.Instruction
	eachInstr(fn, func(in ssa.Instruction) {
		c := callCommon(in)
		if c == nil || len(c.Args) == 0 {
			return
		}
		if o := calleeObj(c); o == nil || o.Name() != "SetRecvPkgTsFromContext" {
			return
		}
		a := c.Args[0]
		if (a == v || sameValue(a, v)) && instrDominates(in, before) {
			hit = in
		}
	})
	return hit
}

func stampsRecvTime(f *ssa.Function) bool {
	found := false
	eachInstr(f, func(in ssa.Instruction) {
		if c := callCommon(in); c != nil {
			if o := calleeObj(c); o != nil && o.Name() == "SetRecvPkgTsFromContext" {
				found = true
			}
		}
	})
	return found
}

func shortInstr(in ssa.Instruction) string {
	if c := callCommon(in); c != nil {
		if o := calleeObj(c); o != nil {
			return "the call of " + o.Name()
		}
		return "the call of " + pathOf(c.Value)
	}
	return "the statement at " + in.String()
}

// phiLeaves: the values a (possibly nested) phi selects from; v itself when it is not a phi.
func phiLeaves(v ssa.Value) []ssa.Value {
	var out []ssa.Value
	seen := map[ssa.Value]bool{}
	var walk func(x ssa.Value)
	walk = func(x ssa.Value) {
		if seen[x] {
			return
		}
		seen[x] = true
		if p, ok := x.(*ssa.Phi); ok {
			for _, e := range p.Edges {
				walk(e)
			}
			return
		}
		out = append(out, x)
	}
	walk(v)
	return out
}
