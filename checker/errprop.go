package main

import (
	"fmt"
	"go/token"
	"go/types"
	"sort"
	"strings"

	"golang.org/x/tools/go/ssa"
)

// errResult returns the SSA value holding the error result of a call (the call itself for a
// single error result, the Extract for tuples). idx = index of the error in the results.
// found=false when the result is never extracted (dropped with `_`).
func errResult(call *ssa.Call) (v ssa.Value, hasErr bool, found bool) {
	sig := call.Call.Signature()
	res := sig.Results()
	idx := -1
	for i := 0; i < res.Len(); i++ {
		if isErrorType(res.At(i).Type()) {
			idx = i
		}
	}
	if idx < 0 {
		return nil, false, false
	}
	if res.Len() == 1 {
		return call, true, true
	}
	for _, ref := range *call.Referrers() {
		if e, ok := ref.(*ssa.Extract); ok && e.Index == idx {
			return e, true, true
		}
	}
	return nil, true, false
}

// blocksReachableFrom returns the set of blocks reachable from the point just after instr
// (the instr's own block counts only via a cycle).
func blocksReachableFrom(instr ssa.Instruction) map[*ssa.BasicBlock]bool {
	seen := map[*ssa.BasicBlock]bool{}
	var walk func(b *ssa.BasicBlock)
	walk = func(b *ssa.BasicBlock) {
		for _, s := range b.Succs {
			if !seen[s] {
				seen[s] = true
				walk(s)
			}
		}
	}
	walk(instr.Block())
	return seen
}

// errorIndex: index of the (last) error-typed result of fn, -1 if none.
func errorIndex(sig *types.Signature) int {
	idx := -1
	for i := 0; i < sig.Results().Len(); i++ {
		if isErrorType(sig.Results().At(i).Type()) {
			idx = i
		}
	}
	return idx
}

// knownNil: a dominating fact says v == nil in block b.
func knownNilAt(v ssa.Value, b *ssa.BasicBlock) bool {
	for _, f := range facts(b) {
		if c, ok := normFact(f); ok && c.Op == token.EQL {
			if (sameErrVal(c.X, v) && isNilConst(c.Y)) || (sameErrVal(c.Y, v) && isNilConst(c.X)) {
				return true
			}
		}
	}
	return false
}

func knownNonNilAt(v ssa.Value, b *ssa.BasicBlock) bool {
	for _, f := range facts(b) {
		if c, ok := normFact(f); ok && c.Op == token.NEQ {
			if (sameErrVal(c.X, v) && isNilConst(c.Y)) || (sameErrVal(c.Y, v) && isNilConst(c.X)) {
				return true
			}
		}
	}
	return false
}

func sameErrVal(a, b ssa.Value) bool { return a == b }

// propCtx parametrises the "must return a non-nil error unless safe" path check.
type propCtx struct {
	errv  ssa.Value            // value whose non-nil-ness must be propagated (may be nil)
	holds func(c cmpNorm) bool // a comparison known to hold that makes the path safe
	reach map[*ssa.BasicBlock]bool
	at    ssa.Instruction
}

func (pc *propCtx) safe(b *ssa.BasicBlock) bool {
	for _, f := range facts(b) {
		if c, ok := normFact(f); ok && pc.holds(c) {
			return true
		}
	}
	return false
}

func (pc *propCtx) edgeSafe(pred, succ *ssa.BasicBlock) bool {
	if len(pred.Instrs) == 0 {
		return false
	}
	iff, ok := pred.Instrs[len(pred.Instrs)-1].(*ssa.If)
	if !ok || pred.Succs[0] == pred.Succs[1] {
		return false
	}
	c, ok := normFact(EdgeFact{Cond: iff.Cond, Taken: pred.Succs[0] == succ})
	return ok && pc.holds(c)
}

// unsafeReach: blocks reachable from just after `at` along edges that do not establish safety. The
// walk is correlated on the nil-ness of error values: after an edge on which a value is known
// non-nil (or nil), a phi that receives that value on the path taken is known too, and a later
// `phi != nil` test is followed only in the feasible direction. (The shape of an expanded checking
// helper: `var r error; if bad { r = e } ; if r != nil { return r }` — the failing path cannot fall
// through the second test.)
func (pc *propCtx) unsafeReach(at ssa.Instruction) map[*ssa.BasicBlock]bool {
	seen := map[*ssa.BasicBlock]bool{}
	type st struct {
		b, from *ssa.BasicBlock
		sig     string
	}
	done := map[st]bool{}
	edgeKnow := func(from, to *ssa.BasicBlock, env map[ssa.Value]int) map[ssa.Value]int {
		ne := env
		set := func(v ssa.Value, k int) {
			if ne[v] == k {
				return
			}
			c := make(map[ssa.Value]int, len(ne)+1)
			for kk, x := range ne {
				c[kk] = x
			}
			c[v] = k
			ne = c
		}
		for _, f := range edgeFactOf(from, to) {
			if c, ok := normFact(f); ok && (c.Op == token.EQL || c.Op == token.NEQ) {
				x, y := c.X, c.Y
				if isNilConst(x) {
					x, y = y, x
				}
				if isNilConst(y) && isErrorType(x.Type()) {
					if c.Op == token.NEQ {
						set(x, 2)
					} else {
						set(x, 1)
					}
				}
			}
		}
		for _, in := range to.Instrs {
			phi, ok := in.(*ssa.Phi)
			if !ok {
				break
			}
			if !isErrorType(phi.Type()) {
				continue
			}
			for i, p := range to.Preds {
				if p != from {
					continue
				}
				e := phi.Edges[i]
				switch {
				case pc.errv != nil && (e == pc.errv || ne[e] == 3):
					set(phi, 3) // carries the error under scrutiny on this path
				case isNilConst(e):
					set(phi, 1)
				case definitelyNonNilErr(e, nil):
					set(phi, 2)
				case ne[e] != 0:
					set(phi, ne[e])
				default:
					set(phi, 0)
				}
			}
		}
		return ne
	}
	var walk func(b *ssa.BasicBlock, env map[ssa.Value]int, depth int)
	walk = func(b *ssa.BasicBlock, env map[ssa.Value]int, depth int) {
		if depth > 300 {
			return
		}
		for _, s := range b.Succs {
			if pc.edgeSafe(b, s) {
				continue
			}
			// infeasible by what is known about the tested value on this path
			if iff, ok := b.Instrs[len(b.Instrs)-1].(*ssa.If); ok && len(b.Succs) == 2 && b.Succs[0] != b.Succs[1] {
				if c, ok := normFact(EdgeFact{Cond: iff.Cond, Taken: b.Succs[0] == s}); ok && (c.Op == token.EQL || c.Op == token.NEQ) {
					x, y := c.X, c.Y
					if isNilConst(x) {
						x, y = y, x
					}
					if isNilConst(y) {
						if k := env[x]; (k == 2 && c.Op == token.EQL) || (k == 1 && c.Op == token.NEQ) {
							continue
						}
						// the value tested is the error itself (merged through phis): its nil edge is the safe one
						if env[x] == 3 && c.Op == token.EQL && pc.holds != nil && pc.holds(cmpNorm{X: pc.errv, Op: token.EQL, Y: y}) {
							continue
						}
					}
				}
			}
			ne := edgeKnow(b, s, env)
			sig := ""
			if len(ne) > 0 {
				var ks []string
				for kk, x := range ne {
					if x != 0 {
						ks = append(ks, fmt.Sprintf("%s=%d", kk.Name(), x))
					}
				}
				sort.Strings(ks)
				sig = strings.Join(ks, ",")
			}
			key := st{s, b, sig}
			if done[key] {
				continue
			}
			done[key] = true
			seen[s] = true
			walk(s, ne, depth+1)
		}
	}
	walk(at.Block(), map[ssa.Value]int{}, 0)
	return seen
}

// mustErrorUnless decides: on every path from `at` to a Return, either the path crosses an edge /
// lies under a dominating fact that makes it safe, or the function returns a definitely non-nil
// error (or errv itself).
func mustErrorUnless(fn *ssa.Function, at ssa.Instruction, pc *propCtx) (bool, string) {
	idx := errorIndex(fn.Signature)
	if idx < 0 {
		return false, "enclosing function has no error result"
	}
	pc.at = at
	if pc.safe(at.Block()) {
		return true, ""
	}
	pc.reach = pc.unsafeReach(at)
	selfLoop := pc.reach[at.Block()]
	pc.reach[at.Block()] = true
	for _, b := range fn.Blocks {
		if !pc.reach[b] {
			continue
		}
		ret, ok := b.Instrs[len(b.Instrs)-1].(*ssa.Return)
		if !ok {
			continue
		}
		if b == at.Block() && !selfLoop && instrIndex(ret) < instrIndex(at) {
			continue
		}
		if pc.safe(b) {
			continue
		}
		rv := ret.Results[idx]
		if ok, why := pc.retOK(rv, b, map[ssa.Value]bool{}); !ok {
			return false, fmt.Sprintf("the return at line %d may yield a nil error (%s)", fn.Prog.Fset.Position(ret.Pos()).Line, why)
		}
	}
	return true, ""
}

func nilCmp(c cmpNorm, v ssa.Value, op token.Token) bool {
	return c.Op == op && ((c.X == v && isNilConst(c.Y)) || (c.Y == v && isNilConst(c.X)))
}

// errPropagated decides: "whenever `errv` (produced at `at`) is non-nil, the function returns a
// non-nil error" on every path from `at` to a Return.
//
// Accepted idioms: `return errv`; `if errv != nil { return <non-nil> }`; errv merged through phis
// into the returned value; `if err != nil { err = fmt.Errorf(...) }; return err`; errv stored into
// a named-result/spilled alloc that is returned.
func errPropagated(fn *ssa.Function, at ssa.Instruction, errv ssa.Value) (bool, string) {
	pc := &propCtx{errv: errv, holds: func(c cmpNorm) bool { return nilCmp(c, errv, token.EQL) }}
	return mustErrorUnless(fn, at, pc)
}

// retOK: value rv flowing into a return (or phi edge) from block `from` is acceptable.
func (pc *propCtx) retOK(rv ssa.Value, from *ssa.BasicBlock, seen map[ssa.Value]bool) (bool, string) {
	rv = resolveSpill(rv)
	if pc.errv != nil && rv == pc.errv {
		return true, ""
	}
	if definitelyNonNilErr(rv, nil) {
		return true, ""
	}
	if from != nil && (pc.safe(from) || knownNonNilAt(rv, from)) {
		return true, ""
	}
	if seen[rv] {
		return true, ""
	}
	seen[rv] = true
	switch x := rv.(type) {
	case *ssa.Phi:
		for i, e := range x.Edges {
			pred := x.Block().Preds[i]
			if !pc.reach[pred] {
				continue // this edge cannot follow `at`
			}
			if pc.safe(pred) || pc.edgeSafe(pred, x.Block()) {
				continue
			}
			if ok, why := pc.retOK(e, pred, seen); !ok {
				return false, why
			}
		}
		return true, ""
	case *ssa.UnOp:
		if x.Op == token.MUL {
			if a, ok := x.X.(*ssa.Alloc); ok {
				// spilled variable (named result / captured by defer): every store into it that may
				// follow `at` must be acceptable, and one must exist
				stored := false
				for _, ref := range *a.Referrers() {
					st, ok := ref.(*ssa.Store)
					if !ok || st.Addr != a {
						continue
					}
					if !pc.reach[st.Block()] {
						continue
					}
					if st.Block() == pc.at.Block() && instrIndex(st) < instrIndex(pc.at) {
						continue
					}
					if okk, why := pc.retOK(st.Val, st.Block(), seen); !okk {
						return false, why
					}
					stored = true
				}
				if stored {
					return true, ""
				}
				return false, "the returned variable is never assigned an error on this path"
			}
		}
	}
	if c, ok := rv.(*ssa.Const); ok && c.Value == nil {
		return false, "returns nil"
	}
	return false, fmt.Sprintf("returned value %s is not derived from the failure", rv.Name())
}
