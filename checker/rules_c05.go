package main

import (
	"fmt"
	"go/token"
	"go/types"
	"sort"
	"strings"

	"golang.org/x/tools/go/ssa"
)

// resPkgs returns the generated binding packages (tars/protocol/res/*), sorted.
func (w *World) resPkgs() []*ssa.Package {
	var out []*ssa.Package
	for path, sp := range w.SSA {
		if strings.HasPrefix(path, modPath+"/tars/protocol/res/") {
			out = append(out, sp)
		}
	}
	sort.Slice(out, func(i, j int) bool { return out[i].Pkg.Path() < out[j].Pkg.Path() })
	return out
}

// decodeFuncs: all functions of the codec, tup and generated binding packages.
func (w *World) decodeFuncs() []*ssa.Function {
	var out []*ssa.Function
	for _, rel := range decodePkgs {
		if sp := w.Pkg(rel); sp != nil {
			out = append(out, w.Funcs(sp)...)
		}
	}
	for _, sp := range w.resPkgs() {
		out = append(out, w.Funcs(sp)...)
	}
	return out
}

// decodedIntSource: is v (after stripping conversions and +/-/* arithmetic with constants) a load of
// memory whose address is handed to a read primitive in the same function, or a parameter of a
// *codec.Reader method (a length supplied by a decoding caller)? Returns a description.
func decodedIntSource(fn *ssa.Function, v ssa.Value) (string, bool) {
	for i := 0; i < 16; i++ {
		switch x := v.(type) {
		case *ssa.Convert:
			v = x.X
			continue
		case *ssa.ChangeType:
			v = x.X
			continue
		case *ssa.BinOp:
			if _, ok := constInt(x.Y); ok {
				v = x.X
				continue
			}
			if _, ok := constInt(x.X); ok {
				v = x.Y
				continue
			}
			return "", false
		case *ssa.Phi:
			for _, e := range x.Edges {
				if s, ok := decodedIntSource(fn, e); ok {
					return s, true
				}
			}
			return "", false
		}
		break
	}
	switch x := v.(type) {
	case *ssa.Parameter:
		if fn.Signature.Recv() != nil && typeID(fn.Signature.Recv().Type()) == modPath+"/"+codecPkg+".Reader" {
			if b, ok := x.Type().Underlying().(*types.Basic); ok && b.Info()&types.IsInteger != 0 {
				return "length parameter " + x.Name() + " of a codec.Reader method", true
			}
		}
	case *ssa.UnOp:
		if x.Op != token.MUL {
			return "", false
		}
		addr := x.X
		found := ""
		eachInstr(fn, func(in ssa.Instruction) {
			c, ok := in.(*ssa.Call)
			if !ok || !isReadPrimitive(&c.Call) {
				return
			}
			for _, a := range c.Call.Args {
				if a == addr || sameValue(a, addr) {
					found = "integer decoded by " + calleeShort(&c.Call)
				}
			}
		})
		if found != "" {
			return found, true
		}
	}
	return "", false
}

// isInputSize: v denotes (a conversion of) the number of bytes of input: (*bytes.Reader).Len(),
// (*codec.Reader).Len(), len(x.ref) ...
func isInputSize(v ssa.Value) bool {
	v = strip(v, true)
	if c, ok := v.(*ssa.Call); ok {
		id := funcID(calleeObj(&c.Call))
		if id == "bytes.(Reader).Len" || id == modPath+"/"+codecPkg+".(Reader).Len" {
			return true
		}
		if builtinName(&c.Call) == "len" {
			if _, name, _, ok := loadedField(c.Call.Args[0]); ok && name == "ref" {
				return true
			}
		}
	}
	return false
}

// boundedByInput: in block b, dominating facts bound value n from above by the input size and
// from below by zero (or a positive constant).
func boundedByInput(b *ssa.BasicBlock, n ssa.Value) (upper, lower bool) {
	core := stripWiden(n)
	same := func(x ssa.Value) bool { return sameNum(x, n) || sameValue(stripWiden(x), core) }
	for _, f := range facts(b) {
		c, ok := normFact(f)
		if !ok {
			continue
		}
		if same(c.X) && isInputSize(c.Y) && (c.Op == token.LEQ || c.Op == token.LSS) {
			upper = true
		}
		if same(c.Y) && isInputSize(c.X) && (c.Op == token.GEQ || c.Op == token.GTR) {
			upper = true
		}
		if same(c.X) {
			if k, ok := constInt(c.Y); ok {
				if (c.Op == token.GEQ && k >= 0) || (c.Op == token.GTR && k >= -1) {
					lower = true
				}
				if (c.Op == token.LEQ || c.Op == token.LSS || c.Op == token.EQL) && k >= 0 && k <= 1<<20 {
					upper = true // bounded by a small constant
					if c.Op == token.EQL {
						lower = true
					}
				}
			}
		}
		if same(c.Y) {
			if k, ok := constInt(c.X); ok {
				if (c.Op == token.LEQ && k >= 0) || (c.Op == token.LSS && k >= -1) {
					lower = true
				}
			}
		}
	}
	if tr := typeRange(core.Type()); len(tr) == 1 && tr[0].lo >= 0 {
		lower = true // unsigned
	}
	return
}

// storeTargetName names what a freshly made slice is assigned to (field or local variable).
func storeTargetName(v ssa.Value) string {
	for _, ref := range *v.Referrers() {
		switch s := ref.(type) {
		case *ssa.Store:
			if s.Val != v {
				continue
			}
			if f, _, ok := fieldAddrOf(s.Addr); ok {
				return f.Name()
			}
			if a, ok := s.Addr.(*ssa.Alloc); ok && a.Comment != "" {
				return a.Comment
			}
			if ia, ok := s.Addr.(*ssa.IndexAddr); ok {
				if ld, ok := ia.X.(*ssa.UnOp); ok {
					if f, _, ok := fieldAddrOf(ld.X); ok {
						return f.Name() + "[]"
					}
					if a, ok := ld.X.(*ssa.Alloc); ok {
						return a.Comment + "[]"
					}
				}
				return "elem"
			}
			if p, ok := s.Addr.(*ssa.Parameter); ok {
				return "*" + p.Name()
			}
			if u, ok := s.Addr.(*ssa.UnOp); ok {
				if a, ok := u.X.(*ssa.Alloc); ok {
					return "*" + a.Comment
				}
			}
		}
	}
	return "value"
}

func init() {
	register(&Rule{ID: "C05.R1", Props: []string{"C05"}, Min: 28, Needs: NeedMain,
		Doc: "no slice/map is allocated with a length taken from the input unless dominating guards bound it below by 0 and above by the input size (else: makeslice panic for negative, allocation far beyond the input for huge lengths)",
		Run: func(r *R) {
			for _, fn := range r.w.decodeFuncs() {
				eachInstr(fn, func(in ssa.Instruction) {
					var n ssa.Value
					var what string
					switch x := in.(type) {
					case *ssa.MakeSlice:
						n = x.Len
						what = "make(" + types.TypeString(x.Type(), func(p *types.Package) string { return p.Name() }) + ")"
						if src, ok := decodedIntSource(fn, x.Cap); ok {
							_ = src
							n = x.Cap
						}
					case *ssa.MakeMap:
						if x.Reserve == nil {
							return
						}
						n = x.Reserve
						what = "make(map, n)"
					default:
						return
					}
					src, ok := decodedIntSource(fn, n)
					if !ok {
						return
					}
					v := in.(ssa.Value)
					cons := what + " -> " + storeTargetName(v)
					up, lo := boundedByInput(in.Block(), n)
					if up && lo {
						r.OK(fname(fn), cons, in.Pos(), "length (%s) is guarded: 0 <= n <= bytes of input", src)
					} else {
						miss := []string{}
						if !lo {
							miss = append(miss, "no lower bound (negative length => makeslice panic => CheckPanic => os.Exit)")
						}
						if !up {
							miss = append(miss, "no upper bound by the input size (length 2^31-1 allocates gigabytes from a tiny packet)")
						}
						r.Bad(fname(fn), cons, in.Pos(), "allocation sized by %s: %s", src, strings.Join(miss, "; "))
					}
				})
			}
		}})

	register(&Rule{ID: "C05.R2", Props: []string{"C05"}, Min: 1, Needs: NeedMain,
		Doc: "every call-graph cycle among the decoding functions (codec, tup, generated bindings) passes through a function that compares a depth counter with a constant and fails beyond it, so input-driven recursion is bounded",
		Run: func(r *R) {
			var fns []*ssa.Function
			inSet := map[*ssa.Function]bool{}
			for _, f := range r.w.decodeFuncs() {
				if touchesReader(f) { // encoders recurse over Go values, not over the input
					fns = append(fns, f)
					inSet[f] = true
				}
			}
			succ := func(f *ssa.Function) []*ssa.Function {
				var out []*ssa.Function
				eachInstr(f, func(in ssa.Instruction) {
					if c := callCommon(in); c != nil {
						if sc := c.StaticCallee(); sc != nil && inSet[sc] {
							out = append(out, sc)
						}
					}
				})
				return out
			}
			for _, comp := range sccs(fns, succ) {
				self := false
				if len(comp) == 1 {
					for _, s := range succ(comp[0]) {
						if s == comp[0] {
							self = true
						}
					}
					if !self {
						continue
					}
				}
				in := map[*ssa.Function]bool{}
				var names []string
				for _, f := range comp {
					in[f] = true
					names = append(names, fname(f))
				}
				sort.Strings(names)
				// guard functions of this component
				guards := map[*ssa.Function]string{}
				for _, f := range comp {
					if why, ok := depthGuard(f, in); ok {
						guards[f] = why
					}
				}
				// is there still a cycle after removing the guard functions?
				var rest []*ssa.Function
				for _, f := range comp {
					if _, g := guards[f]; !g {
						rest = append(rest, f)
					}
				}
				cyc := false
				rsucc := func(f *ssa.Function) []*ssa.Function {
					var out []*ssa.Function
					for _, s := range succ(f) {
						if in[s] {
							if _, g := guards[s]; !g {
								out = append(out, s)
							}
						}
					}
					return out
				}
				for _, c2 := range sccs(rest, rsucc) {
					if len(c2) > 1 {
						cyc = true
					} else {
						for _, s := range rsucc(c2[0]) {
							if s == c2[0] {
								cyc = true
							}
						}
					}
				}
				key := "cycle{" + strings.Join(names, ",") + "}"
				if !cyc {
					var gs []string
					for f, why := range guards {
						gs = append(gs, fname(f)+": "+why)
					}
					sort.Strings(gs)
					r.OK(fname(comp[len(comp)-1]), key, comp[0].Pos(), "every cycle passes a depth check: %s", strings.Join(gs, "; "))
				} else {
					r.Bad(fname(comp[len(comp)-1]), key, comp[0].Pos(),
						"recursion depth is chosen by the input (one level per nested head byte) and nothing bounds it: a maximum-size packet of nested struct heads overflows the goroutine stack, which is fatal and unrecoverable")
				}
			}
		}})

	register(&Rule{ID: "C05.R3", Props: []string{"C05"}, Min: 3, Needs: NeedMain,
		Doc: "a network buffer parameter is sliced with a constant bound only under a dominating len>=k guard, or when every value flowing into that parameter (through all call sites, closures and goroutine starts) is a slice made with the length ParsePackage returned on its PackageFull branch",
		Run: func(r *R) {
			tr := &paramTracer{w: r.w, memo: map[string]string{}}
			for _, rel := range []string{"tars", "tars/protocol", "tars/protocol/push", "tars/transport"} {
				sp := r.w.Pkg(rel)
				if sp == nil {
					r.AnchorMissing("package " + rel)
					continue
				}
				for _, fn := range r.w.Funcs(sp) {
					eachInstr(fn, func(in ssa.Instruction) {
						sl, ok := in.(*ssa.Slice)
						if !ok {
							return
						}
						p, ok := sl.X.(*ssa.Parameter)
						if !ok || !isByteSlice(p.Type()) {
							return
						}
						var k int64
						for _, b := range []ssa.Value{sl.Low, sl.High} {
							if b != nil {
								if c, ok := constInt(b); ok && c > k {
									k = c
								}
							}
						}
						if k <= 0 {
							return
						}
						cons := fmt.Sprintf("%s[..%d..]", p.Name(), k)
						// dominating guard len(p) >= k
						for _, f := range facts(in.Block()) {
							if c, ok := normFact(f); ok {
								if isLenOf(c.X, p) {
									if kk, ok := constInt(c.Y); ok && ((c.Op == token.GEQ && kk >= k) || (c.Op == token.GTR && kk >= k-1)) {
										r.OK(fname(fn), cons, in.Pos(), "dominated by len(%s) >= %d", p.Name(), k)
										return
									}
								}
							}
						}
						idx := paramIndex(fn, p)
						if why := tr.traceParam(fn, idx, 0); why == "" {
							r.OK(fname(fn), cons, in.Pos(), "every caller passes a slice framed by ParsePackage (PackageFull); sources: %s", strings.Join(tr.srcs(fn, idx), ", "))
						} else {
							r.Bad(fname(fn), cons, in.Pos(), "the buffer can be shorter than %d bytes: %s (index out of range => panic => CheckPanic => os.Exit)", k, why)
						}
					})
				}
			}
		}})

	register(&Rule{ID: "C05.R5", Props: []string{"C05"}, Min: 30, Needs: NeedMain,
		Doc: "every loop in the decoding code either iterates over an in-memory collection / a counter with a constant bound, or consumes input on every iteration through a read that fails (and leaves the loop) at end of input; so the number of iterations is bounded by the input length",
		Run: func(r *R) {
			for _, fn := range r.w.decodeFuncs() {
				if !touchesReader(fn) {
					continue
				}
				for li, l := range loopsOf(fn) {
					cons := fmt.Sprintf("loop#%d", li+1)
					if ranged, what := isRangeLoop(l); ranged {
						r.OKLookup(fname(fn), cons, l.head.Instrs[0].Pos(), "iterates over %s", what)
						continue
					}
					var progressCalls []string
					progress := func(b *ssa.BasicBlock) bool {
						for _, in := range b.Instrs {
							c, ok := in.(*ssa.Call)
							if !ok {
								continue
							}
							if consumesOrFails(&c.Call) {
								ev, hasErr, found := errResult(c)
								if !hasErr || !found {
									continue
								}
								if failLeavesLoop(l, ev) {
									progressCalls = append(progressCalls, calleeShort(&c.Call))
									return true
								}
								if ok2, _ := errPropagated(fn, c, ev); ok2 {
									progressCalls = append(progressCalls, calleeShort(&c.Call))
									return true
								}
							}
						}
						return false
					}
					pos := l.head.Instrs[0].Pos()
					if l.cycleAvoiding(progress) {
						r.Bad(fname(fn), cons, pos, "an iteration can complete without a read that fails at end of input: the iteration count is then controlled by a decoded length alone (2^31 iterations from a 30-byte packet)")
					} else {
						sort.Strings(progressCalls)
						r.OK(fname(fn), cons, pos, "every iteration passes a required read whose error leaves the loop (%s)", strings.Join(uniq(progressCalls), ","))
					}
				}
			}
		}})
}

func uniq(s []string) []string {
	var out []string
	for i, x := range s {
		if i == 0 || x != s[i-1] {
			out = append(out, x)
		}
	}
	return out
}

func isByteSlice(t types.Type) bool {
	s, ok := t.Underlying().(*types.Slice)
	if !ok {
		return false
	}
	b, ok := s.Elem().Underlying().(*types.Basic)
	return ok && b.Kind() == types.Uint8
}

func paramIndex(fn *ssa.Function, p *ssa.Parameter) int {
	for i, q := range fn.Params {
		if q == p {
			return i
		}
	}
	return -1
}

// touchesReader: the function uses a *codec.Reader or *bytes.Reader value.
func touchesReader(fn *ssa.Function) bool {
	found := false
	isR := func(t types.Type) bool {
		id := typeID(t)
		return id == modPath+"/"+codecPkg+".Reader" || id == "bytes.Reader"
	}
	for _, p := range fn.Params {
		if isR(p.Type()) {
			found = true
		}
	}
	eachInstr(fn, func(in ssa.Instruction) {
		if c := callCommon(in); c != nil {
			if rv := callRecv(c); rv != nil && isR(rv.Type()) {
				found = true
			}
		}
	})
	return found
}

// consumesOrFails: a call that consumes at least one byte of input or returns an error:
// readHead, ReadByte, bReadU*, Read*/SkipTo* with require == true, ReadBlock(require true), ReadFrom.
func consumesOrFails(c *ssa.CallCommon) bool {
	o := calleeObj(c)
	if o == nil || !isReadPrimitive(c) {
		return false
	}
	name := o.Name()
	if name == "readHead" || name == "ReadByte" || strings.HasPrefix(name, "bReadU") {
		return true
	}
	sig := o.Type().(*types.Signature)
	// methods with a trailing `require bool` parameter: need the constant true
	args := callArgs(c)
	np := sig.Params().Len()
	if np > 0 {
		last := sig.Params().At(np - 1)
		if b, ok := last.Type().Underlying().(*types.Basic); ok && b.Kind() == types.Bool && len(args) == np {
			if cb, ok := constBool(args[np-1]); ok {
				return cb
			}
			return false
		}
	}
	return false
}

// isRangeLoop: the loop is a `for range` over a slice/map/string/array already in memory, or a
// counted loop whose bound is a constant or the len() of an in-memory value.
func isRangeLoop(l *natLoop) (bool, string) {
	// range over map/string: header contains Next on a Range iterator
	for b := range l.body {
		for _, in := range b.Instrs {
			if n, ok := in.(*ssa.Next); ok {
				_ = n
				return true, "a map/string iterator (range)"
			}
		}
	}
	// counted: header's If compares a phi with len(x) or a constant
	h := l.head
	iff, ok := h.Instrs[len(h.Instrs)-1].(*ssa.If)
	if !ok {
		return false, ""
	}
	c, ok := iff.Cond.(*ssa.BinOp)
	if !ok {
		return false, ""
	}
	isInd := func(v ssa.Value) bool {
		if _, ok := v.(*ssa.Phi); ok {
			return true
		}
		if bo, ok := v.(*ssa.BinOp); ok {
			if _, ok := bo.X.(*ssa.Phi); ok {
				if _, ok := constInt(bo.Y); ok {
					return true
				}
			}
		}
		return false
	}
	bound := c.Y
	if !isInd(c.X) {
		bound = c.X
		if !isInd(c.Y) {
			return false, ""
		}
	}
	if _, ok := constInt(bound); ok {
		return true, "a counter with a constant bound"
	}
	if _, isPhi := bound.(*ssa.Phi); isPhi {
		allConst := true
		for _, leaf := range phiLeaves(bound) {
			if _, ok := constInt(leaf); !ok {
				allConst = false
			}
		}
		if allConst {
			return true, "a counter whose bound is one of a few constants"
		}
	}
	if call, ok := bound.(*ssa.Call); ok && builtinName(&call.Call) == "len" {
		return true, "the elements of an in-memory value (len)"
	}
	return false, ""
}

// ---- cross-procedural parameter tracing (C05.R3) ------------------------------------------------

type paramTracer struct {
	w     *World
	memo  map[string]string
	found map[string][]string
	sites map[*ssa.Function][]callSite
}

type callSite struct {
	in   ssa.Instruction
	c    *ssa.CallCommon
	from *ssa.Function
}

func (t *paramTracer) srcs(fn *ssa.Function, idx int) []string {
	s := t.found[fmt.Sprintf("%s#%d", fn, idx)]
	sort.Strings(s)
	return uniq(s)
}

// callSitesOf finds all call sites (call/go/defer) in repo packages that may call fn:
// static calls, and interface calls whose method name matches and whose interface fn's receiver implements.
func (t *paramTracer) callSitesOf(fn *ssa.Function) []callSite {
	if t.sites == nil {
		t.sites = map[*ssa.Function][]callSite{}
	}
	if s, ok := t.sites[fn]; ok {
		return s
	}
	var out []callSite
	var recvT types.Type
	if r := fn.Signature.Recv(); r != nil {
		recvT = r.Type()
	}
	for _, sp := range t.w.SSA {
		for _, g := range t.w.Funcs(sp) {
			eachInstr(g, func(in ssa.Instruction) {
				c := callCommon(in)
				if c == nil {
					return
				}
				if c.IsInvoke() {
					if recvT != nil && c.Method.Name() == fn.Name() {
						if it, ok := c.Value.Type().Underlying().(*types.Interface); ok && types.Implements(recvT, it) {
							out = append(out, callSite{in, c, g})
						}
					}
					return
				}
				if c.StaticCallee() == fn {
					out = append(out, callSite{in, c, g})
				}
			})
		}
	}
	t.sites[fn] = out
	return out
}

// traceParam returns "" when every value reaching parameter idx of fn is framed, else a reason.
func (t *paramTracer) traceParam(fn *ssa.Function, idx int, depth int) string {
	key := fmt.Sprintf("%s#%d", fn, idx)
	if v, ok := t.memo[key]; ok {
		return v
	}
	t.memo[key] = "" // cycles: assume ok
	if depth > 12 {
		t.memo[key] = "call chain too deep to trace (undecided)"
		return t.memo[key]
	}
	if par := fn.Parent(); par != nil {
		// a closure that is called / started directly where it is made: go func(p []byte){...}(pkg)
		n := 0
		why := ""
		eachInstr(par, func(in ssa.Instruction) {
			c := callCommon(in)
			if c == nil || why != "" {
				return
			}
			if mc, ok := c.Value.(*ssa.MakeClosure); ok && mc.Fn == ssa.Value(fn) && idx < len(c.Args) {
				n++
				why = t.traceValue(par, c.Args[idx], depth+1, key)
			}
		})
		if n == 0 {
			why = fmt.Sprintf("parameter of closure %s cannot be traced (undecided)", fname(fn))
		}
		t.memo[key] = why
		return why
	}
	sites := t.callSitesOf(fn)
	if len(sites) == 0 {
		// exported entry point with no caller in the program: the caller is outside; not framed
		t.memo[key] = fmt.Sprintf("%s has no caller in the program that frames its argument", fname(fn))
		return t.memo[key]
	}
	for _, s := range sites {
		args := s.c.Args
		ai := idx
		if s.c.IsInvoke() && fn.Signature.Recv() != nil {
			ai = idx - 1 // invoke-mode Args exclude the receiver
		}
		if ai < 0 || ai >= len(args) {
			t.memo[key] = "argument position mismatch (undecided)"
			return t.memo[key]
		}
		if why := t.traceValue(s.from, args[ai], depth+1, key); why != "" {
			t.memo[key] = fmt.Sprintf("%s <- %s", fname(s.from), why)
			return t.memo[key]
		}
	}
	return ""
}

func (t *paramTracer) note(root, s string) {
	if t.found == nil {
		t.found = map[string][]string{}
	}
	t.found[root] = append(t.found[root], s)
}

func (t *paramTracer) traceValue(fn *ssa.Function, v ssa.Value, depth int, root string) string {
	switch x := v.(type) {
	case *ssa.Parameter:
		why := t.traceParam(fn, paramIndex(fn, x), depth)
		if why == "" {
			for _, s := range t.found[fmt.Sprintf("%s#%d", fn, paramIndex(fn, x))] {
				t.note(root, s)
			}
		}
		return why
	case *ssa.FreeVar:
		// closure: find the MakeClosure in the parent
		parent := fn.Parent()
		fi := -1
		for i, fv := range fn.FreeVars {
			if fv == x {
				fi = i
			}
		}
		if parent == nil || fi < 0 {
			return "free variable cannot be traced (undecided)"
		}
		res := "closure is never created (undecided)"
		eachInstr(parent, func(in ssa.Instruction) {
			mc, ok := in.(*ssa.MakeClosure)
			if !ok || mc.Fn != fn {
				return
			}
			b := mc.Bindings[fi]
			// captured by reference: binding is the address of the variable (Alloc / Parameter spill)
			if a, ok := b.(*ssa.Alloc); ok {
				res = t.traceAlloc(parent, a, depth, root)
			} else {
				res = t.traceValue(parent, b, depth, root)
			}
		})
		return res
	case *ssa.UnOp:
		if x.Op == token.MUL {
			switch a := x.X.(type) {
			case *ssa.Alloc:
				return t.traceAlloc(fn, a, depth, root)
			case *ssa.FreeVar:
				return t.traceValue(fn, a, depth, root)
			}
		}
	case *ssa.Phi:
		for _, e := range x.Edges {
			if why := t.traceValue(fn, e, depth, root); why != "" {
				return why
			}
		}
		return ""
	case *ssa.MakeSlice:
		if ok, desc := framedLength(x.Len, x.Block()); ok {
			t.note(root, fname(fn)+": make([]byte, "+desc+")")
			return ""
		}
		return fmt.Sprintf("slice made in %s with a length that is not the result of ParsePackage on the PackageFull branch", fname(fn))
	case *ssa.Slice:
		if x.High != nil {
			if ok, desc := framedLength(x.High, x.Block()); ok {
				t.note(root, fname(fn)+": buf[:"+desc+"]")
				return ""
			}
		}
		return fmt.Sprintf("sub-slice in %s whose bound is not the result of ParsePackage (PackageFull)", fname(fn))
	case *ssa.Call:
		// append(<anything>, buf[:L]...) is at least L bytes long
		if builtinName(&x.Call) == "append" && len(x.Call.Args) == 2 {
			if sl, ok := x.Call.Args[1].(*ssa.Slice); ok && sl.High != nil {
				if ok, desc := framedLength(sl.High, x.Block()); ok {
					t.note(root, fname(fn)+": append(.., buf[:"+desc+"]...)")
					return ""
				}
			}
		}
	}
	return fmt.Sprintf("value %s in %s has an unrecognised origin (undecided)", v.Name(), fname(fn))
}

func (t *paramTracer) traceAlloc(fn *ssa.Function, a *ssa.Alloc, depth int, root string) string {
	n := 0
	for _, ref := range *a.Referrers() {
		if st, ok := ref.(*ssa.Store); ok && st.Addr == a {
			n++
			if why := t.traceValue(fn, st.Val, depth, root); why != "" {
				return why
			}
		}
	}
	if n == 0 {
		return "variable is never assigned (undecided)"
	}
	return ""
}

// framedLength: value n is the first result of a ParsePackage call and the block is dominated by
// the fact "second result == PackageFull".
func framedLength(n ssa.Value, b *ssa.BasicBlock) (bool, string) {
	n = stripWiden(n)
	ex, ok := n.(*ssa.Extract)
	if !ok || ex.Index != 0 {
		return false, ""
	}
	call, ok := ex.Tuple.(*ssa.Call)
	if !ok {
		return false, ""
	}
	o := calleeObj(&call.Call)
	if o == nil || o.Name() != "ParsePackage" {
		return false, ""
	}
	full, ok := packageFullValue(call.Parent().Prog)
	if !ok {
		return false, ""
	}
	for _, f := range facts(b) {
		c, ok := normFact(f)
		if !ok || c.Op != token.EQL {
			continue
		}
		if e2, ok := c.X.(*ssa.Extract); ok && e2.Tuple == call && e2.Index == 1 {
			if k, ok := constInt(c.Y); ok && k == full {
				return true, "pkgLen of ParsePackage==PackageFull"
			}
		}
	}
	// the other statuses were dispatched one by one before this block
	for _, ref := range *call.Referrers() {
		if e2, ok := ref.(*ssa.Extract); ok && e2.Index == 1 {
			if s, ok := valueSets(b.Parent(), e2, nil)[b]; ok && s.equal(rng(full, full)) {
				return true, "pkgLen of ParsePackage where only PackageFull is left"
			}
		}
	}
	return false, ""
}

func packageFullValue(prog *ssa.Program) (int64, bool) {
	p := prog.ImportedPackage(modPath + "/tars/transport")
	if p == nil {
		return 0, false
	}
	c, ok := p.Members["PackageFull"].(*ssa.NamedConst)
	if !ok {
		return 0, false
	}
	return constInt(c.Value)
}

// depthGuard: f compares a counter field of its receiver with a constant, returns an error on the
// far side, and increments the counter before every call into the component.
func depthGuard(f *ssa.Function, comp map[*ssa.Function]bool) (string, bool) {
	if len(f.Params) == 0 || f.Signature.Recv() == nil {
		return "", false
	}
	recv := f.Params[0]
	var guard *ssa.If
	var field string
	var limit int64
	for _, b := range f.Blocks {
		iff, ok := b.Instrs[len(b.Instrs)-1].(*ssa.If)
		if !ok {
			continue
		}
		c, ok := normFact(EdgeFact{Cond: iff.Cond, Taken: true})
		if !ok {
			continue
		}
		x, y, op := c.X, c.Y, c.Op
		if _, isC := constInt(x); isC {
			x, y, op = y, x, swapOp(op)
		}
		k, isC := constInt(y)
		if !isC {
			continue
		}
		_, name, base, ok := loadedField(x)
		if !ok || strip(base, false) != recv {
			continue
		}
		var errSucc *ssa.BasicBlock
		switch op {
		case token.GEQ, token.GTR:
			errSucc = b.Succs[0]
		case token.LSS, token.LEQ:
			errSucc = b.Succs[1]
		default:
			continue
		}
		// error side: returns a definitely non-nil error and calls nothing in the component
		ret, ok := errSucc.Instrs[len(errSucc.Instrs)-1].(*ssa.Return)
		if !ok {
			continue
		}
		idx := errorIndex(f.Signature)
		if idx < 0 || !definitelyNonNilErr(ret.Results[idx], nil) {
			continue
		}
		guard, field, limit = iff, name, k
	}
	if guard == nil {
		return "", false
	}
	// increments of the counter
	var incs []ssa.Instruction
	eachInstr(f, func(in ssa.Instruction) {
		st, ok := in.(*ssa.Store)
		if !ok {
			return
		}
		fv, base, ok := fieldAddrOf(st.Addr)
		if !ok || strip(base, false) != recv || fv.Name() != field {
			return
		}
		if bo, ok := st.Val.(*ssa.BinOp); ok && bo.Op == token.ADD {
			if k, ok := constInt(bo.Y); ok && k > 0 {
				incs = append(incs, in)
			}
		}
	})
	if len(incs) == 0 {
		return "", false
	}
	ok := true
	eachInstr(f, func(in ssa.Instruction) {
		c := callCommon(in)
		if c == nil {
			return
		}
		if _, isDefer := in.(*ssa.Defer); isDefer {
			return
		}
		if sc := c.StaticCallee(); sc != nil && comp[sc] {
			dom := false
			for _, inc := range incs {
				if instrDominates(inc, in) {
					dom = true
				}
			}
			if !dom || !instrDominates(guard, in) {
				ok = false
			}
		}
	})
	if !ok {
		return "", false
	}
	return fmt.Sprintf("counter %s compared with %d before recursing, incremented on the way down", field, limit), true
}

// failLeavesLoop: some If inside the loop tests ev against nil and its non-nil successor cannot get
// back to the loop header (it returns or breaks out).
func failLeavesLoop(l *natLoop, ev ssa.Value) bool {
	for b := range l.body {
		iff, ok := b.Instrs[len(b.Instrs)-1].(*ssa.If)
		if !ok || b.Succs[0] == b.Succs[1] {
			continue
		}
		for si := 0; si < 2; si++ {
			c, ok := normFact(EdgeFact{Cond: iff.Cond, Taken: si == 0})
			if !ok || !nilCmp(c, ev, token.NEQ) {
				continue
			}
			s := b.Succs[si]
			if !l.body[s] {
				return true
			}
			// can s reach the header inside the body?
			seen := map[*ssa.BasicBlock]bool{s: true}
			stack := []*ssa.BasicBlock{s}
			back := s == l.head
			for len(stack) > 0 && !back {
				x := stack[len(stack)-1]
				stack = stack[:len(stack)-1]
				for _, y := range x.Succs {
					if y == l.head {
						back = true
					}
					if l.body[y] && !seen[y] {
						seen[y] = true
						stack = append(stack, y)
					}
				}
			}
			if !back {
				return true
			}
		}
	}
	return false
}

func init() {
	register(&Rule{ID: "C05.R4", Props: []string{"C05"}, Thorough: true, Min: 20, Needs: NeedMain,
		Doc: "no unguarded index or slice expression in the decode cone (codec, tup, generated readers/dispatchers/proxies, the framing function): every index/slice operation is dominated by a length guard, bounded by the loop that fills a slice made with that very bound, a strings.Split first element, or a listed justified exception",
		Run: func(r *R) {
			fns := r.w.decodeFuncs()
			if sp := r.w.Pkg("tars/protocol"); sp != nil {
				fns = append(fns, r.w.Funcs(sp)...)
			}
			for _, fn := range fns {
				if !touchesReader(fn) && fn.Pkg != r.w.Pkg("tars/protocol") {
					continue
				}
				for _, s := range indexSites(fn) {
					if s.safe {
						if strings.Contains(s.why, "fixed array") {
							continue
						}
						r.OK(fname(fn), s.expr, s.in.Pos(), "%s", s.why)
						continue
					}
					if ok, why := madeWithLoopBound(s.in); ok {
						r.OK(fname(fn), s.expr, s.in.Pos(), "%s", why)
						continue
					}
					// a network buffer parameter framed by ParsePackage on every call path (C05.R3's argument)
					if sl, ok := s.in.(*ssa.Slice); ok {
						if p, isP := sl.X.(*ssa.Parameter); isP && isByteSlice(p.Type()) {
							tr := &paramTracer{w: r.w, memo: map[string]string{}}
							if why := tr.traceParam(fn, paramIndex(fn, p), 0); why == "" {
								r.OK(fname(fn), s.expr, s.in.Pos(), "every caller passes a slice framed by ParsePackage (PackageFull, length >= 4 by C07.R1)")
								continue
							}
						}
					}
					if why, ok := decodeIndexExceptions[fname(fn)+"|"+s.expr]; ok {
						r.OKLookup(fname(fn), s.expr, s.in.Pos(), "justified exception: %s", why)
						continue
					}
					r.Bad(fname(fn), s.expr, s.in.Pos(), "%s: an input can make this index/slice expression panic", s.why)
				}
			}
		}})
}

var decodeIndexExceptions = map[string]string{
	"(*tars/protocol/codec.Reader).Next|b.ref[(len(b.ref)-Len(b.buf)):(len(b.ref)-Len(b.buf))]": "beg = len(ref)-Len() before and end = len(ref)-Len() after a forward Seek: (*bytes.Reader).Len() is clamped to [0, len(ref)] and does not grow on a forward seek, so 0 <= beg <= end <= len(ref)",
}

// madeWithLoopBound: x[i] where x was assigned make(T, n) and the enclosing loop runs i < e with
// e and n the same decoded value (the generated `x = make(T, length); for i, e := 0, length; i < e`).
func madeWithLoopBound(in ssa.Instruction) (bool, string) {
	ia, ok := in.(*ssa.IndexAddr)
	if !ok {
		return false, ""
	}
	// bound of the index
	var bound ssa.Value
	for _, f := range facts(in.Block()) {
		if c, ok := normFact(f); ok && c.X == ia.Index && c.Op == token.LSS {
			bound = c.Y
		}
	}
	if bound == nil {
		return false, ""
	}
	if mk, ok := ia.X.(*ssa.MakeSlice); ok {
		if sameNum(mk.Len, bound) || sameValue(stripWiden(mk.Len), stripWiden(bound)) {
			return true, "index < e where the slice was made with that same length e"
		}
		return false, ""
	}
	// the indexed slice: load of an address that was stored a MakeSlice with the same length
	ld, ok := ia.X.(*ssa.UnOp)
	if !ok || ld.Op != token.MUL {
		return false, ""
	}
	fn := in.Parent()
	found := false
	eachInstr(fn, func(j ssa.Instruction) {
		st, ok := j.(*ssa.Store)
		if !ok || pathOf(st.Addr) != pathOf(ld.X) {
			return
		}
		if mk, ok := st.Val.(*ssa.MakeSlice); ok && instrDominates(j, in) {
			if sameNum(mk.Len, bound) || sameValue(stripWiden(mk.Len), stripWiden(bound)) {
				found = true
			}
		}
	})
	if found {
		return true, "index < e where the slice was made with that same length e"
	}
	return false, ""
}

func init() {
	register(&Rule{ID: "C05.R6", Props: []string{"C05", "C04"}, Min: 2, Needs: NeedMain,
		Doc: "the nesting-depth counter is sound: in the function that checks it, every increment is undone on every exit (directly or by a deferred decrement registered before any return), and nothing else in the decoding packages writes the counter (a reset elsewhere on the recursion cycle, or a leaked increment, breaks the bound / rejects flat well-formed data later)",
		Run: func(r *R) {
			var guardFn *ssa.Function
			var field string
			for _, fn := range r.w.decodeFuncs() {
				if why, ok := depthGuard(fn, map[*ssa.Function]bool{fn: true}); ok {
					guardFn = fn
					if i := strings.Index(why, "counter "); i >= 0 {
						field = strings.Fields(why[i+8:])[0]
					}
				}
			}
			if guardFn == nil || field == "" {
				r.Bad("decoders", "depth counter", token.NoPos, "no depth-checking function found (see C05.R2)")
				return
			}
			isStoreOfField := func(in ssa.Instruction) (delta int64, plain bool, ok bool) {
				st, isSt := in.(*ssa.Store)
				if !isSt {
					return 0, false, false
				}
				fv, _, isF := fieldAddrOf(st.Addr)
				if !isF || fv.Name() != field || typeID(st.Addr.(*ssa.FieldAddr).X.Type()) != modPath+"/"+codecPkg+".Reader" {
					return 0, false, false
				}
				if bo, isB := st.Val.(*ssa.BinOp); isB {
					if k, isK := constInt(bo.Y); isK {
						if _, name, _, isL := loadedField(bo.X); isL && name == field {
							if bo.Op == token.ADD {
								return k, false, true
							}
							if bo.Op == token.SUB {
								return -k, false, true
							}
						}
					}
				}
				return 0, true, true
			}
			// pairing inside the guard function
			eachInstr(guardFn, func(in ssa.Instruction) {
				d, plain, ok := isStoreOfField(in)
				if !ok || plain || d <= 0 {
					return
				}
				isRel := func(j ssa.Instruction) bool {
					d2, p2, ok2 := isStoreOfField(j)
					return ok2 && !p2 && d2 == -d
				}
				ex := unpairedExit(in, isRel)
				r.Check(ex == nil, fname(guardFn), "depth increment is undone on every exit", in.Pos(), "every path from the increment to a return passes the decrement (deferred)", "a return at %s is reachable after the depth increment without the decrement: each such field leaks one level, and after enough skipped fields a flat, well-formed message is rejected as `nesting too deep`", posOf(r, ex))
			})
			// who-may-write
			n := 0
			for _, fn := range r.w.decodeFuncs() {
				root := fn
				for root.Parent() != nil {
					root = root.Parent()
				}
				eachInstr(fn, func(in ssa.Instruction) {
					_, plain, ok := isStoreOfField(in)
					if !ok {
						return
					}
					n++
					okk := root == guardFn && !plain
					r.Check(okk, fname(fn), "write of the depth counter", in.Pos(), "only the checking function adjusts the counter by ±1", "the depth counter is %s: this resets/changes the bound in the middle of a recursion, so the nesting limit no longer holds (a list/map level inside a skipped struct restarts the count)", map[bool]string{true: "assigned a fresh value here", false: "adjusted outside the function that checks it"}[plain])
				})
			}
			if n < 2 {
				r.Bad(fname(guardFn), "depth counter writes", guardFn.Pos(), "found %d writes of the depth counter (expected the increment and the decrement)", n)
			}
		}})
}

func init() {
	register(&Rule{ID: "C05.R7", Props: []string{"C05"}, Min: 1, Needs: NeedMain,
		Doc: "the read cursor only moves forward: every (*bytes.Reader).Seek in the decoding packages is relative to the current position with an offset that is provably non-negative at the call (interval analysis over the dominating guards); a negative, input-controlled offset would move the cursor back onto bytes already consumed and the skipping loops would never end",
		Run: func(r *R) {
			for _, fn := range r.w.decodeFuncs() {
				eachInstr(fn, func(in ssa.Instruction) {
					c, ok := in.(*ssa.Call)
					if !ok || funcID(calleeObj(&c.Call)) != "bytes.(Reader).Seek" {
						return
					}
					args := c.Call.Args
					off, whence := args[len(args)-2], args[len(args)-1]
					if k, isK := constInt(whence); !isK || k != 1 {
						r.Bad(fname(fn), "Seek is relative and forward", in.Pos(), "Seek with whence %s: the decoders only ever advance relative to the current position", pathOf(whence))
						return
					}
					core := stripWiden(off)
					cs := setAt(fn, core, in)
					r.Check(cs.subsetOf(rng(0, posInf)), fname(fn), "Seek is relative and forward", in.Pos(), "offset %s in %s", "the offset %s of this Seek can be negative (values %s): a length taken from the input moves the cursor backwards and a skip loop re-reads the same field for ever", pathOf(core), cs)
				})
			}
		}})
}
