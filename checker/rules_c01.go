package main

import (
	"fmt"
	"go/ast"
	"go/token"
	"go/types"
	"sort"
	"strings"

	"golang.org/x/tools/go/packages"
	"golang.org/x/tools/go/ssa"
)

type proxyFun struct {
	pkg      *packages.Package
	recv     string
	fd       *ast.FuncDecl
	wire     string // function name on the wire
	ptype    string // packet type argument (rendered)
	oneWay   bool
	invoke   *ast.CallExpr
	writes   []cfield
	reads    []cfield
	parseErr []string
	extra    []ast.Stmt
}

type dispatchCase struct {
	pkg    *packages.Package
	recv   string
	label  string
	cc     *ast.CaseClause
	reads  []cfield
	writes []cfield
	errs   []string
	decls  []string // declared argument variables in order
	calls  []*ast.CallExpr
}

func cleanStmts(stmts []ast.Stmt) []ast.Stmt {
	var out []ast.Stmt
	for _, s := range stmts {
		switch x := s.(type) {
		case *ast.ExprStmt:
			continue // buf.Reset(), reqTup.Decode(...)
		case *ast.AssignStmt:
			if x.Tok == token.DEFINE {
				continue
			}
		}
		out = append(out, s)
	}
	return out
}

// proxyFuns: generated client methods that call servant.TarsInvoke.
func proxyFuns(w *World) []*proxyFun {
	var out []*proxyFun
	for _, p := range w.resPackages() {
		for _, f := range p.Syntax {
			for _, d := range f.Decls {
				fd, ok := d.(*ast.FuncDecl)
				if !ok || fd.Recv == nil || fd.Body == nil {
					continue
				}
				idx := -1
				var inv *ast.CallExpr
				for i, s := range fd.Body.List {
					if _, call := errAssign(s); call != nil {
						if _, name := selCall(call); name == "TarsInvoke" {
							idx, inv = i, call
						}
					}
				}
				if idx < 0 || len(inv.Args) != 7 {
					continue
				}
				rt := fd.Recv.List[0].Type
				if se, ok := rt.(*ast.StarExpr); ok {
					rt = se.X
				}
				pf := &proxyFun{pkg: p, recv: exprStr(rt), fd: fd, invoke: inv, ptype: exprStr(inv.Args[1])}
				if tv, ok := p.TypesInfo.Types[inv.Args[2]]; ok && tv.Value != nil {
					pf.wire = strings.Trim(tv.Value.ExactString(), `"`)
				}
				pf.oneWay = strings.Contains(fd.Name.Name, "OneWay")
				sp := &shapeParser{info: p.TypesInfo}
				c := &cursor{stmts: cleanStmts(fd.Body.List[:idx])}
				pf.writes = sp.parseWriterFields(c)
				for s := c.peek(); s != nil; s = c.peek() {
					c.next()
					// the opts → contextMap/statusMap plumbing
					if is, ok := s.(*ast.IfStmt); ok && strings.HasPrefix(exprStr(is.Cond), "len(opts)") {
						continue
					}
					pf.extra = append(pf.extra, s)
				}
				after := fd.Body.List[idx+1:]
				if len(after) > 0 && isErrCheck(after[0]) {
					after = after[1:]
				}
				c2 := &cursor{stmts: cleanStmts(after)}
				pf.reads = sp.parseReaderFields(c2)
				for s := c2.peek(); s != nil; s = c2.peek() {
					c2.next()
					if is, ok := s.(*ast.IfStmt); ok && strings.HasPrefix(exprStr(is.Cond), "len(opts)") {
						continue
					}
					if _, isRet := s.(*ast.ReturnStmt); isRet {
						continue
					}
					pf.extra = append(pf.extra, s)
				}
				pf.parseErr = sp.errs
				out = append(out, pf)
			}
		}
	}
	sort.Slice(out, func(i, j int) bool {
		return out[i].pkg.PkgPath+out[i].fd.Name.Name < out[j].pkg.PkgPath+out[j].fd.Name.Name
	})
	return out
}

func isVersionCond(e ast.Expr, v string) bool {
	be, ok := e.(*ast.BinaryExpr)
	return ok && be.Op == token.EQL && exprStr(be.X) == "tarsReq.IVersion" && exprStr(be.Y) == "basef."+v
}

// dispatchCases: the cases of every generated Dispatch switch.
func dispatchCases(w *World) []*dispatchCase {
	var out []*dispatchCase
	for _, p := range w.resPackages() {
		for _, f := range p.Syntax {
			for _, d := range f.Decls {
				fd, ok := d.(*ast.FuncDecl)
				if !ok || fd.Recv == nil || fd.Name.Name != "Dispatch" || fd.Body == nil {
					continue
				}
				rt := fd.Recv.List[0].Type
				if se, ok := rt.(*ast.StarExpr); ok {
					rt = se.X
				}
				for _, s := range fd.Body.List {
					sw, ok := s.(*ast.SwitchStmt)
					if !ok || exprStr(sw.Tag) != "tarsReq.SFuncName" {
						continue
					}
					for _, cs := range sw.Body.List {
						cc := cs.(*ast.CaseClause)
						if len(cc.List) != 1 {
							continue
						}
						dc := &dispatchCase{pkg: p, recv: exprStr(rt), cc: cc}
						if tv, ok := p.TypesInfo.Types[cc.List[0]]; ok && tv.Value != nil {
							dc.label = strings.Trim(tv.Value.ExactString(), `"`)
						}
						sp := &shapeParser{info: p.TypesInfo}
						for _, st := range cc.Body {
							if ds, ok := st.(*ast.DeclStmt); ok {
								if gd, ok := ds.Decl.(*ast.GenDecl); ok && gd.Tok == token.VAR {
									for _, spec := range gd.Specs {
										for _, n := range spec.(*ast.ValueSpec).Names {
											dc.decls = append(dc.decls, n.Name)
										}
									}
								}
							}
							is, ok := st.(*ast.IfStmt)
							if !ok {
								continue
							}
							if isVersionCond(is.Cond, "TARSVERSION") {
								stmts := cleanStmts(is.Body.List)
								c := &cursor{stmts: stmts}
								if rs := sp.parseReaderFields(c); len(rs) > 0 && c.peek() == nil {
									dc.reads = rs
									continue
								}
								c = &cursor{stmts: stmts}
								ws := sp.parseWriterFields(c)
								if c.peek() == nil {
									dc.writes = ws
								} else {
									dc.errs = append(dc.errs, fmt.Sprintf("unrecognised statement in the TARSVERSION section at %s", p.Fset.Position(c.peek().Pos())))
								}
								continue
							}
							// imp calls
							ast.Inspect(is, func(n ast.Node) bool {
								if call, ok := n.(*ast.CallExpr); ok {
									if recv, _ := selCall(call); recv != nil && exprStr(recv) == "imp" {
										dc.calls = append(dc.calls, call)
									}
								}
								return true
							})
						}
						dc.errs = append(dc.errs, sp.errs...)
						out = append(out, dc)
					}
				}
			}
		}
	}
	return out
}

func fieldsStr(fs []cfield) string {
	var s []string
	for _, f := range fs {
		s = append(s, fmt.Sprintf("%d:%s", f.tag, f.shape))
	}
	return strings.Join(s, " ")
}

func init() {
	register(&Rule{ID: "C01.R1", Props: []string{"C01", "C03"}, Min: 60, Needs: NeedMain,
		Doc: "proxy ⇄ dispatcher shape agreement: for every interface function, every (tag, shape) the dispatcher reads in its TARS branch is written with the same tag and shape by the proxy before TarsInvoke, and the (tag, shape) list the dispatcher writes as result equals the list the proxy reads after TarsInvoke (return value tag 0, parameter k tag k+1)",
		Run: func(r *R) {
			cases := map[string]*dispatchCase{}
			for _, dc := range dispatchCases(r.w) {
				cases[dc.pkg.PkgPath+"."+dc.recv+"."+dc.label] = dc
				for _, e := range dc.errs {
					r.Undecided(relPkg(dc.pkg.Types)+"."+dc.recv+".Dispatch", "case "+dc.label, dc.cc.Pos(), "%s", e)
				}
			}
			for _, pf := range proxyFuns(r.w) {
				where := relPkg(pf.pkg.Types) + "." + pf.recv + "." + pf.fd.Name.Name
				for _, e := range pf.parseErr {
					r.Undecided(where, "proxy body", pf.fd.Pos(), "%s", e)
				}
				for _, s := range pf.extra {
					r.Undecided(where, "proxy statement", s.Pos(), "statement not recognised as a codec event or option plumbing")
				}
				dc := cases[pf.pkg.PkgPath+"."+pf.recv+"."+pf.wire]
				if dc == nil {
					continue // reported by C01.R2
				}
				wBy := map[int64]cfield{}
				for _, f := range pf.writes {
					wBy[f.tag] = f
				}
				okArgs, why := true, ""
				for _, rd := range dc.reads {
					w, ok := wBy[rd.tag]
					if !ok || !readerAccepts(w.shape, rd) {
						okArgs = false
						why = fmt.Sprintf("the dispatcher reads tag %d as %s, the proxy writes %q there", rd.tag, rd.shape, w.shape)
					}
				}
				r.Check(okArgs, where, "arguments", pf.fd.Pos(), "dispatcher reads [%s] ⊆ proxy writes [%s]", "%s: the implementation receives a wrong value or the call fails with `require` errors", map[bool]any{true: fieldsStr(dc.reads), false: why}[okArgs], fieldsStr(pf.writes))
				if pf.oneWay {
					continue
				}
				okRes := len(dc.writes) == len(pf.reads)
				if okRes {
					for i := range dc.writes {
						if dc.writes[i].tag != pf.reads[i].tag || !readerAccepts(dc.writes[i].shape, pf.reads[i]) {
							okRes = false
						}
					}
				}
				r.Check(okRes, where, "results", pf.fd.Pos(), "dispatcher writes [%s] = proxy reads", "the dispatcher writes [%s] but the proxy reads [%s]: the caller gets a wrong return value / out parameter", fieldsStr(dc.writes), fieldsStr(pf.reads))
			}
		}})

	register(&Rule{ID: "C01.R2", Props: []string{"C01"}, Min: 60, Needs: NeedMain,
		Doc: "name and packet-type agreement: the function name passed to TarsInvoke by every proxy method is a case label of the same type's Dispatch and every label has a proxy; ...OneWayWithContext passes packet type 1 (TARSONEWAY) and reads nothing from the response, the two-way methods pass 0",
		Run: func(r *R) {
			labels := map[string]bool{}
			used := map[string]bool{}
			for _, dc := range dispatchCases(r.w) {
				labels[dc.pkg.PkgPath+"."+dc.recv+"."+dc.label] = true
			}
			oneway, _ := namedConstInt(r.w.Pkg("tars/protocol/res/basef"), "TARSONEWAY")
			for _, pf := range proxyFuns(r.w) {
				where := relPkg(pf.pkg.Types) + "." + pf.recv + "." + pf.fd.Name.Name
				key := pf.pkg.PkgPath + "." + pf.recv + "." + pf.wire
				used[key] = true
				r.Check(labels[key], where, "wire name "+pf.wire, pf.invoke.Pos(), "%q is a Dispatch case", "the proxy sends function name %q, which the dispatcher of %s does not know (`func mismatch`)", pf.wire, pf.recv)
				pt := pf.ptype
				want := "0"
				if pf.oneWay {
					want = fmt.Sprint(oneway)
				}
				okk := pt == want && (!pf.oneWay || len(pf.reads) == 0)
				r.Check(okk, where, "packet type", pf.invoke.Pos(), "packet type %s", "packet type %s is passed (expected "+want+") / a one-way method decodes a reply (%d fields): a one-way call would wait for a reply or a two-way call gets none", pt, len(pf.reads))
			}
			for k := range labels {
				if !used[k] {
					r.Bad("Dispatch", "case "+k[strings.LastIndex(k, "/")+1:], token.NoPos, "the dispatcher has a case without any proxy method")
				}
			}
		}})

	register(&Rule{ID: "C01.R4", Props: []string{"C01"}, Min: 70, Needs: NeedMain,
		Doc: "context/status plumbing, hop by hop: the proxy passes opts[1] as status and opts[0] as context to TarsInvoke (arguments #5/#6) and copies tarsResp.Context/Status back into those maps; TarsInvoke puts them into RequestPacket.Status/Context; the server entry sets request status/context from the packet; every current.Set*/Get* pair touches the same field; Dispatch fills ResponsePacket.Status/Context from GetResponseStatus/GetResponseContext; TarsInvoke returns *msg.Resp",
		Run: func(r *R) {
			for _, pf := range proxyFuns(r.w) {
				where := relPkg(pf.pkg.Types) + "." + pf.recv + "." + pf.fd.Name.Name
				// h1: assignments contextMap = opts[0], statusMap = opts[1]; invoke args
				assign := map[string]map[string]bool{}
				ast.Inspect(pf.fd.Body, func(n ast.Node) bool {
					as, ok := n.(*ast.AssignStmt)
					if !ok || len(as.Lhs) != 1 || len(as.Rhs) != 1 {
						return true
					}
					l, rr := exprStr(as.Lhs[0]), exprStr(as.Rhs[0])
					if (l == "contextMap" || l == "statusMap") && strings.HasPrefix(rr, "opts[") {
						if assign[l] == nil {
							assign[l] = map[string]bool{}
						}
						assign[l][rr] = true
					}
					return true
				})
				h1 := exprStr(pf.invoke.Args[4]) == "statusMap" && exprStr(pf.invoke.Args[5]) == "contextMap" &&
					len(assign["contextMap"]) == 1 && assign["contextMap"]["opts[0]"] && len(assign["statusMap"]) == 1 && assign["statusMap"]["opts[1]"]
				r.Check(h1, where, "h1 opts → TarsInvoke(status, context)", pf.invoke.Pos(), "contextMap=opts[0], statusMap=opts[1], passed as arguments #5/#6", "the caller's context/status maps are swapped or dropped on the way into TarsInvoke (both are map[string]string, a swap compiles): the implementation sees the status map as context")
				if pf.oneWay {
					continue
				}
				// h7: copy back
				back := map[string]string{}
				ast.Inspect(pf.fd.Body, func(n ast.Node) bool {
					rs, ok := n.(*ast.RangeStmt)
					if !ok || !strings.HasPrefix(exprStr(rs.X), "tarsResp.") {
						return true
					}
					for _, s := range rs.Body.List {
						if as, ok := s.(*ast.AssignStmt); ok {
							if ix, ok := as.Lhs[0].(*ast.IndexExpr); ok {
								back[exprStr(ix.X)] = exprStr(rs.X)
							}
						}
					}
					return true
				})
				r.Check(back["contextMap"] == "tarsResp.Context" && back["statusMap"] == "tarsResp.Status", where, "h7 response context/status copied back", pf.fd.Pos(), "tarsResp.Context → contextMap, tarsResp.Status → statusMap", "the response context/status are not copied back into the caller's maps correctly (%v)", back)
			}
			// h2: TarsInvoke builds the request
			if fn := r.w.Func("tars", "ServantProxy.TarsInvoke"); fn != nil {
				st := literalStores(fn, reqPacketT)
				// TarsInvoke(ctx, cType, sFuncName, buf, status, reqContext, resp): the exported signature fixes the positions
				pname := func(i int) string {
					if i < len(fn.Params) {
						return fn.Params[i].Name()
					}
					return "\x00"
				}
				ctxOK := st["Context"] != nil && pathOf(st["Context"]) == pname(6)
				stOK := st["Status"] != nil && strings.HasPrefix(pathOf(st["Status"]), pname(5))
				r.Check(ctxOK && stOK, fname(fn), "h2 RequestPacket.Context/Status", fn.Pos(), "Context ← reqContext, Status ← status", "the request packet's Context/Status are not the reqContext/status parameters")
				// h6: *resp = *msg.Resp on the success path
				h6 := false
				eachInstr(fn, func(in ssa.Instruction) {
					if s, ok := in.(*ssa.Store); ok && pathOf(s.Addr) == pname(7) && strings.HasSuffix(pathOf(s.Val), ".Resp") {
						h6 = true
					}
				})
				r.Check(h6, fname(fn), "h6 *resp = *msg.Resp", fn.Pos(), "the received response is handed to the proxy", "the response packet received for the call is not copied into the caller's response")
			} else {
				r.AnchorMissing("tars.(*ServantProxy).TarsInvoke")
			}
			// h3: server entry
			if fn := r.w.Func("tars", "Protocol.Invoke"); fn != nil {
				got := map[string]string{}
				eachInstr(fn, func(in ssa.Instruction) {
					if c := callCommon(in); c != nil {
						if o := calleeObj(c); o != nil && (o.Name() == "SetRequestStatus" || o.Name() == "SetRequestContext") {
							p := pathOf(c.Args[1])
							got[o.Name()] = p[strings.LastIndex(p, ".")+1:]
						}
					}
				})
				r.Check(got["SetRequestStatus"] == "Status" && got["SetRequestContext"] == "Context", fname(fn), "h3 request status/context installed", fn.Pos(), "SetRequestStatus(req.Status), SetRequestContext(req.Context)", "the server installs %v: context and status are mixed up or missing", got)
			} else {
				r.AnchorMissing("tars.(*Protocol).Invoke")
			}
			// h4: current Set/Get pairs
			if sp := r.w.Pkg("tars/util/current"); sp != nil {
				fieldOf := func(fn *ssa.Function, write bool) string {
					set := map[string]bool{}
					eachInstr(fn, func(in ssa.Instruction) {
						if write {
							if s, ok := in.(*ssa.Store); ok {
								if fv, _, ok := fieldAddrOf(s.Addr); ok {
									set[fv.Name()] = true
								}
							}
						} else if ret, ok := in.(*ssa.Return); ok {
							for _, rv := range ret.Results {
								if _, name, _, ok := loadedField(rv); ok {
									set[name] = true
								}
							}
						}
					})
					var ks []string
					for k := range set {
						// presence flags set alongside the value are not part of the pair
						ks = append(ks, k)
					}
					sort.Strings(ks)
					return strings.Join(ks, ",")
				}
				n := 0
				for _, fn := range r.w.Funcs(sp) {
					name := fn.Name()
					if fn.Parent() != nil || !strings.HasPrefix(name, "Set") {
						continue
					}
					base := strings.TrimPrefix(name, "Set")
					get := sp.Func("Get" + base)
					if get == nil {
						continue
					}
					sf, gf := fieldOf(fn, true), fieldOf(get, false)
					if sf == "" || gf == "" {
						continue
					}
					n++
					same := sf == gf || subsetCSV(gf, sf) || subsetCSV(sf, gf)
					r.Check(same, "tars/util/current."+name, "h4 Set/Get touch the same field", fn.Pos(), "both use field(s) %s", "Set%s writes field(s) %s but Get%s reads %s", map[bool]any{true: sf, false: base}[same], sf, base, gf)
				}
				if n < 6 {
					r.Bad("tars/util/current", "h4 Set/Get pairs", token.NoPos, "only %d Set/Get pairs found", n)
				}
			} else {
				r.AnchorMissing("package tars/util/current")
			}
			// h5: Dispatch response literal
			for _, fn := range dispatchFuncs(r.w) {
				got := map[string]string{}
				eachInstr(fn, func(in ssa.Instruction) {
					st, ok := in.(*ssa.Store)
					if !ok {
						return
					}
					fv, base, ok := fieldAddrOf(st.Addr)
					if !ok || typeID(base.Type()) != rspPacketT {
						return
					}
					if fv.Name() == "Status" || fv.Name() == "Context" {
						// value is a phi of nil and the getter's result
						src := ""
						var walk func(v ssa.Value, d int)
						walk = func(v ssa.Value, d int) {
							if d > 4 {
								return
							}
							switch x := v.(type) {
							case *ssa.Phi:
								for _, e := range x.Edges {
									walk(e, d+1)
								}
							case *ssa.Extract:
								if c, ok := x.Tuple.(*ssa.Call); ok {
									if o := calleeObj(&c.Call); o != nil {
										src = o.Name()
									}
								}
							}
						}
						walk(st.Val, 0)
						got[fv.Name()] = src
					}
				})
				r.Check(got["Status"] == "GetResponseStatus" && got["Context"] == "GetResponseContext", fname(fn), "h5 response status/context", fn.Pos(), "Status ← GetResponseStatus, Context ← GetResponseContext", "the response packet's Status/Context come from %v", got)
			}
		}})

	register(&Rule{ID: "C01.R7", Props: []string{"C01"}, Min: 4, Needs: NeedMain,
		Doc: "filters: both entry points select single filter, else middleware chain, else pre → call → post; the middleware wrap loop runs from the last registered to the first around the invoke (first registered is outermost); on the pre/post branch the call is made exactly once, between the pre and the post loop, and not at all on the other branches",
		Run: func(r *R) {
			for _, spec := range []struct{ name, single, mw, call string }{
				{"ServantProxy.TarsInvoke", ".cf", "getMiddlewareClientFilter", "doInvoke"},
				{"Protocol.Invoke", ".sf", "getMiddlewareServerFilter", "Dispatch"},
			} {
				fn := r.w.Func("tars", spec.name)
				if fn == nil {
					r.AnchorMissing("tars." + spec.name)
					continue
				}
				// direct calls of the exchange / dispatcher
				var direct []ssa.Instruction
				var viaSingle, viaMW ssa.Instruction
				eachInstr(fn, func(in ssa.Instruction) {
					c := callCommon(in)
					if c == nil {
						return
					}
					if _, isDefer := in.(*ssa.Defer); isDefer {
						return
					}
					if (c.IsInvoke() && c.Method.Name() == spec.call) || (c.StaticCallee() != nil && c.StaticCallee().Name() == spec.call) {
						direct = append(direct, in)
						return
					}
					if c.StaticCallee() == nil && !c.IsInvoke() {
						p := pathOf(c.Value)
						if strings.HasSuffix(p, spec.single) {
							viaSingle = in
						}
						if strings.Contains(p, spec.mw) {
							viaMW = in
						}
					}
				})
				okk := len(direct) == 1 && viaSingle != nil && viaMW != nil
				why := fmt.Sprintf("direct calls=%d single-filter call=%v middleware call=%v", len(direct), viaSingle != nil, viaMW != nil)
				if okk {
					d := direct[0]
					// the direct call is on the branch where the single filter is nil and the middleware is nil
					nilSingle, nilMW := false, false
					for _, f := range facts(d.Block()) {
						c, okc := normFact(f)
						if !okc || c.Op != token.EQL || !isNilConst(c.Y) {
							continue
						}
						p := pathOf(c.X)
						if strings.HasSuffix(p, spec.single) {
							nilSingle = true
						}
						if strings.Contains(p, spec.mw) {
							nilMW = true
						}
					}
					// the middleware call is on the single-filter-nil branch
					mwAfterSingle := false
					for _, f := range facts(viaMW.Block()) {
						if c, okc := normFact(f); okc && c.Op == token.EQL && isNilConst(c.Y) && strings.HasSuffix(pathOf(c.X), spec.single) {
							mwAfterSingle = true
						}
					}
					// pre loop before, post loop after: calls through filter slices
					pre, post := 0, 0
					eachInstr(fn, func(in ssa.Instruction) {
						if c := callCommon(in); c != nil {
							if _, ok := throughFilterSlice(c); ok {
								if reaches(in, d) && !reaches(d, in) {
									pre++
								}
								if reaches(d, in) && !reaches(in, d) {
									post++
								}
							}
						}
					})
					inLoop := false
					for _, l := range loopsOf(fn) {
						if l.body[d.Block()] {
							inLoop = true
						}
					}
					okk = nilSingle && nilMW && mwAfterSingle && pre == 1 && post == 1 && !inLoop
					why = fmt.Sprintf("call on single==nil:%v middleware==nil:%v; middleware tried after single:%v; pre loops before:%d post loops after:%d; call inside a loop:%v", nilSingle, nilMW, mwAfterSingle, pre, post, inLoop)
				}
				r.Check(okk, fname(fn), "filter selection and invoke-once", fn.Pos(), "single > middleware > pre,call,post; the call happens exactly once (%s)", "filter chain shape broken: %s — the implementation runs twice / never, or filters run in the wrong order", why)
			}
			for _, name := range []string{"getMiddlewareClientFilter", "getMiddlewareServerFilter"} {
				fn := r.w.Func("tars", "filters."+name)
				if fn == nil {
					r.AnchorMissing("tars.(*filters)." + name)
					continue
				}
				// the wrap loop applies the middlewares from index len-1 down to 0: the index of the applied
				// element is an affine function of the loop counter that starts at len-1 and decreases by one
				okk := false
				eachInstrDeep(fn, func(g *ssa.Function, in ssa.Instruction) {
					c, ok := in.(*ssa.Call)
					if !ok || c.Call.IsInvoke() || c.Call.StaticCallee() != nil {
						return
					}
					u, ok := c.Call.Value.(*ssa.UnOp)
					if !ok || u.Op != token.MUL {
						return
					}
					ia, ok := u.X.(*ssa.IndexAddr)
					if !ok {
						return
					}
					isLen := func(v ssa.Value) bool {
						lc, ok := v.(*ssa.Call)
						return ok && builtinName(&lc.Call) == "len" && pathOf(lc.Call.Args[0]) == pathOf(ia.X)
					}
					idx, ok := affEval(ia.Index, isLen)
					if !ok || idx.phi == nil {
						return
					}
					start, step, ok := phiStartStep(idx.phi, isLen)
					if !ok {
						return
					}
					// first index: idx with phi := start
					firstL := idx.l + idx.c*start.l
					firstK := idx.k + idx.c*start.k
					if firstL == 1 && firstK == -1 && idx.c*step == -1 {
						okk = true
					}
				})
				r.Check(okk, fname(fn), "middleware wrap order", fn.Pos(), "wraps from the last registered to the first (first registered is outermost)", "the middleware chain is not built by wrapping from the last registered middleware to the first: filters run in reverse registration order")
			}
		}})

	register(&Rule{ID: "C01.R10", Props: []string{"C01"}, Min: 30, Needs: NeedMain,
		Doc: "decoded arguments reach the implementation in position: in each Dispatch case the arguments of imp.F(...) (both the plain and the WithContext variant) are, in order, the locals declared for the parameters (or their addresses); client-side, a non-zero return code other than 1 becomes *tars.Error{Code: IRet, Message: SResultDesc}",
		Run: func(r *R) {
			for _, dc := range dispatchCases(r.w) {
				where := relPkg(dc.pkg.Types) + "." + dc.recv + ".Dispatch"
				var params []string
				for _, d := range dc.decls {
					if d != "funRet" {
						params = append(params, d)
					}
				}
				okk := len(dc.calls) == 2
				why := fmt.Sprintf("%d implementation calls", len(dc.calls))
				for _, call := range dc.calls {
					var args []string
					for _, a := range call.Args {
						s := strings.TrimPrefix(exprStr(a), "&")
						if s == "tarsCtx" {
							continue
						}
						args = append(args, s)
					}
					if strings.Join(args, ",") != strings.Join(params, ",") {
						okk = false
						why = fmt.Sprintf("imp.%s(%s) but the parameters were decoded into (%s)", exprStr(call.Fun), strings.Join(args, ","), strings.Join(params, ","))
					}
					_, name := selCall(call)
					if !strings.EqualFold(name, dc.label) {
						okk = false
						why = fmt.Sprintf("case %q calls imp.%s", dc.label, name)
					}
				}
				r.Check(okk, where, "case "+dc.label+" argument positions", dc.cc.Pos(), "imp.%s receives the decoded parameters in order", "%s: the implementation receives arguments in the wrong positions", map[bool]any{true: dc.label, false: why}[okk])
			}
			// client error mapping
			ex := exchangeFunc(r.w)
			if ex == nil {
				r.AnchorMissing("client exchange function")
				return
			}
			okMap := false
			eachInstr(ex, func(in ssa.Instruction) {
				st, ok := in.(*ssa.Store)
				if !ok {
					return
				}
				fv, base, ok := fieldAddrOf(st.Addr)
				if !ok || !strings.HasSuffix(typeID(base.Type()), "tars.Error") || fv.Name() != "Code" {
					return
				}
				if _, n1, b1, ok := loadedField(st.Val); ok && n1 == "IRet" && strings.HasSuffix(typeID(b1.Type()), "requestf.ResponsePacket") {
					// and Message ← SResultDesc of the same response in the same literal
					for _, j := range in.Block().Instrs {
						if s2, ok := j.(*ssa.Store); ok {
							if f2, _, ok := fieldAddrOf(s2.Addr); ok && f2.Name() == "Message" {
								if _, n2, b2, ok := loadedField(s2.Val); ok && n2 == "SResultDesc" && (b1 == b2 || pathOf(b1) == pathOf(b2)) {
									okMap = true
								}
							}
						}
					}
				}
			})
			r.Check(okMap, fname(ex), "server error code/message reach the caller", ex.Pos(), "&Error{Code: Resp.IRet, Message: Resp.SResultDesc}", "a non-zero return code is not turned into *tars.Error with the server's code and message")
		}})
}

var _ = types.Typ

func subsetCSV(a, b string) bool {
	m := map[string]bool{}
	for _, x := range strings.Split(b, ",") {
		m[x] = true
	}
	for _, x := range strings.Split(a, ",") {
		if !m[x] {
			return false
		}
	}
	return a != ""
}

// aff is l*len + c*phi + k.
type aff struct {
	l, c, k int64
	phi     *ssa.Phi
}

// affEval evaluates v as an affine expression of one loop-header phi and of len(x) (isLen).
func affEval(v ssa.Value, isLen func(ssa.Value) bool) (aff, bool) {
	switch x := v.(type) {
	case *ssa.Const:
		if k, ok := constInt(x); ok {
			return aff{k: k}, true
		}
	case *ssa.Convert:
		if wideningConv(x) {
			return affEval(x.X, isLen)
		}
	case *ssa.Phi:
		if _, _, ok := phiStartStep(x, isLen); ok {
			return aff{c: 1, phi: x}, true
		}
	case *ssa.BinOp:
		if x.Op == token.ADD || x.Op == token.SUB {
			a, ok1 := affEval(x.X, isLen)
			b, ok2 := affEval(x.Y, isLen)
			if !ok1 || !ok2 || (a.phi != nil && b.phi != nil && a.phi != b.phi) {
				return aff{}, false
			}
			sg := int64(1)
			if x.Op == token.SUB {
				sg = -1
			}
			r := aff{l: a.l + sg*b.l, c: a.c + sg*b.c, k: a.k + sg*b.k, phi: a.phi}
			if r.phi == nil {
				r.phi = b.phi
			}
			return r, true
		}
	}
	if isLen(v) {
		return aff{l: 1}, true
	}
	return aff{}, false
}

// phiStartStep: phi = [start, phi ± const] (a loop counter); start affine in len.
func phiStartStep(phi *ssa.Phi, isLen func(ssa.Value) bool) (start aff, step int64, ok bool) {
	if len(phi.Edges) != 2 {
		return aff{}, 0, false
	}
	var sv ssa.Value
	found := false
	for _, e := range phi.Edges {
		if bo, isB := e.(*ssa.BinOp); isB && bo.X == ssa.Value(phi) && (bo.Op == token.ADD || bo.Op == token.SUB) {
			if k, isK := constInt(bo.Y); isK {
				step = k
				if bo.Op == token.SUB {
					step = -k
				}
				found = true
				continue
			}
		}
		sv = e
	}
	if !found || sv == nil {
		return aff{}, 0, false
	}
	if p, isP := sv.(*ssa.Phi); isP && p == phi {
		return aff{}, 0, false
	}
	st, ok2 := affEvalNoPhi(sv, isLen)
	if !ok2 {
		return aff{}, 0, false
	}
	return st, step, true
}

func affEvalNoPhi(v ssa.Value, isLen func(ssa.Value) bool) (aff, bool) {
	switch x := v.(type) {
	case *ssa.Const:
		if k, ok := constInt(x); ok {
			return aff{k: k}, true
		}
	case *ssa.Convert:
		if wideningConv(x) {
			return affEvalNoPhi(x.X, isLen)
		}
	case *ssa.BinOp:
		if x.Op == token.ADD || x.Op == token.SUB {
			a, ok1 := affEvalNoPhi(x.X, isLen)
			b, ok2 := affEvalNoPhi(x.Y, isLen)
			if ok1 && ok2 {
				sg := int64(1)
				if x.Op == token.SUB {
					sg = -1
				}
				return aff{l: a.l + sg*b.l, k: a.k + sg*b.k}, true
			}
		}
	}
	if isLen(v) {
		return aff{l: 1}, true
	}
	return aff{}, false
}
