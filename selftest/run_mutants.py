#!/usr/bin/env python3
"""Developer self-test: applies each catalogue mutant (a literal text replacement in one file of a
scratch COPY of /repo), checks that it still builds, runs the named properties' quick checks against
the copy and requires the expected rule to report (or, for `silent` entries, requires exit 0).
Never touches /repo. Usage: run_mutants.py [name-filter]"""
import json, os, shutil, subprocess, sys, tempfile
ROOT = os.path.dirname(os.path.dirname(os.path.abspath(__file__)))
cat = json.load(open(os.path.join(ROOT, 'selftest', 'mutants.json')))
flt = sys.argv[1] if len(sys.argv) > 1 else ''
env = dict(os.environ, GOFLAGS='-mod=mod', GOPROXY='off', GOSUMDB='off', GOTOOLCHAIN='local')
env.pop('GOWORK', None)
scratch = tempfile.mkdtemp(prefix='mut-')
fails = 0
try:
    repo = os.path.join(scratch, 'repo')
    subprocess.check_call(['git', 'clone', '-q', '--no-hardlinks', '/repo', repo])
    # bring uncommitted working-tree state along
    subprocess.call('cd /repo && git diff | (cd %s && git apply --allow-empty 2>/dev/null)' % repo, shell=True)
    for m in cat:
        if flt and flt not in m['name']:
            continue
        path = os.path.join(repo, m['file'])
        src = open(path).read()
        if m['old'] not in src:
            print(f"SKIP   {m['name']}: pattern no longer present"); continue
        open(path, 'w').write(src.replace(m['old'], m['new'], m.get('count', 1)))
        try:
            bdir = os.path.join(repo, 'tars/tools/tars2go') if 'tars2go' in m['file'] else repo
            b = subprocess.run(['go', 'build', './...'], cwd=bdir, env=env, capture_output=True, text=True)
            if b.returncode != 0:
                print(f"NOBUILD {m['name']}: {b.stderr.strip().splitlines()[-1] if b.stderr.strip() else ''}"); fails += 1; continue
            for prop in m['props']:
                e = dict(env, VERIF_REPO=repo)
                p = subprocess.run([os.path.join(ROOT, 'run.sh'), prop, m.get('tier', 'quick'), '-no-evidence'], env=e, capture_output=True, text=True)
                hit = [l.strip() for l in p.stdout.splitlines() if l.strip().startswith(('violated:', 'undecided:'))]
                if m.get('silent'):
                    ok = p.returncode == 0
                    print(f"{'ok    ' if ok else 'FAIL  '} {m['name']} [{prop}] silent expected, rc={p.returncode} {hit[:2] if not ok else ''}")
                else:
                    want = m.get('rule', '')
                    ok = p.returncode == 1 and any(want in h for h in hit)
                    print(f"{'ok    ' if ok else 'FAIL  '} {m['name']} [{prop}] rc={p.returncode} expected {want}: {hit[0][:150] if hit else 'no report'}")
                if not ok: fails += 1
        finally:
            open(path, 'w').write(src)
finally:
    shutil.rmtree(scratch, ignore_errors=True)
print('mutant self-test:', 'FAILED (%d)' % fails if fails else 'all ok')
sys.exit(1 if fails else 0)
