#!/usr/bin/env bash
# eval_silent_all.sh [filter]: runs every behaviour-preserving change of /verif/silent against all quick
# checks (tools/eval_silent.sh) and prints those that raise an alarm (= false alarms).
HERE="$(cd "$(dirname "${BASH_SOURCE[0]}")/.." && pwd)"
F=${1:-}
ls -d "$HERE"/silent/*/ | grep "$F" | xargs -P ${P:-6} -I{} sh -c 'id=$(basename {}); p={}patch.diff; [ -f {}patch.head.diff ] && p={}patch.head.diff; '"$HERE"'/tools/eval_silent.sh $p $id 2>/dev/null' | grep -v '"alarms":{}' 
echo "done"
