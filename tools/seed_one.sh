#!/usr/bin/env bash
# seedone.sh <seed-id> <prop>: only the own property
# seed_one.sh <seed-id> <property>: apply one seeded change to a scratch worktree and run one property check on it
ID=$1; P=$2
HERE=/verif/seeded
PATCH="$HERE/$ID/patch.diff"; [ -f "$HERE/$ID/patch.head.diff" ] && PATCH="$HERE/$ID/patch.head.diff"
WT=$(mktemp -d /tmp/eval1-XXXXXX)
git -C /repo worktree add --detach "$WT" HEAD >/dev/null 2>&1
( cd "$WT" && git apply "$PATCH" ) || { echo "$ID apply failed"; }
out=$(VERIF_REPO="$WT" /verif/run.sh $P quick -no-evidence 2>&1); rc=$?
echo "$ID $P rc=$rc $(echo "$out" | grep -E "^\s+(violated|undecided):" | awk '{print $2}' | cut -d'|' -f1 | sort -u | tr '\n' ',')"
git -C /repo worktree remove --force "$WT"; rm -rf "$WT"
