#!/usr/bin/env python3
# prints the prompt given to a sub-agent that writes BEHAVIOUR-PRESERVING changes for one property
# (property text + worktree only); used to look for false alarms of the checks
import json,sys
pid=sys.argv[1]
rnd=sys.argv[2] if len(sys.argv)>2 else ''
for l in open('/verif/properties.jsonl'):
    p=json.loads(l)
    if p['id']==pid: break
print(f"""You are helping to evaluate a verification effort for the Go RPC framework TarsCloud/TarsGo by writing realistic *behaviour-preserving changes* (refactors). They are used to find out whether a set of custom static checks raises false alarms on code that is still correct.

You have your own scratch git worktree of the TarsGo repository at /tmp/silent{rnd}/{pid} (detached HEAD). Work ONLY inside /tmp/silent{rnd}/{pid} and write your results to /tmp/silent{rnd}-out/{pid}/. Do not read or touch /repo or /verif or any other directory under /tmp. The sandbox has no network. For every shell command first run:
  export GOFLAGS=-mod=mod GOPROXY=off GOSUMDB=off GOTOOLCHAIN=local; unset GOWORK
(The tars2go generator is a separate Go module at tars/tools/tars2go inside the worktree.)

The property the checks are about (this is the only specification you get):

  Title: {p['title']}
  Statement: {p['statement']}
  Quantified over: {p['quantifier']['text']}

{("Earlier rounds of this exercise already produced if-chain/switch conversions, hoisting into locals, early returns, extracting or inlining one helper, loop rewrites, flags, named results, closures and hand-written byte shuffling. Prefer OTHER kinds this time: rename an UNEXPORTED function, method, type, field or package-level variable consistently everywhere it is used; move a function to another file of the same package; change a method into a plain function taking the receiver as first parameter (or back); change the order of parameters of an unexported function; simplify or restructure boolean conditions (De Morgan, merging nested ifs, splitting a compound condition into two ifs); replace a comparison chain by a small lookup on constants; add an extra defensive check that returns an error for input that was already rejected a few lines later anyway; wrap returned errors with more context (fmt.Errorf with %v) without changing whether an error is returned; add debug logging or a metrics counter; replace `defer` cleanups by explicit cleanups on every path (or back); replace a struct literal by field assignments; use a local copy of a field read several times; replace `for i := range xs` + `xs[i]` by `for _, x := range xs` where the element is not modified. ") if rnd == "3" else ""}{("An earlier round of this exercise already produced the most common edits (if-chain to switch, hoisting a repeated expression into a local, inverting an if into an early return, extracting ONE helper function, count-down loops, renaming locals). Prefer OTHER kinds this time: inline an existing small unexported helper into its callers (and delete it), split a function in two differently or merge two small functions, replace a flag variable by early returns (or the reverse), introduce or remove named result parameters, turn an index loop into a range loop (or back), replace an if/else assignment by a small table or switch expression, wrap a block in a closure that is called immediately, change how a value is passed (pointer vs value, struct vs fields), replace hand-written byte shuffling by encoding/binary (or back), move a lock/unlock pair into a tiny method, reorder switch cases, replace a type assertion chain by a type switch, use errors.New/fmt.Errorf interchangeably, replace x+=1 loops by different but equivalent arithmetic. ") if rnd == "2" else ""}Your task: find the code that implements the behaviour this property talks about, and produce FOUR independent changes (s1..s4, each applied separately to a clean tree) to that *non-test source code* such that each change
  (a) PRESERVES the property and the observable behaviour completely: same results, same errors in the same situations, same locking/ordering guarantees. It must be the kind of edit a maintainer makes during ordinary upkeep: e.g. invert an if and return early, turn an if-chain into a switch (or back), hoist a repeated expression into a local variable, split a long function by extracting a helper (or inline a small helper), replace a manual loop by an equivalent one, reorder two independent statements, rename a LOCAL variable or an unexported helper FUNCTION, change an error message text, add logging, replace `defer mu.Unlock()` by explicit unlocks on every path (or the reverse), use a different but equivalent comparison (`len(x) == 0` vs `len(x) < 1`), strengthen a check (reject more clearly-invalid input earlier with an error) — be creative but stay strictly behaviour-preserving with respect to the property.
  (b) touches the code that matters for the property (the functions a checker for this property would have to look at), 5-40 changed lines each; the four changes should differ in kind and in site.
  (c) still compiles (`go build ./...` in the worktree root, and in tars/tools/tars2go if you touch it) and passes the existing test suite (`go test -vet=off -count=1 ./tars/...` from the worktree root; TestKetamaHashAlg_Hash in tars/selector/consistenthash already fails on the clean tree and is ignored; tars/util/rogger tests take ~20 s).
  Do NOT rename exported identifiers, struct fields or files, do not move code between packages, do not edit tests or generated files' semantics, do not add build tags. If you change the tars2go generator's output you must regenerate nothing — simply avoid changing its output.

Deliverables, for k in (1..4), in /tmp/silent{rnd}-out/{pid}/s<k>/ :
  - patch.diff : `git diff` of the change (must apply with `git apply` to a clean checkout of the same commit)
  - notes.md   : 3-8 lines: what was changed and a short argument why behaviour (with respect to the property) is exactly preserved; the build/test commands you ran and their result

When you are done, leave the worktree clean (`git checkout -- . && git clean -fd` inside /tmp/silent{rnd}/{pid}). Your final message: one line per change. Be economical: read only the code you need.""")
