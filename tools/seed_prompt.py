#!/usr/bin/env python3
# prints the prompt given to a seeding sub-agent for one property (property text + worktree only)
import json,sys
pid=sys.argv[1]
for l in open('/verif/properties.jsonl'):
    p=json.loads(l)
    if p['id']==pid: break
rnd=sys.argv[2] if len(sys.argv)>2 else ''
HINT="Earlier rounds of this exercise have already produced the most obvious mistakes for this property (dropping the central check, off-by-one in the main loop); prefer a less obvious mechanism, a secondary code path, or a different clause of the statement."
if rnd=='5':
    HINT="Four earlier rounds of this exercise have already produced the obvious mistakes for this property (dropping the central check, off-by-one in the main loop, a swapped argument). This round asks for mistakes that hide inside ordinary maintenance: change m1 should look like a REFACTORING commit (extract or inline a helper, rename an unexported identifier, turn a method into a function, merge two branches, restructure a condition, replace an if-chain by a table or switch, move a statement, replace defer by explicit cleanup or the reverse) that is behaviour-preserving everywhere except in one corner case where it breaks the property; change m2 should be a small semantic slip in a secondary code path, an error path, a rarely used option or configuration, or in the interplay of two sites that each look fine alone. Prefer a different clause of the statement for each."
print(f"""You are helping to evaluate a verification effort for the Go RPC framework TarsCloud/TarsGo by writing realistic *bug injections*.

You have your own scratch git worktree of the TarsGo repository at /tmp/seed/{pid} (detached HEAD). Work ONLY inside /tmp/seed/{pid} and write your results to /tmp/seed-out/{pid}/. Do not read or touch /repo or /verif or any other directory under /tmp/seed*. The sandbox has no network. For every shell command first run:
  export GOFLAGS=-mod=mod GOPROXY=off GOSUMDB=off GOTOOLCHAIN=local; unset GOWORK
(The tars2go generator is a separate Go module at tars/tools/tars2go inside the worktree.)

The property (this is the only specification you get):

  Title: {p['title']}
  Statement: {p['statement']}
  Quantified over: {p['quantifier']['text']}

{HINT}

Your task: produce TWO independent changes (m1 and m2, each applied separately to a clean tree, touching different mechanisms/sites and preferably different clauses of the statement) to the TarsGo *non-test source code* such that each change
  (a) BREAKS the property above (for some input / schedule / fault / history), 
  (b) still compiles (`go build ./...` in the worktree root, and in tars/tools/tars2go if you touch it) and still passes the existing test suite (`go test -vet=off -count=1 ./tars/...` from the worktree root; note: TestKetamaHashAlg_Hash in tars/selector/consistenthash already fails on the clean tree and is ignored; tars/util/rogger tests take ~20 s),
  (c) needs something SPECIFIC to manifest — a particular interleaving, a crash or fault at a particular point, a multi-step sequence of operations, an unusual input (boundary value, rare wire type, extreme length), or two cooperating sites that each look fine alone — NOT something ordinary use would expose at once,
  (d) looks like a plausible mistake a developer could make (a refactor, an optimisation, an off-by-one, a dropped check, a swapped argument, a lock narrowed, an error swallowed ...). Small diffs (1-15 lines) are best. Do not add comments that announce the bug. Do not edit tests, do not add build tags.

For each change also write a DEMONSTRATION: a Go test file (put temporarily in the relevant package directory of the worktree) or a small main program (own module with `replace github.com/TarsCloud/TarsGo => /tmp/seed/{pid}` and `cp /tmp/seed/{pid}/go.sum .`) that FAILS with the change applied and PASSES on the clean tree. Actually run it both ways and record the outputs. The demonstration should be deterministic or fail with high probability within a few seconds.

Deliverables, for k in (1,2), in /tmp/seed-out/{pid}/m<k>/ :
  - patch.diff    : `git diff` of the source change only (must apply with `git apply` to a clean checkout of the same commit); no demo files inside
  - demo/         : the demonstration file(s), a file RUN.md saying exactly where to copy them and which command to run, and a machine-readable demo/demo.json: for a Go test demonstration {{"kind":"gotest","files":[{{"src":"demo/<file>_test.go","dst_dir":"<package dir relative to the worktree root, e.g. tars/transport>"}}],"cwd":"<dir relative to the worktree root in which the commands run; empty string for the root>","commands":["go test -vet=off -count=1 -run <TestName> ./<pkg>/"]}}; for a main-program demonstration {{"kind":"script"}} plus a demo/run.sh that takes the path of a TarsGo checkout as $1, builds/runs the program against it (go mod edit -replace github.com/TarsCloud/TarsGo=$1; cp $1/go.sum .) and exits 0 when the property holds on the demonstration's inputs and non-zero when it does not
  - notes.md      : which clause of the property it breaks, what it needs in order to manifest, why the existing tests do not notice, and the commands you ran with their (abridged) output: build ok, test suite ok with the patch, demo fails with the patch, demo passes without it

When you are done, leave the worktree clean (`git checkout -- . && git clean -fd` inside /tmp/seed/{pid}). Your final message should be a short summary (3-6 lines per change): files touched, the idea, and how it manifests. Be economical: read only the code you need.""")
