#!/usr/bin/env bash
# regress_all.sh: the full regression (developer command, ~2.5 h on 16 cores): every behaviour-preserving
# change of silent/ against all 20 quick checks (alarms are printed to $OUT/silent.txt), every seeded change
# of seeded/ (one JSON per seed in $OUT/eval-<id>.json: which checks report it), all 40 quick/thorough
# commands on the unchanged tree ($OUT/clean.txt) and the mutant self-test ($OUT/mutants.txt).
# Do not edit checker/ while it runs: run.sh rebuilds the binary when sources are newer.
export OUT=${OUT:-/tmp/regress}
cd /verif
mkdir -p ${OUT:-/tmp/regress}; rm -f ${OUT:-/tmp/regress}/*
P=8 tools/eval_silent_all.sh > ${OUT:-/tmp/regress}/silent.txt 2>&1
cd seeded && ls -d C*/ | tr -d / | xargs -P 8 -I{} sh -c './eval.sh {} > ${OUT:-/tmp/regress}/eval-{}.json 2>/dev/null'
cd /verif; for p in $(jq -r '.checks[].property_id' MANIFEST.json); do for t in quick thorough; do out=$(./run.sh $p $t -no-evidence 2>&1); rc=$?; echo "$p $t rc=$rc $(echo "$out" | tail -1 | cut -c1-100)"; done; done > ${OUT:-/tmp/regress}/clean.txt 2>&1
python3 selftest/run_mutants.py > ${OUT:-/tmp/regress}/mutants.txt 2>&1
echo done > ${OUT:-/tmp/regress}/done
