#!/usr/bin/env bash
# eval_silent.sh <patch.diff> [label] : applies a behaviour-preserving change to a scratch worktree of
# /repo HEAD, checks it builds, and runs every property's quick check against it. Any non-zero exit is a
# FALSE ALARM of that check. Prints one JSON line. The worktree is removed afterwards.
P=$1; L=${2:-$1}
HERE="$(cd "$(dirname "${BASH_SOURCE[0]}")/.." && pwd)"
export GOFLAGS=-mod=mod GOPROXY=off GOSUMDB=off GOTOOLCHAIN=local; unset GOWORK
WT=$(mktemp -d /tmp/sil-XXXXXX)
git -C /repo worktree add --detach "$WT" HEAD >/dev/null 2>&1
( cd "$WT" && git apply "$P" ) 2>/dev/null || { echo "{\"id\":\"$L\",\"error\":\"apply\"}"; git -C /repo worktree remove --force "$WT"; exit 1; }
( cd "$WT" && go build ./tars/... && cd tars/tools/tars2go && go build ./... ) >/dev/null 2>&1 || { echo "{\"id\":\"$L\",\"error\":\"build\"}"; git -C /repo worktree remove --force "$WT"; exit 1; }
res="{\"id\":\"$L\",\"alarms\":{"
first=1
for p in $(jq -r '.checks[].property_id' "$HERE/MANIFEST.json"); do
  out=$(VERIF_REPO="$WT" "$HERE/run.sh" $p quick -no-evidence 2>&1); rc=$?
  if [ $rc -ne 0 ]; then
    keys=$(echo "$out" | grep -E "^\s+(violated|undecided):" | sed -E 's/^\s+(violated|undecided): //' | cut -d' ' -f1 | cut -d'|' -f1,2 | sort -u | tr '\n' ';' | tr '"' "'" | sed 's/;$//')
    [ $first = 1 ] || res="$res,"; first=0
    res="$res\"$p\":\"$keys\""
  fi
done
res="$res}}"
git -C /repo worktree remove --force "$WT"; rm -rf "$WT"
echo "$res"
