#!/usr/bin/env python3
"""import_seeds.py <round-tag>: copies /tmp/seed-out/<Cxx>/m<k> into /verif/seeded/<Cxx>-<tag>m<k>/ with a
normalised meta.json (which files go where, which commands run the demonstration)."""
import os,re,json,glob,shutil,sys
tag=sys.argv[1] if len(sys.argv)>1 else ''
props={json.loads(l)['id']:json.loads(l) for l in open('/verif/properties.jsonl')}
for run in sorted(glob.glob('/tmp/seed-out/*/m*/demo/RUN.md')):
    parts=run.split('/'); pid,mk=parts[3],parts[4]
    demo=os.path.dirname(run)
    sid=f"{pid}-{tag}{mk}"
    dst=f"/verif/seeded/{sid}"
    if os.path.exists(dst): continue
    os.makedirs(dst+"/demo",exist_ok=True)
    shutil.copy(f"/tmp/seed-out/{pid}/{mk}/patch.diff",dst+"/patch.diff")
    for f in os.listdir(demo):
        src=os.path.join(demo,f)
        if os.path.isfile(src): shutil.copy(src,dst+"/demo/"+f)
        elif os.path.isdir(src) and not f.endswith('.bin'): shutil.copytree(src,dst+"/demo/"+f,dirs_exist_ok=True)
    # drop built binaries
    for b in glob.glob(dst+"/demo/*.bin"): os.remove(b)
    notes=f"/tmp/seed-out/{pid}/{mk}/notes.md"
    if os.path.exists(notes): shutil.copy(notes,dst+"/notes.md")
    dj=os.path.join(demo,'demo.json')
    if os.path.exists(dj):
        try:
            d=json.load(open(dj))
            meta={"id":sid,"property":pid,"title":props[pid]['title'],"kind":d.get("kind","gotest"),"files":d.get("files",[]),"cwd":d.get("cwd",""),
                  "commands":d.get("commands",["./run.sh"]) if d.get("kind")=="gotest" else ["./run.sh"],
                  "source":"written by an independent sub-agent that saw only the property text and a scratch worktree"}
            json.dump(meta,open(dst+"/meta.json","w"),indent=1)
            print(sid,meta["kind"],meta["files"],meta["commands"][:2],meta["cwd"])
            continue
        except Exception as e:
            print(sid,"demo.json unusable:",e)
    txt=open(run).read()
    lines=[re.sub(r'^\$ ','',l.strip()) for l in txt.split('\n')]
    cps={}
    for l in lines:
        m=re.match(r'cp\s+(\S+)\s+(\S+)',l)
        if m and m.group(1).endswith('_test.go'):
            d=m.group(2)
            d=re.sub(r'^(<[^>]*>|\$\w+|\$\{\w+\}|/tmp/seed/C\d+)/?','',d)
            if d.endswith('_test.go'): d=os.path.dirname(d)
            cps[os.path.basename(m.group(1))]=d.rstrip('/')
    tests=[];cwd=""
    for l in lines:
        m=re.search(r'(go test .*)$',l)
        if m and not l.startswith('#'):
            cmd=m.group(1).split('#')[0].strip()
            cmd=re.sub(r'\s*\|\|.*$','',cmd); cmd=re.sub(r'\s*;.*$','',cmd); cmd=re.sub(r'\s*2>&1.*$','',cmd)
            tests.append(cmd)
        if l.startswith('cd ') and 'tars2go' in l: cwd='tars/tools/tars2go'
    testfiles=[f for f in os.listdir(demo) if f.endswith('_test.go')]
    files=[]
    for f in testfiles:
        if f in cps: files.append({"src":"demo/"+f,"dst_dir":cps[f]})
        else:
            pk=None
            for t in tests:
                mm=re.findall(r'(\./\S+)',t)
                if mm: pk=mm[0].strip('./').rstrip('/')
            pkgdir=(cwd+'/' if cwd and not (pk or '').startswith('tars') else '')+(pk or '')
            files.append({"src":"demo/"+f,"dst_dir":pkgdir})
    kind="gotest" if testfiles and tests else "script"
    meta={"id":sid,"property":pid,"title":props[pid]['title'],"kind":kind,"files":files,"cwd":cwd,"commands":tests if kind=="gotest" else ["./run.sh"],
          "source":"written by an independent sub-agent that saw only the property text and a scratch worktree"}
    json.dump(meta,open(dst+"/meta.json","w"),indent=1)
    print(sid,kind,files,tests[:2],cwd)
