#!/usr/bin/env bash
# try_patch.sh <patch.diff> <prop> [<prop>...] : apply a patch to /repo, run the quick checks, undo.
# Prints per property: exit code and the violated obligation keys.
P="$1"; shift
cd /repo || exit 2
if [ -n "$(git status --porcelain)" ]; then echo "/repo not clean"; exit 2; fi
git apply "$P" || { echo "patch does not apply"; exit 2; }
trap 'git -C /repo checkout -- . ; git -C /repo clean -fdq' EXIT
for id in "$@"; do
  out=$(/verif/run.sh "$id" "${TIER:-quick}" -no-evidence 2>&1); rc=$?
  echo "== $id rc=$rc"
  echo "$out" | grep -E "^\s+(violated|undecided):" | cut -c1-${W:-260}
done
