#!/usr/bin/env python3
"""Regenerates /verif/MANIFEST.json from the table below (kept next to the rules so that the
level text names exactly the rules that are implemented)."""
import json, subprocess, os
ROOT = os.path.dirname(os.path.dirname(os.path.abspath(__file__)))
props = [json.loads(l) for l in open(os.path.join(ROOT, 'properties.jsonl'))]

# property -> (technique, what the rules decide, what is not decided)
CLAIMS = {
 'C05': ("SSA dataflow: decoded-length taint to allocation sizes with dominating-guard (interval) discharge; call-graph SCCs with depth-guard recognition; cross-procedural parameter provenance to ParsePackage framing; loop-progress analysis on natural loops",
         "C05.R1 no allocation sized by an unchecked decoded length; C05.R2 every recursion cycle of the decoders passes a depth bound; C05.R3 network buffers are sliced only after framing by ParsePackage (all call paths incl. UDP); C05.R5 every decoder loop consumes input or fails each iteration; C06.R1 fixed-size reads are complete or an error",
         "the numeric allocation factor, wall-clock time, and panics from sources other than the listed sinks (general index taint C05.R4 is partially covered by R3 and C17/C18 rules)"),
 'C06': ("SSA path analysis: must-return-error-unless-guarded over the CFG with edge-pruned reachability; structural value identity (no-CSE aware) for length guards; error-propagation analysis of every read primitive call",
         "C06.R1 every read from the underlying bytes.Reader is complete or an error; C06.R2 Reader.Next results are used as data only under a length guard whose failing branch errors; C06.R5 errors of read primitives inside codec/tup are never dropped or overwritten",
         "value equality with a strict reference decoder on all truncations (dynamic oracle); inadmissible wire types are decided under C02.R8"),
}

checks = []
na = []
for p in props:
    pid = p['id']
    if pid in CLAIMS:
        tech, decided, notdecided = CLAIMS[pid]
        checks.append({
            "property_id": pid,
            "quick_cmd": f"./run.sh {pid} quick",
            "thorough_cmd": f"./run.sh {pid} thorough",
            "evidence_file": f"evidence/{pid}.json",
            "replay_cmd_template": "./run.sh --replay {path}",
            "engine": "tarsverif",
            "level_claimed": {
                "category": "other",
                "text": "Static analysis decides structural necessary conditions of the property for ALL paths of the current source (not the behaviour itself): " + decided + ". Not decided: " + notdecided + ". A violated or undecided obligation fails the check with file:line, rule and construct.",
                "design_ref": f"DESIGN.md section 4, {pid}",
            },
            "level_note": "Trusted base: go/packages+go/types+go/ssa (x/tools v0.29.0), Go semantics, documented behaviour of bytes/encoding/binary/sync/context, and the rule tables in /verif/checker. Analysed configuration: linux/amd64, default tags, non-test packages ./tars/... (+ tars2go module where stated). Known findings listed in known_findings.txt are printed as KNOWN-FINDING and do not fail the check.",
            "technique": tech,
        })
    else:
        na.append({"property_id": pid, "reason": "check not built yet (build in progress; rules are designed in DESIGN.md section 4)"})

m = {
 "version": 1,
 "setup_cmd": "./run.sh --build",
 "hooks": {
   "guard": "verif",
   "enable": "none: the checks are pure static analysis of the source; no hook or instrumentation exists in /repo, the tag `verif` is reserved and unused",
   "baseline_off_cmd": "./baseline.sh",
   "source_commits": [],
   "add_only": True,
 },
 "engines": [{"name": "tarsverif", "path": "checker/", "serves_properties": [c["property_id"] for c in checks],
              "kind_free_text": "repository-specific static analyser (go/packages + go/ssa + dominance/dataflow rules), one obligation per rule instance"}],
 "checks": checks,
 "not_applicable": na,
 "notes": "All checks analyse /repo's current working tree on every run. fix: commits in /repo repair genuine defects found by the rules (recorded as `fixed:` in known_findings.txt).",
}
json.dump(m, open(os.path.join(ROOT, 'MANIFEST.json'), 'w'), indent=1)
print("claimed:", [c["property_id"] for c in checks])
