#!/usr/bin/env python3
"""Regenerates /verif/MANIFEST.json from the table below (kept next to the rules so that the
level text names exactly the rules that are implemented)."""
import json, subprocess, os
ROOT = os.path.dirname(os.path.dirname(os.path.abspath(__file__)))
props = [json.loads(l) for l in open(os.path.join(ROOT, 'properties.jsonl'))]

# property -> (technique, what the rules decide, what is not decided)
CLAIMS = {
 'C02': ("bit-provenance (known-bits) abstract interpretation of the head writer/reader; interval-set dataflow on SSA for narrowest-width ranges; three-way width agreement (writer/reader/skipper) against the wire table; conversion-chain provenance",
         "C02.R1 head layout and escape tag, all WriteHead call sites; C02.R2 payload widths W=R=S=table; C02.R3 narrowest width/zero marker/string length form as value sets; C02.R4 sign extension and bit transport on reads; C02.R5 float bits, big-endian helpers, length fields; C02.R8 admissible wire types per reader",
         "value-level round-trip equality for all inputs is argued from these facts, not machine-checked; stdlib bytes/binary/math are trusted"),
 'C04': ("interval-set dataflow over the skip switch; loop-bound/multiplier extraction; dominance of ResetDefault over reads; control dependence of not-found returns on require==false",
         "C04.R1 skip switch exhaustive; C02.R2 skip widths; C04.R3 heads per container entry; C04.R4 un-read symmetry with the head writer; C04.R5 absent required field is an error; C04.R6 defaults installed before reading (48 generated readers)",
         "decoded values with arbitrary interleaved unknown fields; K2 (generator skips members without explicit default in ResetDefault) is a thorough-tier generator finding"),
 'C05': ("SSA dataflow: decoded-length taint to allocation sizes with dominating-guard discharge; call-graph SCCs with depth-guard recognition; cross-procedural parameter provenance to ParsePackage framing; loop-progress analysis on natural loops",
         "C05.R1 no allocation sized by an unchecked decoded length; C05.R2 every recursion cycle of the decoders passes a depth bound; C05.R3 network buffers are sliced only after framing by ParsePackage (all call paths incl. UDP); C05.R5 every decoder loop consumes input or fails each iteration; C06.R1 fixed-size reads complete or error; C07.R1 frame length classification",
         "the numeric allocation factor, wall-clock time, and panics from operations other than the listed sinks"),
 'C06': ("SSA path analysis: must-return-error-unless-guarded over the CFG with edge-pruned reachability; structural value identity (no-CSE aware) for length guards; error-propagation analysis of every read primitive call",
         "C06.R1 every read from the underlying bytes.Reader is complete or an error; C06.R2 Reader.Next results are used as data only under a length guard whose failing branch errors; C06.R5 errors of read primitives inside codec/tup are never dropped or overwritten; C02.R8 inadmissible wire types are rejected",
         "value equality with a strict reference decoder on all truncations (dynamic oracle)"),
 'C07': ("interval-set and dominating-fact analysis of the frame classifier (symbolic maximum); SSA value-identity dataflow over both receive loops (append/parse/copy/advance), loop-carried phi analysis, sibling comparison server/client",
         "C07.R0 status tables agree; C07.R1 Full iff 4<=header<=max and complete, Less iff short/incomplete; C07.R2 F1-F5: exact bytes appended, fresh copy of cur[:L], advance by the same L, buffer dropped only when observed empty, remainder re-parsed before the next Read, error ends only this connection",
         "behaviour of net.Conn; ordering between handler goroutines after hand-off; all chunkings are covered only through the loop's dataflow relations"),
 'C08': ("who-may-access analysis of the id counter over the whole program; provenance of table keys/channels via access paths; dominance (register-before-send); who-may-send on reply channels",
         "C08.R1 ids non-zero; C08.R2 one process-wide atomic counter, no plain access or blind store; C08.R3 only generated ids on the wire; C08.R4 key types agree; C08.R5 register before send, fresh unbuffered channel, same key on delete; C08.R6 delivery only via Load(p.id) with a bounded select",
         "interleavings of callers/sender/receiver; id reuse after 2^32 calls"),
 'C09': ("pairing analysis (acquire/release on all exits incl. defer and closure hand-off); context-deadline provenance through phis; bounded-wait check of every blocking select/receive/dial in the exchange cone",
         "C09.R1 counters and pending-table entries paired on all exits (client and server); C09.R2 the exchange always runs under a deadline; C09.R3 every peer-dependent wait has a ctx.Done()/timer case, dials have timeouts; C08.R2/R5/R6 id uniqueness and late-reply handling",
         "the numeric bound deadline+dial+slack; fault sequences; K3 is listed as a known finding"),
 'C10': ("field-echo dataflow with overwrite (clobber) analysis on the response packet; counted-write analysis per return of the handler closures; control-dependence on the deadline select and ping test; reaching-definition check of the outcome error; closure-capture provenance",
         "C10.R1 identity echo in all response producers and generated dispatchers; C10.R2 one write two-way / none one-way; C10.R3 dispatch gated by not-expired and not-ping, queue-timeout code; C10.R4 outcome not replaced by filter results, error mapping; C10.R5 three versions in every section; C10.R6 handle timeout; C10.R7 receive time stamped before queueing; C07.R2 framing",
         "request/response streams under concurrency; UDP specifics; timing"),
 'C11': ("who-may-store analysis of the closed flag with identity-guard dominance; call restriction for per-connection goroutines; must-pass-through (re-queue on write error, close before receiver exit); select-case inspection",
         "C11.R1 stale closes cannot mark the client closed, per-connection goroutines close only their own connection; C11.R2 failed write re-queues, fail queue first; C11.R3 blocking dequeue watches connDone (K5 known finding); C11.R4 one receiver+sender per dial under the lock, receiver exit marks closed",
         "latency; interleavings of sender/receiver beyond these structural conditions"),
 'C12': ("dominance/loop-exit analysis of close-after-drain; control dependence of the reconnect broadcast; Range-callback return analysis; join-before-release (call graph of job producers); increment-before-hand-off ordering",
         "C12.R1 connections closed only after numInvoke==0; C12.R2 reconnect notification on both paths, to every connection, with the constant the client tests; C12.R3 Shutdown returns on drain or ctx expiry; C12.R4 producers joined before pool release (K4 known finding); C12.R5 requests counted in flight from the read; C09.R1 pairing",
         "all interleavings of accept/receive/handler/poller; timing"),
 'C13': ("lockset analysis over the selector types (lock state dataflow with helper/closure inheritance); dominating-guard positivity analysis with correlated-branch interval propagation; must-pass-through (rebuild after mutation) with helper summaries; sibling-triple agreement in the manager; structural list/map/ring consistency",
         "C13.R1 lock discipline incl. non-thread-safe rand; C13.R2 no division/modulo/Intn/make by a possibly non-positive value; C13.R3 derived state rebuilt after every membership change; C13.R4 the three selectors updated together; C13.R5 rotation index; C13.R6 error only when empty; C13.R7 member list/map/ring consistency and ownership of the list",
         "the weight formula, proportions and strict rotation over histories; membership after arbitrary histories"),
 'C14': ("effect analysis of the routing call cones (purity); structural sibling comparison of ring-key expressions (add vs remove); provenance of the hash code from the call context; control dependence of strategy dispatch; ring-lookup idiom check",
         "C14.R1 routing cone is pure; C13.R3 ring sorted after every change; C14.R3 ring points depend only on the endpoint and Remove deletes what add inserted; C14.R4 mod-hash slot; C14.R5 hash-type dispatch and constant agreement; C14.R6 caller's code reaches the selector; C14.R7 first point >= key with wrap-around only past the end; C13.R7 list ownership",
         "minimal disruption over all 2^32 codes; hash collisions between endpoints"),
 'C15': ("who-may-store analysis of the adapter status with dominating threshold guards; control dependence of probe and reinstatement; single-layer accounting check over the call cone; guard analysis of nil-adapter returns",
         "C15.R1 blocking needs >= 2 failures; C15.R2 probe spacing >= 30 s; C15.R3 reinstatement only after a reply, failures counted at one layer; C13.R4 blocked endpoints leave all selectors; C15.R5 no `no endpoint` while the registry lists one, random fallback",
         "everything that depends on elapsed time and outcome sequences"),
 'C17': ("error-propagation analysis of the XML tokenizer call (non-EOF errors must surface); return-value provenance of the typed getters incl. parse width; package-wide index/slice guard analysis with a justified-exception table; control dependence of node creation on findChild miss",
         "C17.R1 tokenizer errors are not swallowed; C17.R2 getters fall back to the default, parse width matches the type; C17.R3 no unguarded index in package conf; C17.R4 first '=' splits, repeated domains merge, comments skipped",
         "completeness of the representation for all documents"),
 'C18': ("package-wide index/slice guard analysis; field-copy provenance of composite literals; phi/edge analysis of derived fields (Proto, Istcp); interval analysis of the weight normalisation; flag table comparison",
         "C18.R1 no string crashes Parse; C18.R2 conversions copy field by field, Proto derived consistently; C18.R3 one definition of the cache key; C18.R4 flag names/defaults, option-to-field mapping, weight normalisation set, protocol word to Istcp",
         "flag parsing for all option orders and spacings (delegated to package flag)"),
 'C19': ("channel-flow analysis of the pool (received value has exactly one send / one synchronous call); loop-bound extraction (cap of the idle queue); ordering of registration and wait in the worker loop; handshake shape of release",
         "C19.R1 linear hand-off of jobs; C19.R2 jobs run only on workers, exactly cap(WorkerQueue) workers; C19.R3 a registered worker is idle; C19.R4 release collects every worker with a handshake",
         "exactly-once and bounded parallelism over all interleavings"),
 'C20': ("control dependence of the flush acknowledgement on a non-blocking emptiness observation with no blocking channel operation in between; who-may-receive and start-once analysis of the flusher; write-per-entry and send-per-call counting; call ordering before os.Exit",
         "C20.R1 drain before acknowledging; C20.R2 single consumer started once, one undivided Write per entry; C20.R4 one enqueue per accepted log call; C20.R5 FlushLogger called directly before os.Exit and deferred in Run",
         "the one-second timeout; the writers' own behaviour; all interleavings"),

 'C01': ("AST-level codec event extraction (grammar over generated proxy and dispatcher bodies) with shape comparison per interface function; provenance of context/status through every hop (AST + SSA access paths); reaching-definition check of the call outcome; filter-chain shape and invoke-once analysis; emitter sibling agreement in the generator",
         "C01.R1 proxy and dispatcher agree on tag/shape of every argument and result (30 functions x 3 variants); C01.R2 wire names and packet types; C01.R4 context/status plumbing h1-h7; C01.R7 filter selection order, middleware wrap order, invoke exactly once; C01.R10 decoded arguments reach the implementation in position, server error code/message reach the caller; C10.R1/R2/R4/R5 identity echo, one reply, outcome not overwritten by filters, versions; C16.R4 generator emitter siblings",
         "values (C02/C03), TCP, concurrency of callers, exactly-once delivery at run time"),
 'C03': ("AST-level codec event extraction of all generated WriteTo/ReadFrom/WriteBlock/ReadBlock bodies into shapes; comparison with the Go type, the struct tag and an independent reading of the .tars IDL files; guard/default agreement with ResetDefault; generator template/emitter checks",
         "C03.R1 schema = writer = reader per member (128 members); C03.R2 ascending tags, each member once; C03.R3 presence guards agree with the reader's defaults; C03.R5 block framing; C03.R6 bindings follow the IDL (tags, require, types, defaults, enums, constants, interface signatures); C04.R4 un-read symmetry; C16.R3/R4 template identifiers and emitter siblings; C01.R1 parameters",
         "value equality for all inputs; what the generator prints for an arbitrary IDL (only its emitter structure)"),
 'C16': ("EOF-consistency abstract interpretation of every parser/lexer loop (constant folding of token tests with the EOF constant, callee summaries `cannot return at EOF`) plus progress analysis; recursion-consumes-input check; recover/exit analysis of the entry point; resolution of template identifiers against package codec; AST sibling analysis of the emitters; independent IDL reader vs checked-in bindings",
         "C16.R1 the front end terminates on every input (all unbounded loops advance and cannot spin at EOF; include recursion is cut); C16.R2 diagnostics are recovered into exit 1; C16.R3 every codec identifier in a template exists; C16.R4 emitter siblings (type cases, element tags, argument/result tags, counter before recursion, loop-local temporaries, loop bound snapshot); C16.R5 generator findings K1/K2/K6 (known); C03.R6 checked-in bindings follow the IDL",
         "that arbitrary valid IDL yields compiling code; byte-for-byte reproduction of the checked-in files (needs running the generator)"),

}

# the "decided" text is generated from the rule catalogue so that it always names the rules that exist
import subprocess
_rules = json.loads(subprocess.run([os.path.join(ROOT, 'bin', 'tarsverif'), 'list-json'], capture_output=True, text=True).stdout)
def decided_for(pid):
    parts = []
    for r in _rules:
        if pid in r['props']:
            title = r['doc'].split(':')[0].split(';')[0]
            if len(title) > 110: title = title[:107] + '...'
            parts.append(f"{r['id']}{' (thorough)' if r['thorough'] else ''} {title}")
    return '; '.join(parts)

checks = []
na = []
for p in props:
    pid = p['id']
    if pid in CLAIMS:
        tech, _hand, notdecided = CLAIMS[pid]
        decided = decided_for(pid)
        checks.append({
            "property_id": pid,
            "quick_cmd": f"./run.sh {pid} quick",
            "thorough_cmd": f"./run.sh {pid} thorough",
            "evidence_file": f"evidence/{pid}.json",
            "replay_cmd_template": "./run.sh --replay {path}",
            "engine": "tarsverif",
            "level_claimed": {
                "category": "other",
                "text": "Static analysis decides structural necessary conditions of the property for ALL paths of the current source (not the behaviour itself): " + decided + ". Not decided: " + notdecided + ". A violated or undecided obligation fails the check with file:line, rule and construct.",
                "design_ref": f"DESIGN.md section 4, {pid}",
            },
            "level_note": "Trusted base: go/packages+go/types+go/ssa (x/tools v0.29.0), Go semantics, documented behaviour of bytes/encoding/binary/sync/context, and the rule tables in /verif/checker. Analysed configuration: linux/amd64, default tags, non-test packages ./tars/... (+ tars2go module where stated). Functions that do not exist in the pinned tree (checker/baseline_funcs.txt) and are only called statically from their own package are expanded in place at their call sites before analysis (source-level overlay, reported as NOTE; DESIGN.md section 2), so that an extracted helper is analysed in the context of its callers; before that, unexported declarations that were renamed, methods that became plain functions and reordered parameters are identified with their pinned counterparts (checker/baseline_names.json: same body up to renaming, unique match) and analysed under the pinned names (also a source-level overlay with a NOTE line; anything ambiguous is analysed as written). Known findings listed in known_findings.txt are printed as KNOWN-FINDING and do not fail the check (none is open).",
            "technique": tech,
        })
    else:
        na.append({"property_id": pid, "reason": "no rule built"})

m = {
 "version": 1,
 "setup_cmd": "./run.sh --build",
 "hooks": {
   "guard": "verif",
   "enable": "none: the checks are pure static analysis of the source; no hook or instrumentation exists in /repo, the tag `verif` is reserved and unused",
   "baseline_off_cmd": "./baseline.sh",
   "source_commits": [],
   "add_only": True,
 },
 "engines": [{"name": "tarsverif", "path": "checker/", "serves_properties": [c["property_id"] for c in checks],
              "kind_free_text": "repository-specific static analyser (go/packages + go/ssa + dominance/dataflow rules), one obligation per rule instance"}],
 "checks": checks,
 "not_applicable": na,
 "notes": "All checks analyse /repo's current working tree on every run. fix: commits in /repo repair genuine defects found by the rules (recorded as `fixed:` in known_findings.txt).",
}
json.dump(m, open(os.path.join(ROOT, 'MANIFEST.json'), 'w'), indent=1)
print("claimed:", [c["property_id"] for c in checks])
