#!/usr/bin/env bash
# sil.sh <silent-id> <prop> [more props]: apply one behaviour-preserving change to a scratch worktree and show
# what the given checks report on it.
ID=$1; shift
HERE="$(cd "$(dirname "${BASH_SOURCE[0]}")/.." && pwd)"
WT=$(mktemp -d /tmp/sil1-XXXXXX)
git -C /repo worktree add --detach "$WT" HEAD >/dev/null 2>&1
P="$HERE/silent/$ID/patch.diff"; [ -f "$HERE/silent/$ID/patch.head.diff" ] && P="$HERE/silent/$ID/patch.head.diff"
( cd "$WT" && git apply "$P" ) || { echo "apply failed"; }
for p in "$@"; do
  VERIF_REPO="$WT" "$HERE/run.sh" $p quick -no-evidence 2>&1 | grep -E "^NOTE|violated:|undecided:|^     |^OK" | cut -c1-${W:-420}
done
[ -n "${KEEP:-}" ] && echo "kept $WT" || { git -C /repo worktree remove --force "$WT"; rm -rf "$WT"; }
