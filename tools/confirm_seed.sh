#!/usr/bin/env bash
# confirm_seed.sh <prop> <mK>: confirms a seeded change in its scratch worktree /tmp/seed/<prop>:
#  clean tree: demo passes; with patch: builds, existing suite passes (minus the known-failing test), demo fails.
# Writes /tmp/seed-out/<prop>/<mK>/confirm.json
P=$1; M=$2
WT=/tmp/seed/$P; OUT=/tmp/seed-out/$P/$M
export GOFLAGS=-mod=mod GOPROXY=off GOSUMDB=off GOTOOLCHAIN=local; unset GOWORK
cd $WT || exit 2
git checkout -q -- . ; git clean -fdq
# extract commands from RUN.md
python3 - "$OUT/demo/RUN.md" > $OUT/demo_cmds.sh <<'PY'
import sys,re
lines=open(sys.argv[1]).read().split('\n')
out=[];fence=False
for l in lines:
    if l.strip().startswith('```'):
        fence=not fence; continue
    if fence or l.startswith('    '):
        c=l.strip()
        if not c or c.startswith('#'): continue
        if re.search(r'git (apply|checkout|stash|clean)',c): continue
        if c.startswith('$ '): c=c[2:]
        out.append(c)
print('set -e\nexport GOFLAGS=-mod=mod GOPROXY=off GOSUMDB=off GOTOOLCHAIN=local; unset GOWORK\n'+'\n'.join(out))
PY
run_demo() { ( cd $WT && timeout 600 bash $OUT/demo_cmds.sh ) > $OUT/$1.log 2>&1; echo $?; }
clean_rc=$(run_demo demo_clean_confirm)
git checkout -q -- . ; git clean -fdq
git apply $OUT/patch.diff || { echo "{\"apply\":false}" > $OUT/confirm.json; exit 1; }
build_rc=0; (go build ./... && (cd tars/tools/tars2go && go build ./...)) > $OUT/build_confirm.log 2>&1 || build_rc=1
go test -vet=off -count=1 ./tars/... > $OUT/suite_confirm.log 2>&1
fails=$(grep -E "^(--- FAIL|FAIL|panic:)" $OUT/suite_confirm.log | grep -v "TestKetamaHashAlg_Hash\|consistenthash\|^FAIL$" | head -5 | tr '\n' ';')
patch_rc=$(run_demo demo_patch_confirm)
git checkout -q -- . ; git clean -fdq
python3 - <<PY
import json
json.dump({"apply":True,"demo_clean_rc":$clean_rc,"build_rc":$build_rc,"suite_unexpected_failures":"""$fails""","demo_patch_rc":$patch_rc,
 "confirmed": ($clean_rc==0 and $build_rc==0 and """$fails"""=="" and $patch_rc!=0)}, open("$OUT/confirm.json","w"), indent=1)
PY
cat $OUT/confirm.json | tr '\n' ' '; echo
