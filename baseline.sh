#!/usr/bin/env bash
# Runs the repository's pinned baseline (guard OFF: no build tag is ever set by /verif) and
# compares the passing tests with /root/.vp/BASELINE.json stable_pass. Exit 0 iff all stable tests pass.
export GOFLAGS=-mod=mod GOPROXY=off GOSUMDB=off GOTOOLCHAIN=local
unset GOWORK
OUT="$(mktemp)"
for m in $(cat /w/out/gomods.txt); do
  MF=$(cd /repo/$m && . /w/out/goenv.sh && gomodflag)
  (cd /repo/$m && go test $MF -json -vet=off -count=1 -timeout 25m ./...) >> "$OUT" 2>/dev/null
done
python3 - "$OUT" <<'PY'
import json,sys
passed=set()
for l in open(sys.argv[1]):
    try: e=json.loads(l)
    except Exception: continue
    if e.get('Action')=='pass' and e.get('Test'): passed.add(e['Package']+'::'+e['Test'])
base=json.load(open('/root/.vp/BASELINE.json'))['stable_pass']
missing=[t for t in base if t not in passed]
print(f"baseline: {len(base)-len(missing)}/{len(base)} stable tests pass")
for t in missing: print("MISSING", t)
sys.exit(1 if missing else 0)
PY
rc=$?
rm -f "$OUT"
exit $rc
